# helpers to compile /repo C sources unchanged for host-side harnesses
import os
from lib import vf

SHIM = os.path.join(vf.ROOT, "harness/c/shim")
LIBOSMO_INC = os.path.join(vf.REPO, "src/shared/libosmocore/include")
FW_INC = os.path.join(vf.REPO, "src/target/firmware/include")
TOP_INC = os.path.join(vf.REPO, "include")


# objects of the code under test are compiled with these flags so that their console output (which may change with any
# reworded or added diagnostic) never mixes with the protocol answers a harness prints on stdout; link console_sink(run)
CONSOLE_FLAGS = ["-Dputs=vf_console_puts", "-Dprintf=vf_console_printf", "-Dputchar=vf_console_putchar"]


def console_sink(run):
    return obj(run, os.path.join(vf.ROOT, "harness/c/console_sink.c"), "console_sink")


def obj(run, src, name, flags=(), includes=(), idirafter=(), compiler="gcc"):
    out = os.path.join(run.scratch, name + ".o")
    cmd = [compiler, "-O1", "-g", "-w", "-c"] + list(flags)
    for i in includes:
        cmd += ["-I", i]
    for i in idirafter:
        cmd += ["-idirafter", i]
    cmd += [src, "-o", out]
    rc, o = vf.sh(cmd, timeout=600)
    if rc != 0:
        raise vf.HarnessError("cannot compile %s: %s" % (src, o[-2500:]))
    return out


def firmware_obj(run, rel, name, extra_flags=()):
    """a firmware source file, compiled unchanged for the host"""
    return obj(run, os.path.join(vf.REPO, "src/target/firmware", rel), name,
               flags=["-DHOST_BUILD"] + list(extra_flags),
               includes=[SHIM, LIBOSMO_INC, TOP_INC], idirafter=[FW_INC])


def firmware_objs_for(run, primary_rel, funcs, name, extra_flags=()):
    """the objects of the firmware source files that DEFINE the given public functions: the file that holds them in the
    unchanged tree (`primary_rel`) plus, where a function has been moved to another file of the same directory, that file
    too (a split of one .c file into two must not change what the harness links)"""
    import re
    base = os.path.join(vf.REPO, "src/target/firmware")
    d = os.path.dirname(primary_rel)

    def defines(path, f):
        try:
            txt = re.sub(r"/\*.*?\*/", "", open(path, errors="replace").read(), flags=re.S)
        except OSError:
            return False
        return re.search(r"^[A-Za-z_][^;{}()]*\b%s\s*\([^;{}]*\)\s*\{" % re.escape(f), txt, re.M) is not None
    rels = [primary_rel]
    prim = os.path.join(base, primary_rel)
    for f in funcs:
        if defines(prim, f):
            continue
        for fn in sorted(os.listdir(os.path.join(base, d))):
            rel = os.path.join(d, fn)
            if fn.endswith(".c") and rel not in rels and defines(os.path.join(base, rel), f):
                rels.append(rel)
                break
    return [firmware_obj(run, rel, "%s_%d" % (name, i) if i else name, extra_flags=extra_flags) for i, rel in enumerate(rels)]


def sibling_objs(run, objs, dir_rel, name, extra_flags=(), rounds=3):
    """objects of OTHER source files of the firmware directory `dir_rel` that define symbols the given objects refer to but do
    not define (a table or a function moved into a file of its own next to the one it came from): found by a trial link,
    the undefined symbols are looked up as definitions in the .c files of that directory"""
    import re
    base = os.path.join(vf.REPO, "src/target/firmware")
    have, extra = set(), []
    for _ in range(rounds):
        rc, o = vf.sh(["gcc", "-nostartfiles", "-Wl,--no-gc-sections"] + list(objs) + extra + ["-o", os.path.join(run.scratch, name + ".trial")], timeout=300)
        syms = set(re.findall(r"undefined reference to `([A-Za-z_]\w*)'", o)) - have
        if not syms:
            break
        have |= syms
        added = False
        for fn in sorted(os.listdir(os.path.join(base, dir_rel))):
            if not fn.endswith(".c"):
                continue
            rel = os.path.join(dir_rel, fn)
            txt = re.sub(r"/\*.*?\*/", "", open(os.path.join(base, rel), errors="replace").read(), flags=re.S)
            for sy in syms:
                if re.search(r"^(?!\s*extern\b)[A-Za-z_][^;{}()=]*\b%s\s*(\[[^\]]*\]\s*)*(=|\([^;{}]*\)\s*\{)" % re.escape(sy), txt, re.M):
                    o2 = firmware_obj(run, rel, "%s_sib%d" % (name, len(extra)), extra_flags=extra_flags)
                    if o2 not in extra and o2 not in objs:
                        extra.append(o2)
                        added = True
                    break
        if not added:
            break
    return extra


def libosmocore_obj(run, rel, name, extra_flags=()):
    return obj(run, os.path.join(vf.REPO, "src/shared/libosmocore/src", rel), name,
               flags=list(extra_flags),
               includes=[os.path.join(SHIM, "cfg/a/b"), LIBOSMO_INC])


def link(run, objs, name, flags=(), compiler="gcc", ignore_unresolved=False):
    out = os.path.join(run.scratch, name)
    cmd = [compiler] + list(flags) + list(objs) + ["-o", out]
    if ignore_unresolved:
        # symbols of the firmware environment that the functions under test never call
        cmd += ["-no-pie", "-static", "-Wl,--unresolved-symbols=ignore-all"]
    rc, o = vf.sh(cmd, timeout=600)
    if rc != 0:
        raise vf.HarnessError("cannot link %s: %s" % (name, o[-2500:]))
    return out
