# helpers to compile /repo C sources unchanged for host-side harnesses
import os
from lib import vf

SHIM = os.path.join(vf.ROOT, "harness/c/shim")
LIBOSMO_INC = os.path.join(vf.REPO, "src/shared/libosmocore/include")
FW_INC = os.path.join(vf.REPO, "src/target/firmware/include")
TOP_INC = os.path.join(vf.REPO, "include")


# objects of the code under test are compiled with these flags so that their console output (which may change with any
# reworded or added diagnostic) never mixes with the protocol answers a harness prints on stdout; link console_sink(run)
CONSOLE_FLAGS = ["-Dputs=vf_console_puts", "-Dprintf=vf_console_printf", "-Dputchar=vf_console_putchar"]


def console_sink(run):
    return obj(run, os.path.join(vf.ROOT, "harness/c/console_sink.c"), "console_sink")


def obj(run, src, name, flags=(), includes=(), idirafter=(), compiler="gcc"):
    out = os.path.join(run.scratch, name + ".o")
    cmd = [compiler, "-O1", "-g", "-w", "-c"] + list(flags)
    for i in includes:
        cmd += ["-I", i]
    for i in idirafter:
        cmd += ["-idirafter", i]
    cmd += [src, "-o", out]
    rc, o = vf.sh(cmd, timeout=600)
    if rc != 0:
        raise vf.HarnessError("cannot compile %s: %s" % (src, o[-2500:]))
    return out


def firmware_obj(run, rel, name, extra_flags=()):
    """a firmware source file, compiled unchanged for the host"""
    return obj(run, os.path.join(vf.REPO, "src/target/firmware", rel), name,
               flags=["-DHOST_BUILD"] + list(extra_flags),
               includes=[SHIM, LIBOSMO_INC, TOP_INC], idirafter=[FW_INC])


def libosmocore_obj(run, rel, name, extra_flags=()):
    return obj(run, os.path.join(vf.REPO, "src/shared/libosmocore/src", rel), name,
               flags=list(extra_flags),
               includes=[os.path.join(SHIM, "cfg/a/b"), LIBOSMO_INC])


def link(run, objs, name, flags=(), compiler="gcc", ignore_unresolved=False):
    out = os.path.join(run.scratch, name)
    cmd = [compiler] + list(flags) + list(objs) + ["-o", out]
    if ignore_unresolved:
        # symbols of the firmware environment that the functions under test never call
        cmd += ["-no-pie", "-static", "-Wl,--unresolved-symbols=ignore-all"]
    rc, o = vf.sh(cmd, timeout=600)
    if rc != 0:
        raise vf.HarnessError("cannot link %s: %s" % (name, o[-2500:]))
    return out
