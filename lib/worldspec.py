# Reference of the DOCUMENTED behaviour of the fake_trx world (property level, black box):
# written from the property statements C02/C03/C05/C10/C12/C18, the TRXC/TRXD protocol
# descriptions and 3GPP TS 45.002 6.2.3 -- NOT from the toolkit code and NOT from the Lean model.
# It consumes a `world.run` history line whose control commands are well-formed
# ("CMD VERB int int ...\0") and whose data datagrams are well-formed L1->TRX bursts, and
# produces, per operation, the EXPECTED observables; `judge()` compares them with what the real
# code did (the harness answer) and returns property-tagged discrepancies.
# Random quantities are expected inside their windows, never at exact values.
import re

H = 2715648
RNTABLE = [48, 98, 63, 1, 36, 95, 78, 102, 94, 73, 0, 64, 25, 81, 76, 59, 124, 23, 104, 100, 101, 47, 118, 85, 18, 56,
           96, 86, 54, 2, 80, 34, 127, 13, 6, 89, 57, 103, 12, 74, 55, 111, 75, 38, 109, 71, 112, 29, 11, 88, 87, 19,
           3, 68, 110, 26, 33, 31, 8, 45, 82, 58, 40, 107, 32, 5, 106, 92, 62, 67, 77, 108, 122, 37, 60, 66, 121, 42,
           51, 126, 117, 114, 4, 90, 43, 52, 53, 113, 120, 72, 16, 49, 7, 79, 119, 61, 22, 84, 9, 97, 91, 15, 21, 24,
           46, 39, 93, 105, 65, 70, 125, 99, 17, 123]
CMD_RE = re.compile(r"^CMD ([A-Z_0-9]+)((?: -?[0-9]+)*)\0*$")
ADDR = {"a": 1, "b": 2, "c": 3}


def mai(hsn, maio, n, fn):
    """3GPP TS 45.002 6.2.3"""
    if hsn == 0:
        return (fn + maio) % n
    t1, t2, t3 = fn // 1326, fn % 26, fn % 51
    t1r = t1 % 64
    m = t2 + RNTABLE[(hsn ^ t1r) + t3]
    nbin = n.bit_length()
    mp = m % (2 ** nbin)
    tp = t3 % (2 ** nbin)
    s = mp if mp < n else (mp + tp) % n
    return (s + maio) % n


class T:
    def __init__(self, addr, port, idx, child_mgt, clock):
        self.addr, self.port, self.idx, self.child_mgt, self.clock = addr, port, idx, child_mgt, clock
        self.children = []
        self.running = False
        self.rx = self.tx = None
        self.fh = None
        self.ver = 0
        self.muted = False
        self.ta = 0
        self.pwr_base, self.att = 50, 0
        self.toa, self.toa_thr = 0, 0
        self.rssi, self.rssi_thr, self.fake_rssi = -60, 0, False
        self.ci, self.ci_thr = 90, 0
        self.drop_n, self.drop_p = 0, 1
        self.queue = []          # (fn, tn, pwr, bits, uid)

    def rxf(self, fn):
        if self.fh is None:
            return self.rx
        hsn, maio, ma = self.fh
        return ma[mai(hsn, maio, len(ma), fn)][0]

    def txf(self, fn):
        if self.fh is None:
            return self.tx
        hsn, maio, ma = self.fh
        return ma[mai(hsn, maio, len(ma), fn)][1]

    ctrl = property(lambda s: s.port + 1 + 2 * s.idx)
    data = property(lambda s: s.port + 2 + 2 * s.idx)


class NotClean(Exception):
    """the history is outside what the reference covers (malformed input etc.)"""


class Ref:
    def __init__(self, extra, train_seqs):
        self.t = [T(1, 5700, 0, True, True), T(2, 6700, 0, False, True)]
        for e in extra:
            a, rest = e.split(":")
            p, i = rest.split("/")
            a, p, i = ADDR[a], int(p), int(i)
            if i == 0:
                self.t.append(T(a, p, 0, True, True))
            else:
                par = [k for k, x in enumerate(self.t) if (x.addr, x.port, x.idx) == (a, p, 0)]
                if not par:
                    raise NotClean("child without parent")
                self.t.append(T(a, p, i, True, False))
                self.t[par[0]].children.append(len(self.t) - 1)
        keys = [(x.addr, x.port, x.idx) for x in self.t]
        if len(set(keys)) != len(keys):
            raise NotClean("duplicate transceiver")
        self.clk_run = False
        self.clk = None
        self.train = train_seqs
        self.uid = 0
        self.last_calls = []
        self.traced = False      # set by judge_line when the harness ran with WORLD_TRACE=1
        self.events = []         # C03 bookkeeping: (uid, 'accepted'|'emitted'|'stale'|'cleared', info)

    # ------------------------------------------------------------------ control
    def affected(self, j):
        x = self.t[j]
        return [j] + (x.children if (x.child_mgt and x.idx == 0) else [])

    def power(self, j, on):
        for k in self.affected(j):
            y = self.t[k]
            y.running = on
            if not on:
                for q in y.queue:
                    self.events.append((q[4], "cleared", None))
                y.queue = []
                y.fh = None
        owners = [x for x in self.t if x.clock and x.running]
        if owners and not self.clk_run:
            self.clk_run, self.clk = True, 0
        elif not owners and self.clk_run:
            self.clk_run = False

    def ctrl(self, j, payload):
        """expected reply: dict(status=int|('win',lo,hi)..., verb, args, results) ; raises NotClean"""
        try:
            s = payload.decode("ascii")
        except UnicodeDecodeError:
            raise NotClean("non-ascii")
        m = CMD_RE.match(s)
        if not m:
            raise NotClean("not a well-formed command")
        verb = m.group(1)
        args = [int(a) for a in m.group(2).split()]
        x = self.t[j]
        st, res = 0, None
        n = len(args)
        if verb == "POWERON" and n == 0:
            ready = (x.rx is not None and x.tx is not None) or x.fh is not None
            if x.running or not ready:
                st = -1
            else:
                self.power(j, True)
        elif verb == "POWEROFF" and n == 0:
            self.power(j, False)
        elif verb == "RXTUNE" and n == 1:
            x.rx = args[0] * 1000
        elif verb == "TXTUNE" and n == 1:
            x.tx = args[0] * 1000
        elif verb == "MEASURE" and n == 1:
            f = args[0] * 1000
            found = any(y.running and y.fh is None and y.tx == f for y in self.t)
            res = ("win", -75, -50) if found else ("win", -120, -105)
        elif verb == "SETFH" and n >= 4:
            hsn, maio = args[0], args[1]
            fr = [a * 1000 for a in args[2:]]
            ma = list(zip(fr[0::2], fr[1::2]))
            if 0 <= hsn < 64 and ma:
                x.fh = (hsn, maio, ma)
            else:
                st = -1
        elif verb == "SETFORMAT" and n == 1:
            v = args[0]
            if v < 0 or v > 15:
                st = -1
            elif v in (0, 1):
                x.ver = v
                st = v
            else:
                st = 1          # highest supported lower version
        elif verb == "SETPOWER" and n == 1:
            x.att = args[0]
        elif verb == "NOMTXPOWER" and n == 0:
            res = ("exact", x.pwr_base)
        elif verb == "RFMUTE" and n == 1:
            x.muted = args[0] > 0
        elif verb == "SETTA" and n == 1:
            x.ta = args[0]
        elif verb == "FAKE_TOA" and n == 2:
            if args[1] < 0:
                st = -1
            else:
                x.toa, x.toa_thr = args
        elif verb == "FAKE_TOA" and n == 1:
            x.toa += args[0]
        elif verb == "FAKE_RSSI" and n == 2:
            if args[1] < 0:
                x.fake_rssi = False
            else:
                x.rssi, x.rssi_thr, x.fake_rssi = args[0], args[1], True
        elif verb == "FAKE_RSSI" and n == 1:
            x.rssi += args[0]
        elif verb == "FAKE_CI" and n == 2:
            if args[1] < 0:
                st = -1
            else:
                x.ci, x.ci_thr = args
        elif verb == "FAKE_CI" and n == 1:
            x.ci += args[0]
        elif verb == "FAKE_DROP" and n == 1:
            if args[0] < 0:
                st = -1
            else:
                x.drop_n, x.drop_p = args[0], 1
        elif verb == "FAKE_DROP" and n == 2:
            if args[0] < 0 or args[1] <= 0:
                st = -1
            else:
                x.drop_n, x.drop_p = args
        elif verb == "FAKE_TRXC_DELAY" and n == 1:
            # response delay in ms: negative values and values above one minute are refused
            if args[0] < 0 or args[0] > 60000:
                st = -1
        # anything else (unknown verb, other argument count): acknowledged with 0, no effect
        return {"verb": verb, "status": st, "args": m.group(2).split(), "res": res}

    # ------------------------------------------------------------------ data
    def data(self, j, d):
        """L1 -> TRX burst datagram; returns True if accepted (queued)"""
        if len(d) < 6:
            raise NotClean("short TRXD")
        ver, tn = d[0] >> 4, d[0] & 7
        if ver not in (0, 1) or (d[0] & 8):
            raise NotClean("TRXD header outside the reference")
        fn = int.from_bytes(d[1:5], "big")
        pwr = d[5]
        bits = list(d[6:])
        if len(bits) not in (148, 444) or any(b > 1 for b in bits) or fn >= H:
            raise NotClean("burst outside the property's quantifier")
        x = self.t[j]
        if ver != x.ver or not x.running:
            return False
        self.uid += 1
        x.queue.append((fn, tn, pwr, bits, self.uid))
        self.events.append((self.uid, "accepted", (j, fn)))
        return True

    # ------------------------------------------------------------------ clock
    def present_seqs(self, bits):
        out = []
        for name, tsc, bt, seq, tset in self.train:
            off = {"NORMAL": 61, "ACCESS": 8, "SYNC": 42}.get(bt)
            if off is not None and bits[off:off + len(seq)] == list(seq):
                out.append((tsc, tset))
        return out

    def tick(self):
        """expected datagrams of one tick: list of expectation dicts; [] when the clock is stopped"""
        exp = []
        self.last_calls = []
        if not self.clk_run:
            return exp, 0
        fn = self.clk
        if fn % 102 == 0:
            for x in self.t:
                if x.clock and x.running:
                    exp.append({"kind": "ind", "lport": x.port, "raddr": x.addr, "rport": x.port + 100,
                                "payload": b"IND CLOCK %d\0" % fn})
        stale = 0
        for j, x in enumerate(self.t):
            if not x.running:
                continue
            due = [q for q in x.queue if q[0] == fn]
            old = [q for q in x.queue if q[0] != fn and (fn - q[0]) % H < H // 2]
            x.queue = [q for q in x.queue if q not in due and q not in old]
            for q in old:
                stale += 1
                self.events.append((q[4], "stale", fn))
            for (bfn, tn, pwr, bits, uid) in due:
                self.events.append((uid, "emitted", fn))
                txf = x.txf(bfn)
                for k, y in enumerate(self.t):
                    if k == j or not y.running or y.rxf(bfn) != txf:
                        continue
                    self.last_calls.append((k, j, bfn))
                    sup = x.muted or y.muted
                    if not sup and y.drop_n > 0 and bfn % y.drop_p == 0:
                        y.drop_n -= 1
                        sup = True
                    e = {"kind": "burst", "lport": y.data, "raddr": y.addr, "rport": y.data + 100,
                         "ver": y.ver, "fn": bfn, "tn": tn, "src": j, "dst": k}
                    if sup:
                        if y.ver == 0:
                            continue
                        e.update(nope=True, rssi=(-110, -110), toa=(0, 0), ci=(-30, -30), soft=None)
                    else:
                        if y.fake_rssi:
                            r = (y.rssi - y.rssi_thr, y.rssi + y.rssi_thr)
                        else:
                            v = x.pwr_base - x.att - pwr - 110
                            r = (v, v)
                        toa = (y.toa - y.toa_thr - 256 * x.ta, y.toa + y.toa_thr - 256 * x.ta)
                        e.update(nope=False, rssi=r, toa=toa, ci=(y.ci - y.ci_thr, y.ci + y.ci_thr),
                                 soft=[127 if b == 0 else -127 for b in bits],
                                 mod=0 if len(bits) == 148 else 4, seqs=self.present_seqs(bits) if len(bits) == 148 else None)
                        # C13: outside the protocol ranges nothing may be sent; straddling windows are undecided
                        def cls(win, lo, hi):
                            if win[0] >= lo and win[1] <= hi:
                                return "in"
                            if win[1] < lo or win[0] > hi:
                                return "out"
                            return "maybe"
                        c = [cls(r, -120, -47), cls(toa, -32768, 32767)] + ([cls(e["ci"], -1280, 1280)] if y.ver == 1 else [])
                        if "out" in c:
                            continue
                        e["optional"] = "maybe" in c
                    exp.append(e)
        self.clk = (fn + 1) % H
        return exp, stale

    def jump(self, fn):
        if self.clk_run:
            self.clk = fn


# ---------------------------------------------------------------------------- observation parsing

SENDS_SEEN = []     # (dst, fn, rssi, toa256, nope) send attempts of the op parsed last (WORLD_TRACE=1)
CALLS_SEEN = []     # (dst, src, fn) routing decisions of the op parsed last (WORLD_TRACE=1)


def parse_obs(obs):
    """one op's observation string -> (datagrams [(lport, raddr, rport, bytes)], stale, exc)"""
    dg, stale, exc = [], 0, None
    CALLS_SEEN.clear()
    SENDS_SEEN.clear()
    if obs.strip() == ".":
        return dg, stale, exc
    for item in obs.strip().split(","):
        if item.startswith("stale:"):
            stale = int(item[6:])
        elif item.startswith("call:"):
            CALLS_SEEN.append(tuple(int(v) for v in item.split(":")[1:]))
        elif item.startswith("send:"):
            f = item.split(":")[1:]
            SENDS_SEEN.append((int(f[0]), int(f[1]), None if f[2] == "None" else int(f[2]),
                               None if f[3] == "None" else int(f[3]), f[4] == "1"))
        elif item.startswith("EXC:"):
            exc = item[4:]
        else:
            lp, rest = item.split(">")
            ra, rp, hx = rest.split(":")
            dg.append((int(lp), int(ra), int(rp), b"" if hx == "-" else bytes.fromhex(hx)))
    return dg, stale, exc


def parse_rx(d):
    """TRX -> L1 datagram per the TRXD layout (Spec/TrxdLayout.lean); None if not parseable"""
    if len(d) < 8:
        return None
    ver, tn = d[0] >> 4, d[0] & 7
    fn = int.from_bytes(d[1:5], "big")
    rssi = -d[5]
    toa = int.from_bytes(d[6:8], "big", signed=True)
    m = {"ver": ver, "tn": tn, "fn": fn, "rssi": rssi, "toa": toa}
    if ver == 0:
        body = d[8:]
        if len(body) in (150, 446):
            m["pad"] = bytes(body[-2:])
            body = body[:-2]
        else:
            m["pad"] = None
        m["soft"] = [127 - b for b in body]
        m["nope"] = False
        return m
    if ver == 1:
        if len(d) < 11:
            return None
        mts = d[8]
        m["nope"] = bool(mts & 0x80)
        m["mod"] = (mts >> 3) & 0xf
        m["tsc"] = mts & 7
        m["ci"] = int.from_bytes(d[9:11], "big", signed=True)
        body = d[11:]
        m["soft"] = [127 - b for b in body] if body else None
        return m
    return None


STATS = {}


def stat(k, n=1):
    STATS[k] = STATS.get(k, 0) + n


def judge_line(line, answer, train_seqs, props, traced=False):
    """compare the real code's answer for a clean history with the reference.
    returns list of discrepancy dicts {prop, op_index, op, what, expected, observed}"""
    out = []
    head, _, opstr = line.partition("|")
    tok = head.split()
    extra = [] if tok[2] == "-" else tok[2].split(",")
    if answer.startswith("cfgerr:"):
        return out
    try:
        ref = Ref(extra, train_seqs)
        ref.traced = traced
    except NotClean:
        return out
    parts = answer.split(" | ")
    obs = parts[0].split(" ; ")
    ops = [o.strip() for o in opstr.split(";") if o.strip()]
    if len(obs) != len(ops):
        return [{"prop": "harness", "what": "observation count mismatch"}]

    allout = []

    def bad(prop, i, what, expected=None, observed=None):
        for p in ((prop,) if isinstance(prop, str) else prop):
            allout.append({"prop": p, "op_index": i, "op": ops[min(i, len(ops) - 1)][:120], "what": what,
                           "expected": expected, "observed": observed})

    def result():
        # first-divergence policy: once the real code and the reference disagree, later differences are
        # consequences; only the discrepancies at the earliest operation are reported, with their own tags
        if not allout:
            return out
        first = min(d["op_index"] for d in allout)
        return out + [d for d in allout if d["op_index"] == first and d["prop"] in props]

    for i, (op, ob) in enumerate(zip(ops, obs)):
        t = op.split()
        dg, stale, exc = parse_obs(ob)
        if exc is not None:
            # an exception leaving a tick ends the clock thread: no further indication is sent, no further burst transmitted
            bad(("C14", "C12", "C03") if t[0] == "T" else "C14", i,
                "exception escaped" + (" from the clock tick (the clock thread dies)" if t[0] == "T" else ""), None, exc)
            return result()
        try:
            if t[0] == "C":
                j, sp = int(t[1]), int(t[2])
                payload = bytes.fromhex(t[3]) if t[3] != "-" else b""
                e = ref.ctrl(j, payload)
                stat("ctrl:%s:%s" % (e["verb"], e["status"]))
                x = ref.t[j]
                if len(dg) != 1:
                    bad("C05", i, "number of replies", 1, len(dg))
                    continue
                lp, ra, rp, d = dg[0]
                if (lp, ra, rp) != (x.ctrl, x.addr, sp):
                    bad("C05", i, "reply not sent from the control port to the sender's address", (x.ctrl, x.addr, sp), (lp, ra, rp))
                txt = d.decode("latin1")
                pre = "RSP %s " % e["verb"]
                if not txt.startswith(pre) or not txt.endswith("\0") or txt.count("\0") != 1:
                    bad("C05", i, "reply form", pre + "<status> ...\\0", txt)
                    continue
                f = txt[len(pre):-1].split(" ")
                want_args = e["args"]
                if f[1:1 + len(want_args)] != want_args:
                    bad("C05", i, "original arguments not echoed", want_args, f[1:])
                try:
                    st = int(f[0])
                except ValueError:
                    bad("C05", i, "status is not an integer", None, f[0])
                    continue
                if st != e["status"]:
                    # C18 speaks about the forms `FAKE_DROP n [period]` and `RFMUTE 0|1`; any other argument count of these
                    # verbs is a matter of C05 only
                    nargs = len(e["args"])
                    c18_form = (e["verb"] == "FAKE_DROP" and nargs in (1, 2)) or (e["verb"] == "RFMUTE" and nargs == 1)
                    p = ("C12", "C05") if e["verb"] in ("POWERON", "POWEROFF") else ("C18", "C05") if c18_form else "C05"
                    bad(p, i, "status", e["status"], st)
                results = f[1 + len(want_args):]
                if e["res"] is None:
                    if results:
                        bad("C05", i, "unexpected results", [], results)
                elif len(results) != 1 or not re.match(r"^-?[0-9]+$", results[0]):
                    bad("C05", i, "result missing", e["res"], results)
                else:
                    v = int(results[0])
                    if e["res"][0] == "exact" and v != e["res"][1]:
                        bad("C05", i, "result value", e["res"][1], v)
                    if e["res"][0] == "win" and not (e["res"][1] <= v <= e["res"][2]):
                        bad("C05", i, "MEASURE result outside the documented range", e["res"][1:], v)
            elif t[0] == "D":
                j = int(t[1])
                payload = bytes.fromhex(t[2]) if t[2] != "-" else b""
                stat("data:accepted" if ref.data(j, payload) else "data:not-accepted")
                if dg:
                    bad("C03", i, "datagram emitted on burst arrival", 0, len(dg))
            elif t[0] == "T":
                exp, est = ref.tick()
                stat("tick:running" if ref.clk_run else "tick:stopped")
                stat("tick:expected-ind", sum(1 for e in exp if e["kind"] == "ind"))
                stat("tick:expected-burst", sum(1 for e in exp if e["kind"] == "burst" and not e["nope"]))
                stat("tick:expected-nope", sum(1 for e in exp if e["kind"] == "burst" and e["nope"]))
                stat("tick:stale", est)
                _judge_tick(ref, i, exp, est, dg, stale, bad)
            elif t[0] == "J":
                ref.jump(int(t[1]))
                if dg:
                    bad("C03", i, "datagram without a tick", 0, len(dg))
        except NotClean as e:
            stat("not-clean:%s" % e)
            return result()  # the rest of the history is outside the reference
        if allout:
            return result()
    # final state (C12): running flags, clock
    try:
        st = parts[2].split(" # ")
        for k, x in enumerate(ref.t):
            f = st[k].split()
            if f[0] != "R%d" % int(x.running):
                bad("C12", len(ops), "running flag of transceiver %d at the end" % k, int(x.running), f[0])
            if not x.running and (f[3] != "N" and x.fh is None):
                bad("C12", len(ops), "hopping configuration kept after power-off (trx %d)" % k, "N", f[3])
            # C05, "documented effect": what the commands of the history did to the transceiver is what the documentation
            # of each command says (the reference applies exactly that); a group the harness could not read (`drop?`) is skipped
            fmt = lambda v: "N" if v is None else str(v)
            want = {"rx": fmt(x.rx), "tx": fmt(x.tx), "fh": "N" if x.fh is None else "%s/%s/%d" % (x.fh[0], x.fh[1], len(x.fh[2])),
                    "v": "v%d" % x.ver, "m": "m%d" % int(x.muted), "ta": "ta%s" % x.ta, "p": "p%s/%s" % (x.pwr_base, x.att),
                    "toa": "toa%s/%s" % (x.toa, x.toa_thr), "rssi": "rssi%s/%s/%d" % (x.rssi, x.rssi_thr, int(x.fake_rssi)),
                    "ci": "ci%s/%s" % (x.ci, x.ci_thr), "drop": "drop%s/%s" % (x.drop_n, x.drop_p)}
            got = {"rx": f[1], "tx": f[2], "fh": f[3], "v": f[4], "m": f[5], "ta": f[6], "p": f[7], "toa": f[8], "rssi": f[9],
                   "ci": f[10], "drop": f[11]}
            for key in ("rx", "tx", "fh", "v", "m", "ta", "p", "toa", "rssi", "ci", "drop"):
                if got[key].endswith("?"):
                    continue
                if got[key] != want[key]:
                    bad("C05", len(ops), "state of transceiver %d after the commands of the history (%s)" % (k, key), want[key], got[key])
            q = f[-1][1:]
            nq = 0 if q == "-" else len(q.split("/"))
            if nq != len(x.queue):
                bad("C03", len(ops), "queue length of transceiver %d at the end" % k, len(x.queue), nq)
        clk = st[len(ref.t)].split()
        if clk[0] != "clk%d" % int(ref.clk_run):
            bad("C12", len(ops), "clock generator running", int(ref.clk_run), clk[0])
        pp = parts[1].split(",")
        for k, x in enumerate(ref.t):
            want = "%d>%d/%d>%d/%s" % (x.ctrl, x.ctrl + 100, x.data, x.data + 100,
                                       "%d>%d" % (x.port, x.port + 100) if x.clock else "N")
            if pp[k] != want:
                bad("C12", len(ops), "port plan of transceiver %d" % k, want, pp[k])
    except (IndexError, ValueError):
        out.append({"prop": "harness", "what": "state dump not understood"})
    return result()


def _judge_tick(ref, i, exp, est, dg, stale, bad):
    if stale != est:
        bad("C03", i, "number of stale reports", est, stale)
    inds = [e for e in exp if e["kind"] == "ind"]
    got_inds = [d for d in dg if d[3].startswith(b"IND ")]
    want = sorted((e["lport"], e["raddr"], e["rport"], e["payload"]) for e in inds)
    if sorted(got_inds) != want:
        bad("C12", i, "clock indications", want, sorted(got_inds))
    bursts = [d for d in dg if not d[3].startswith(b"IND ")]
    exb = [e for e in exp if e["kind"] == "burst"]
    # C02 / C03 on the routing decisions themselves (one handle call per due burst and recipient)
    calls = sorted(CALLS_SEEN)
    want_calls = sorted(ref.last_calls)
    traced = ref.traced
    if traced and calls != want_calls:
        extra = [c for c in calls if c not in want_calls]
        missing = [c for c in want_calls if c not in calls]
        bad("C02", i, "routing decisions (dst, src, fn) differ from: running other transceivers whose Rx frequency in FN equals the sender's Tx frequency",
            {"missing": missing[:4], "unexpected": extra[:4]}, calls[:8])
        if missing:
            bad("C03", i, "due burst not put on the air towards a tuned running peer", missing[:4], calls[:8])
        if any(calls.count(c) > want_calls.count(c) >= 1 for c in set(calls)):
            bad("C03", i, "burst transmitted more than once / not in its frame", want_calls[:8], calls[:8])
    used = [False] * len(bursts)
    for e in exb:
        cand = [n for n, d in enumerate(bursts) if not used[n] and (d[0], d[1], d[2]) == (e["lport"], e["raddr"], e["rport"])
                and (parse_rx(d[3]) or {}).get("fn") == e["fn"] and (parse_rx(d[3]) or {}).get("tn") == e["tn"]]
        if not cand:
            if not e.get("optional"):
                att = [s_ for s_ in SENDS_SEEN if s_[0] == e["dst"] and s_[1] == e["fn"]]
                if e["nope"]:
                    p = "C18"
                elif not traced:
                    p = ("C02", "C10")
                elif att and not att[0][4] and att[0][2] is not None and att[0][3] is not None and \
                        not (-120 <= att[0][2] <= -47 and -32768 <= att[0][3] <= 32767):
                    p = "C10"     # the burst was routed and handed on, but with metadata outside the protocol ranges
                elif att and not att[0][4]:
                    p = ("C13", "C10")   # in-range message handed to the encoder but nothing emitted
                else:
                    p = ("C02", "C18")   # routed, but suppressed / never handed on although no drop or mute applies
                bad(p, i, "expected datagram missing (src trx %d -> dst trx %d)" % (e["src"], e["dst"]),
                    {k: e[k] for k in ("lport", "fn", "tn", "nope", "rssi", "toa")}, {"send_attempts": att[:2]})
            continue
        n = cand[0]
        if not e["nope"]:
            # pair by content first: an optional expectation (window straddling a protocol bound) may be
            # missing, and several bursts for the same (recipient, fn, tn) may be in flight
            same = [c for c in cand if (parse_rx(bursts[c][3]) or {}).get("soft") == e["soft"]]
            if same:
                # two senders may put identical bits on the air for the same (recipient, fn, tn) - e.g. two all-zero bursts:
                # the datagrams are then told apart by their metadata only, so take the one inside this expectation's windows
                def fits(c):
                    mm = parse_rx(bursts[c][3]) or {}
                    try:
                        return (mm.get("ver") == e["ver"] and not mm.get("nope") and e["rssi"][0] <= mm["rssi"] <= e["rssi"][1]
                                and e["toa"][0] <= mm["toa"] <= e["toa"][1]
                                and (e["ver"] == 0 or e["ci"][0] <= mm["ci"] <= e["ci"][1]))
                    except (KeyError, TypeError):
                        return False
                good = [c for c in same if fits(c)]
                if not good and e.get("optional") and len(cand) <= sum(1 for e2 in exb if (e2["lport"], e2["fn"], e2["tn"]) == (e["lport"], e["fn"], e["tn"])) - 1:
                    # an optional expectation (its window straddles a protocol bound, so the real code may legitimately have sent
                    # nothing) must not take the datagram of ANOTHER sender with identical bits: fewer datagrams than
                    # expectations for this (recipient, fn, tn) and none inside this window = this one was not sent
                    continue
                n = good[0] if good else same[0]
            elif e.get("optional"):
                continue
        used[n] = True
        m = parse_rx(bursts[n][3])
        d = bursts[n][3]
        if m["ver"] != e["ver"]:
            bad("C10", i, "header version", e["ver"], m["ver"])
            continue
        if e["nope"]:
            if not m.get("nope") or m.get("soft"):
                bad("C18", i, "suppressed burst must yield a NOPE indication without bits", "NOPE", m)
            elif (m["rssi"], m["toa"], m["ci"]) != (-110, 0, -30):
                bad("C18", i, "NOPE indication noise values", (-110, 0, -30), (m["rssi"], m["toa"], m["ci"]))
            continue
        if m.get("nope"):
            bad(("C18", "C02"), i, "burst suppressed (NOPE delivered) although no drop/mute applies", "burst", "NOPE")
            continue
        if m["soft"] != e["soft"]:
            bad("C10", i, "soft bits", "127/-127 per hard bit (%d)" % len(e["soft"]), "differs (%d)" % len(m["soft"] or []))
        if e["ver"] == 0 and m.get("pad") != b"\0\0":
            bad("C10", i, "version 0 must carry the two legacy padding octets", "0000", m.get("pad"))
        if not (e["rssi"][0] <= m["rssi"] <= e["rssi"][1]):
            bad("C10", i, "RSSI", e["rssi"], m["rssi"])
        if not (e["toa"][0] <= m["toa"] <= e["toa"][1]):
            bad("C10", i, "ToA256", e["toa"], m["toa"])
        if e["ver"] == 1:
            if not (e["ci"][0] <= m["ci"] <= e["ci"][1]):
                bad("C10", i, "C/I", e["ci"], m["ci"])
            modbits = m["mod"]
            if e["mod"] == 0:
                if modbits & 0b1100:
                    bad("C10", i, "modulation for a 148-bit burst", "GMSK", modbits)
                elif e["seqs"] and (m["tsc"], modbits & 3) not in e["seqs"]:
                    bad("C10", i, "TSC / TSC set of the training sequence present", e["seqs"], (m["tsc"], modbits & 3))
            elif (modbits & 0b1110) != 4:
                bad("C10", i, "modulation for a 444-bit burst", "8-PSK", modbits)
    for n, d in enumerate(bursts):
        if not used[n]:
            m = parse_rx(d[3]) or {}
            if traced:
                dst = [k for k, y in enumerate(ref.t) if (y.data, y.addr) == (d[0], d[1])]
                if dst and any(c[0] == dst[0] and c not in want_calls for c in calls):
                    continue     # consequence of a wrong routing decision, already reported under C02
            bad("C10" if traced else "C02", i, "datagram delivered that the routing decisions do not account for (or a duplicate)",
                None, {"lport": d[0], "fn": m.get("fn"), "tn": m.get("tn"), "nope": m.get("nope")})
