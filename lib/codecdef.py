# Definition language of the codec model (lean/OsmoVerif/Model/Codec.lean: FDef) on the Python side:
#   * an AST of plain dicts/tuples,
#   * `to_line`/`val_to_line`/`line_to_val`: the line encoding of lean/OsmoVerif/Driver/Codec.lean,
#   * `to_lean`: the same definition as a Lean term,
#   * `build_env`/`build_field`: the REAL codec.py objects for a definition (harness side),
#   * `introspect_env`: a live Envelope instance -> AST (translator side; lambdas are tabulated
#     and only accepted when the tabulation equals a first-order description).
#
# AST:
#   field := {'k':'int','name','pres','len','bo':'big'|'little','sign':bool,'offset':int,'mult':int}
#          | {'k':'buf','name','pres','ld'}
#          | {'k':'spare','name','pres','ld','filler':bytes}
#          | {'k':'bits','pres','len','little':bool,'fs':[('b',name,bl,val|None)|('s',bl)]}
#          | {'k':'env','name','pres','ld','cl':bool,'fs':[field]}
#          | {'k':'seq','name','pres','ld','fs':[field]}
#   pres  := ('a',) | ('t',name) | ('f',name)
#   ld    := ('x',n) | ('r',) | ('o',name) | ('T',name,[(key,len)]) | ('h',t,a,b)
#   env   := {'cl':bool,'fs':[field]}


def hx(b):
    return b.hex() if len(b) else "-"


def unhx(s):
    return b"" if s in ("-", "none") else bytes.fromhex(s)


# ---------------------------------------------------------------------------- line encoding

def pres_line(p):
    return list(p)


def ld_line(ld):
    if ld[0] == 'T':
        out = ['T', ld[1], str(len(ld[2]))]
        for k, v in ld[2]:
            out += [str(k), str(v)]
        return out
    return [str(x) for x in ld]


def field_line(f):
    k = f['k']
    if k == 'int':
        return ['I', f['name']] + pres_line(f['pres']) + [str(f['len']), 'B' if f['bo'] == 'big' else 'L',
                '1' if f['sign'] else '0', str(f['offset']), str(f['mult'])]
    if k == 'buf':
        return ['B', f['name']] + pres_line(f['pres']) + ld_line(f['ld'])
    if k == 'spare':
        return ['S', f['name']] + pres_line(f['pres']) + ld_line(f['ld']) + [hx(f['filler'])]
    if k == 'bits':
        out = ['F'] + pres_line(f['pres']) + [str(f['len']), 'L' if f['little'] else 'M', str(len(f['fs']))]
        for b in f['fs']:
            if b[0] == 'b':
                out += ['b', b[1], str(b[2]), '-' if b[3] is None else str(b[3])]
            else:
                out += ['s', str(b[1])]
        return out
    if k == 'env':
        out = ['V', f['name']] + pres_line(f['pres']) + ld_line(f['ld']) + ['1' if f['cl'] else '0', str(len(f['fs']))]
        for g in f['fs']:
            out += field_line(g)
        return out
    if k == 'seq':
        out = ['Q', f['name']] + pres_line(f['pres']) + ld_line(f['ld']) + [str(len(f['fs']))]
        for g in f['fs']:
            out += field_line(g)
        return out
    raise ValueError(k)


def env_line(e):
    out = ['E', '1' if e['cl'] else '0', str(len(e['fs']))]
    for g in e['fs']:
        out += field_line(g)
    return out


def to_line(e):
    return " ".join(env_line(e))


def val_tokens(v):
    if isinstance(v, bool):
        return ['i', str(int(v))]
    if isinstance(v, int):
        return ['i', str(v)]
    if isinstance(v, (bytes, bytearray)):
        return ['y', hx(bytes(v))]
    if isinstance(v, dict):
        out = ['d', str(len(v))]
        for k in sorted(v):
            out += [k] + val_tokens(v[k])
        return out
    if isinstance(v, (list, tuple)):
        out = ['l', str(len(v))]
        for x in v:
            out += val_tokens(x)
        return out
    raise TypeError("value outside int|bytes|dict|list: %r" % (v,))


def val_to_line(v):
    return " ".join(val_tokens(v))


def parse_val(tok, i=0):
    t = tok[i]
    if t == 'i':
        return int(tok[i + 1]), i + 2
    if t == 'y':
        return unhx(tok[i + 1]), i + 2
    if t == 'd':
        n = int(tok[i + 1]); i += 2
        d = {}
        for _ in range(n):
            k = tok[i]
            d[k], i = parse_val(tok, i + 1)
        return d, i
    if t == 'l':
        n = int(tok[i + 1]); i += 2
        xs = []
        for _ in range(n):
            x, i = parse_val(tok, i)
            xs.append(x)
        return xs, i
    raise ValueError("bad value token %r" % t)


def line_to_val(s):
    v, i = parse_val(s.split())
    return v


def parse_pres(tok, i):
    if tok[i] == 'a':
        return ('a',), i + 1
    return (tok[i], tok[i + 1]), i + 2


def parse_ld(tok, i):
    t = tok[i]
    if t == 'x':
        return ('x', int(tok[i + 1])), i + 2
    if t == 'r':
        return ('r',), i + 1
    if t == 'o':
        return ('o', tok[i + 1]), i + 2
    if t == 'T':
        name, k = tok[i + 1], int(tok[i + 2]); i += 3
        tbl = []
        for _ in range(k):
            tbl.append((int(tok[i]), int(tok[i + 1]))); i += 2
        return ('T', name, tbl), i
    if t == 'h':
        return ('h', int(tok[i + 1]), int(tok[i + 2]), int(tok[i + 3])), i + 4
    raise ValueError("bad len token %r" % t)


def parse_field(tok, i):
    t = tok[i]
    if t == 'I':
        name = tok[i + 1]
        pres, i = parse_pres(tok, i + 2)
        f = {'k': 'int', 'name': name, 'pres': pres, 'len': int(tok[i]), 'bo': 'big' if tok[i + 1] == 'B' else 'little',
             'sign': tok[i + 2] == '1', 'offset': int(tok[i + 3]), 'mult': int(tok[i + 4])}
        return f, i + 5
    if t == 'B':
        name = tok[i + 1]
        pres, i = parse_pres(tok, i + 2)
        ld, i = parse_ld(tok, i)
        return {'k': 'buf', 'name': name, 'pres': pres, 'ld': ld}, i
    if t == 'S':
        name = tok[i + 1]
        pres, i = parse_pres(tok, i + 2)
        ld, i = parse_ld(tok, i)
        return {'k': 'spare', 'name': name, 'pres': pres, 'ld': ld, 'filler': unhx(tok[i])}, i + 1
    if t == 'F':
        pres, i = parse_pres(tok, i + 1)
        ln, little, n = int(tok[i]), tok[i + 1] == 'L', int(tok[i + 2]); i += 3
        fs = []
        for _ in range(n):
            if tok[i] == 'b':
                fs.append(('b', tok[i + 1], int(tok[i + 2]), None if tok[i + 3] == '-' else int(tok[i + 3]))); i += 4
            else:
                fs.append(('s', int(tok[i + 1]))); i += 2
        return {'k': 'bits', 'pres': pres, 'len': ln, 'little': little, 'fs': fs}, i
    if t in ('V', 'Q'):
        name = tok[i + 1]
        pres, i = parse_pres(tok, i + 2)
        ld, i = parse_ld(tok, i)
        cl = None
        if t == 'V':
            cl = tok[i] == '1'; i += 1
        n = int(tok[i]); i += 1
        fs = []
        for _ in range(n):
            g, i = parse_field(tok, i)
            fs.append(g)
        if t == 'V':
            return {'k': 'env', 'name': name, 'pres': pres, 'ld': ld, 'cl': cl, 'fs': fs}, i
        return {'k': 'seq', 'name': name, 'pres': pres, 'ld': ld, 'fs': fs}, i
    raise ValueError("bad field token %r" % t)


def parse_env(tok, i=0):
    assert tok[i] == 'E'
    cl, n = tok[i + 1] == '1', int(tok[i + 2]); i += 3
    fs = []
    for _ in range(n):
        g, i = parse_field(tok, i)
        fs.append(g)
    return {'cl': cl, 'fs': fs}, i


# ---------------------------------------------------------------------------- Lean terms

def lstr(s):
    return '"' + s.replace("\\", "\\\\").replace('"', '\\"') + '"'


def lint(x):
    return str(x) if x >= 0 else "(%d)" % x


def lbool(b):
    return "true" if b else "false"


def pres_lean(p):
    return {'a': ".always", 't': "(.flagTrue %s)", 'f': "(.flagFalse %s)"}[p[0]] % (() if p[0] == 'a' else (lstr(p[1]),))


def ld_lean(ld):
    t = ld[0]
    if t == 'x':
        return "(.fixed %d)" % ld[1]
    if t == 'r':
        return ".rest"
    if t == 'o':
        return "(.ofField %s)" % lstr(ld[1])
    if t == 'T':
        return "(.table %s [%s])" % (lstr(ld[1]), ", ".join("(%s, %d)" % (lint(k), v) for k, v in ld[2]))
    if t == 'h':
        return "(.thresh %d %d %d)" % (ld[1], ld[2], ld[3])
    raise ValueError(t)


def bitf_lean(b):
    if b[0] == 'b':
        return "⟨some %s, %d, %s⟩" % (lstr(b[1]), b[2], "none" if b[3] is None else "some %s" % lint(b[3]))
    return "⟨none, %d, none⟩" % b[1]


def field_lean(f, ind="  "):
    k = f['k']
    if k == 'int':
        return ".int %s %s %d %s %s %s %s" % (lstr(f['name']), pres_lean(f['pres']), f['len'],
                                              ".big" if f['bo'] == 'big' else ".little", lbool(f['sign']),
                                              lint(f['offset']), lint(f['mult']))
    if k == 'buf':
        return ".buf %s %s %s" % (lstr(f['name']), pres_lean(f['pres']), ld_lean(f['ld']))
    if k == 'spare':
        return ".spare %s %s %s [%s]" % (lstr(f['name']), pres_lean(f['pres']), ld_lean(f['ld']),
                                         ", ".join(str(x) for x in f['filler']))
    if k == 'bits':
        return ".bits %s %d %s [%s]" % (pres_lean(f['pres']), f['len'], lbool(f['little']),
                                        ", ".join(bitf_lean(b) for b in f['fs']))
    if k == 'env':
        return ".env %s %s %s %s %s" % (lstr(f['name']), pres_lean(f['pres']), ld_lean(f['ld']), lbool(f['cl']),
                                        fields_lean(f['fs'], ind + "  "))
    if k == 'seq':
        return ".seq %s %s %s %s" % (lstr(f['name']), pres_lean(f['pres']), ld_lean(f['ld']),
                                     fields_lean(f['fs'], ind + "  "))
    raise ValueError(k)


def fields_lean(fs, ind="  "):
    if not fs:
        return "[]"
    return "[\n" + ",\n".join(ind + "  " + field_lean(g, ind + "  ") for g in fs) + "]"


def env_lean(e):
    return "⟨%s, %s⟩" % (lbool(e['cl']), fields_lean(e['fs']))


# ---------------------------------------------------------------------------- real objects

_INT_CLASSES = {}


def int_class(codec, ln, bo, sign):
    """the repo's own class when one exists for (len, byte order, sign), else a subclass that only
    sets the class attributes BO/SIGN the way Uint16LE/Int do"""
    named = {(1, 'big', False): 'Uint', (1, 'big', True): 'Int',
             (2, 'big', False): 'Uint16BE', (2, 'little', False): 'Uint16LE',
             (4, 'big', False): 'Uint32BE', (4, 'little', False): 'Uint32LE',
             (2, 'big', True): 'Int16BE', (2, 'little', True): 'Int16LE',
             (4, 'big', True): 'Int32BE', (4, 'little', True): 'Int32LE'}
    key = (ln, bo, sign)
    if key in named:
        return getattr(codec, named[key]), True
    k2 = (bo, sign)
    if k2 not in _INT_CLASSES:
        base = codec.Int if sign else codec.Uint
        _INT_CLASSES[k2] = type("X%s%s" % ("Int" if sign else "Uint", bo), (base,), {'BO': bo})
    return _INT_CLASSES[k2], False


def set_pres(obj, pres):
    if pres[0] == 't':
        n = pres[1]
        obj.get_pres = lambda v: bool(v[n])
    elif pres[0] == 'f':
        n = pres[1]
        obj.get_pres = lambda v: not v[n]


def _table_fn(tbl):
    d = dict(tbl)

    def f(x):
        if x in d:
            return d[x]
        raise ValueError('Unknown code')
    return f


def ld_kw(ld):
    return {'len': ld[1]} if ld[0] == 'x' else {}


def set_len(obj, ld):
    t = ld[0]
    if t == 'o':
        n = ld[1]
        obj.get_len = lambda v, _: v[n]
    elif t == 'T':
        n, fn = ld[1], _table_fn(ld[2])
        obj.get_len = lambda v, _: fn(v[n])
    elif t == 'h':
        th, a, b = ld[1], ld[2], ld[3]
        obj.get_len = lambda _, data: a if len(data) > th else b


_SETNO = [0]


def build_field(codec, f):
    k = f['k']
    if k == 'int':
        cls, named = int_class(codec, f['len'], f['bo'], f['sign'])
        kw = {} if named else {'len': f['len']}
        if f['offset'] != 0:
            kw['offset'] = f['offset']
        if f['mult'] != 1:
            kw['mult'] = f['mult']
        o = cls(f['name'], **kw)
    elif k == 'buf':
        o = codec.Buf(f['name'], **ld_kw(f['ld']))
        set_len(o, f['ld'])
    elif k == 'spare':
        o = codec.Spare(f['name'], filler=f['filler'], **ld_kw(f['ld']))
        set_len(o, f['ld'])
    elif k == 'bits':
        fs = tuple(codec.BitField(b[1], bl=b[2], **({} if b[3] is None else {'val': b[3]})) if b[0] == 'b'
                   else codec.BitField.Spare(bl=b[1]) for b in f['fs'])
        kw = {'set': fs}
        if f['len']:
            kw['len'] = f['len']
        if f['little']:
            kw['order'] = 'little'
        # a BitFieldSet is named after its class (codec.py): the real definitions use one subclass per set, so every set of
        # a built definition gets a class of its own too (same behaviour, distinct name)
        _SETNO[0] += 1
        o = type("BitFieldSet%d" % _SETNO[0], (codec.BitFieldSet,), {})(**kw)
    elif k == 'env':
        e = build_env(codec, {'cl': f['cl'], 'fs': f['fs']})
        o = e.f(f['name'], **ld_kw(f['ld']))
        set_len(o, f['ld'])
    elif k == 'seq':
        item = build_env(codec, {'cl': True, 'fs': f['fs']})
        o = codec.Sequence(item=item).f(f['name'], **ld_kw(f['ld']))
        set_len(o, f['ld'])
    else:
        raise ValueError(k)
    set_pres(o, f['pres'])
    return o


def build_env(codec, e):
    fs = tuple(build_field(codec, g) for g in e['fs'])
    cls = type("GenEnvelope", (codec.Envelope,), {'STRUCT': fs})
    return cls(check_len=e['cl'])


# ---------------------------------------------------------------------------- introspection

class TranslatorError(Exception):
    pass


class _Rec(dict):
    """dict that records which keys a lambda reads"""

    def __init__(self, *a):
        dict.__init__(self, *a)
        self.read = []

    def __getitem__(self, k):
        self.read.append(k)
        return dict.__getitem__(self, k)


FLAG_DOMAIN = [0, 1, 2, 3, 15, -1]
KEY_DOMAIN = list(range(-2, 40)) + [63, 64, 127, 128, 255, 256, 1023, 65535]
LEN_DOMAIN = range(0, 2049)


def _keys_read(fn, nargs):
    r = _Rec()
    try:
        fn(r) if nargs == 1 else fn(r, b'')
        return None
    except KeyError as e:
        return e.args[0]


def introspect_pres(f):
    key = _keys_read(f.get_pres, 1)
    if key is None:
        for probe in ({}, {'x': 1}):
            if f.get_pres(_Rec(probe)) is not True:
                raise TranslatorError("get_pres of %r: constant but not True" % f.name)
        return ('a',)
    tab = []
    for x in FLAG_DOMAIN:
        r = _Rec({key: x})
        res = f.get_pres(r)
        if set(r.read) != {key}:
            raise TranslatorError("get_pres of %r reads %r" % (f.name, r.read))
        tab.append(res)
    if all(t is bool(x) for t, x in zip(tab, FLAG_DOMAIN)):
        return ('t', key)
    if all(t is (not x) for t, x in zip(tab, FLAG_DOMAIN)):
        return ('f', key)
    raise TranslatorError("get_pres of %r is not a first-order flag test: %r" % (f.name, tab))


def introspect_len(f):
    key = _keys_read(f.get_len, 2)
    if key is None:
        tab = [f.get_len(_Rec(), bytes(n)) for n in LEN_DOMAIN]
        if f.len > 0 and all(t == f.len for t in tab):
            return ('x', f.len)
        if f.len == 0 and all(t == n for t, n in zip(tab, LEN_DOMAIN)):
            return ('r',)
        if f.len == 0:
            # threshold rule: a if len(data) > t else b
            changes = [n for n in LEN_DOMAIN if n > 0 and tab[n] != tab[n - 1]]
            if len(changes) == 1:
                t = changes[0] - 1
                a, b = tab[t + 1], tab[t]
                if all(tab[n] == (a if n > t else b) for n in LEN_DOMAIN):
                    return ('h', t, a, b)
        raise TranslatorError("get_len of %r is not fixed/rest/threshold over 0..2048" % f.name)
    if f.len != 0:
        raise TranslatorError("get_len of %r overridden on a fixed-length field" % f.name)
    tab = {}
    for x in KEY_DOMAIN:
        res = set()
        for n in (0, 1, 148, 2048):
            r = _Rec({key: x})
            try:
                res.add(f.get_len(r, bytes(n)))
            except ValueError:
                res.add(None)
            if set(r.read) != {key}:
                raise TranslatorError("get_len of %r reads %r" % (f.name, r.read))
        if len(res) != 1:
            raise TranslatorError("get_len of %r depends on both %r and len(data)" % (f.name, key))
        tab[x] = res.pop()
    if all(tab[x] == x for x in KEY_DOMAIN):
        return ('o', key)
    tbl = [(x, tab[x]) for x in KEY_DOMAIN if tab[x] is not None]
    if any(x < 0 or x > 15 for x, _ in tbl) or any((not isinstance(v, int)) or v < 0 for _, v in tbl):
        raise TranslatorError("get_len of %r: table on %r not confined to 0..15: %r" % (f.name, key, tbl))
    return ('T', key, tbl)


def introspect_field(codec, f):
    cls = type(f)

    def same(meth, base):
        return getattr(cls, meth) is getattr(base, meth)

    if not (same('from_bytes', codec.Field) and same('to_bytes', codec.Field)):
        raise TranslatorError("%s overrides Field.from_bytes/to_bytes" % cls.__name__)
    pres = introspect_pres(f)
    if isinstance(f, codec.BitFieldSet):
        if not (same('_from_bytes', codec.BitFieldSet) and same('_to_bytes', codec.BitFieldSet)):
            raise TranslatorError("%s overrides BitFieldSet coding" % cls.__name__)
        little = f.p['order'] in ('little', 'lsb')
        fields = list(f._fields)[::-1] if little else list(f._fields)
        fs = []
        for b in fields:
            if isinstance(b, codec.BitField.Spare):
                fs.append(('s', b.bl))
            elif type(b) is codec.BitField:
                fs.append(('b', b.name, b.bl, b.val))
            else:
                raise TranslatorError("unknown bit-field class %s" % type(b).__name__)
        if f.get_len(_Rec(), b'') != f.len or f.get_len(_Rec(), bytes(99)) != f.len:
            raise TranslatorError("BitFieldSet get_len overridden")
        live = [(b.offset, b.mask) for b in f._fields]
        return {'k': 'bits', 'pres': pres, 'len': f.len, 'little': little, 'fs': fs, 'live': live}
    if isinstance(f, codec.Uint):
        if not (same('_from_bytes', codec.Uint) and same('_to_bytes', codec.Uint)):
            raise TranslatorError("%s overrides Uint coding" % cls.__name__)
        ld = introspect_len(f)
        if ld != (('x', f.len) if f.len else ('r',)):
            raise TranslatorError("integer field %r with a length callback" % f.name)
        return {'k': 'int', 'name': f.name, 'pres': pres, 'len': f.len, 'bo': f.BO, 'sign': bool(f.SIGN),
                'offset': f.p['offset'], 'mult': f.p['mult']}
    if isinstance(f, codec.Spare):
        if not (same('_from_bytes', codec.Spare) and same('_to_bytes', codec.Spare)):
            raise TranslatorError("%s overrides Spare coding" % cls.__name__)
        return {'k': 'spare', 'name': f.name, 'pres': pres, 'ld': introspect_len(f), 'filler': bytes(f.p['filler'])}
    if isinstance(f, codec.Buf):
        if not (same('_from_bytes', codec.Buf) and same('_to_bytes', codec.Buf)):
            raise TranslatorError("%s overrides Buf coding" % cls.__name__)
        return {'k': 'buf', 'name': f.name, 'pres': pres, 'ld': introspect_len(f)}
    if isinstance(f, codec.Envelope.F):
        e = introspect_env(codec, f.e)
        return {'k': 'env', 'name': f.name, 'pres': pres, 'ld': introspect_len(f), 'cl': e['cl'], 'fs': e['fs']}
    if isinstance(f, codec.Sequence.F):
        if type(f.s).from_bytes is not codec.Sequence.from_bytes or type(f.s).to_bytes is not codec.Sequence.to_bytes:
            raise TranslatorError("Sequence subclass overrides coding")
        if f.s._item.check_len is not False:
            raise TranslatorError("Sequence item with check_len set")
        e = introspect_env(codec, f.s._item)
        return {'k': 'seq', 'name': f.name, 'pres': pres, 'ld': introspect_len(f), 'fs': e['fs']}
    raise TranslatorError("unknown field class %s" % cls.__name__)


def introspect_env(codec, e):
    cls = type(e)
    for meth in ('_from_bytes', '_to_bytes', 'from_bytes', 'to_bytes', 'check'):
        if getattr(cls, meth) is not getattr(codec.Envelope, meth):
            raise TranslatorError("%s overrides Envelope.%s" % (cls.__name__, meth))
    return {'cl': bool(e.check_len), 'fs': [introspect_field(codec, f) for f in e.STRUCT]}
