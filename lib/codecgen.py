# Random protocol definitions in the definition language of lib/codecdef.py and values for them.
#
# gen_env(rng, depth)      -> a WELL-FORMED definition (the WF predicate of Props/C16.lean):
#     unique stored names per envelope, flags/length references only to earlier unconditional
#     fields of non-negative type, `rest` only in last position, sequence items start with an
#     unconditional fixed-size field (>= 1 octet), spares with a one-octet filler and a length
#     that does not depend on the buffer, nested envelopes with check_len, mult != 0 ...
# gen_value(rng, env)      -> an IN-RANGE value dict for it (InRange of Props/C16.lean) built
#     together with its expected length (lengths are declared by the definition).
# All randomness comes from the rng passed in.

INT_EDGE = [0, 1, -1]


class Ctx:
    """per-envelope bookkeeping while generating a definition"""

    def __init__(self, prefix):
        self.prefix = prefix
        self.n = 0
        self.flags = []      # names of earlier 1-bit (or 0/1-valued) unconditional fields usable as flags
        self.lens = []       # names of earlier unconditional small unsigned ints usable as lengths (not yet used)
        self.lens2 = []      # 2-octet unsigned ints usable as lengths of nested envelopes/sequences
        self.codes = []      # (name, bl) of earlier unconditional bit-fields usable as table keys
        self.constraint = {}  # name -> ('len',) | ('choice', [..]) | ('flag',)

    def name(self, stem="f"):
        self.n += 1
        return "%s%s%d" % (self.prefix, stem, self.n)


def rand_int_params(rng):
    ln = rng.choice([1, 1, 2, 2, 3, 4, 4, 5, 6, 7, 8])
    bo = rng.choice(['big', 'little'])
    sign = rng.random() < 0.4
    offset = rng.choice([0, 0, 0, 5, -5, 1, -1, 1000, -70000, 255, 256])
    mult = rng.choice([1, 1, 1, -1, 2, -2, 3, -3, 7, 10, -128, 256])
    return ln, bo, sign, offset, mult


def gen_bits(rng, ctx, pres):
    octets = rng.choice([1, 1, 2, 2, 3, 4])
    total = octets * 8
    explicit = rng.random() < 0.4
    used = total if rng.random() < 0.6 else total - rng.randrange(1, 8)
    parts, left = [], used
    while left > 0:
        bl = min(left, rng.choice([1, 1, 1, 2, 3, 4, 4, 5, 6, 7, 8, 9, 12, 13, 16]))
        parts.append(bl)
        left -= bl
    fs = []
    for bl in parts:
        r = rng.random()
        if r < 0.15:
            fs.append(('s', bl))
        else:
            nm = ctx.name("b")
            val = rng.randrange(0, 1 << bl) if r < 0.3 else None
            fs.append(('b', nm, bl, val))
            if val is None and pres == ('a',):
                if bl == 1:
                    ctx.flags.append(nm)
                if bl <= 4:
                    ctx.codes.append((nm, bl))
                if 3 <= bl <= 4:
                    ctx.lens.append(nm)
    ln = 0
    if explicit:
        ln = (used + 7) // 8 + rng.choice([0, 0, 1])
    return {'k': 'bits', 'pres': pres, 'len': ln, 'little': rng.random() < 0.5, 'fs': fs}


def static_size(fs):
    """encoded size of a field list when it does not depend on the values, else None"""
    tot = 0
    for f in fs:
        if f['pres'] != ('a',):
            return None
        k = f['k']
        if k == 'int':
            if f['len'] == 0:
                return None
            tot += f['len']
        elif k == 'bits':
            tot += bits_len(f)
        else:
            if f['ld'][0] != 'x' or f['ld'][1] == 0:
                return None
            tot += f['ld'][1]
    return tot


def bits_len(f):
    if f['len']:
        return f['len']
    s = sum(b[2] if b[0] == 'b' else b[1] for b in f['fs'])
    return (s + 7) // 8


def pick_pres(rng, ctx, allow=True):
    if allow and ctx.flags and rng.random() < 0.3:
        n = rng.choice(ctx.flags)
        ctx.constraint.setdefault(n, ('flag',))
        return (rng.choice(['t', 'f']), n)
    return ('a',)


def pick_ld_buf(rng, ctx, last, in_item):
    r = rng.random()
    if last and not in_item and r < 0.3:
        return ('r',)
    if r < 0.5 and ctx.lens:
        n = ctx.lens.pop(rng.randrange(len(ctx.lens)))
        ctx.constraint[n] = ('len',)
        return ('o', n)
    if r < 0.65 and ctx.codes:
        free = [(n, bl) for n, bl in ctx.codes if n not in ctx.constraint]
        if free:
            n, bl = rng.choice(free)
            keys = sorted(rng.sample(range(1 << bl), rng.randrange(1, (1 << bl) + 1)))
            tbl = [(k, rng.randrange(0, 9)) for k in keys]
            ctx.constraint[n] = ('choice', keys)
            if n in ctx.lens:
                ctx.lens.remove(n)
            return ('T', n, tbl)
    if r < 0.75:
        t = rng.randrange(0, 12)
        a = t + rng.randrange(1, 6)
        b = rng.randrange(0, t + 1)
        return ('h', t, a, b)
    return ('x', rng.randrange(1, 9))


def gen_fields(rng, depth, prefix, in_item=False, maxn=5):
    ctx = Ctx(prefix)
    n = rng.randrange(1, maxn + 1)
    fs = []
    for idx in range(n):
        last = idx == n - 1
        first = idx == 0
        r = rng.random()
        # a sequence item must consume >= 1 octet: unconditional fixed-size first field
        if in_item and first:
            if r < 0.5:
                fs.append(gen_int(rng, ctx, ('a',)))
            else:
                fs.append(gen_bits(rng, ctx, ('a',)))
            continue
        pres = pick_pres(rng, ctx)
        if r < 0.28:
            fs.append(gen_int(rng, ctx, pres))
        elif r < 0.48:
            fs.append(gen_bits(rng, ctx, pres))
        elif r < 0.68:
            fs.append({'k': 'buf', 'name': ctx.name(), 'pres': pres, 'ld': pick_ld_buf(rng, ctx, last, in_item),
                       'only_a': in_item or not last})
        elif r < 0.76:
            ld = pick_ld_buf(rng, ctx, False, True)
            if ld[0] in ('r', 'h'):
                ld = ('x', rng.randrange(1, 5))
            fs.append({'k': 'spare', 'name': ctx.name("sp"), 'pres': pres, 'ld': ld,
                       'filler': bytes([rng.choice([0, 0, 0xff, 0x2b, rng.randrange(256)])])})
        elif depth < 3 and r < 0.89:
            sub = gen_fields(rng, depth + 1, prefix + "e", False, maxn=4)
            ld = nested_ld(rng, ctx, last and not in_item, static_size(sub), 1)
            if ld is None:
                fs.append(gen_int(rng, ctx, pres))
            else:
                fs.append({'k': 'env', 'name': ctx.name("env"), 'pres': pres, 'ld': ld, 'cl': True, 'fs': sub})
        elif depth < 3:
            sub = gen_fields(rng, depth + 1, prefix + "q", True, maxn=4)
            ss = static_size(sub)
            k = rng.randrange(0, 6)
            ld = nested_ld(rng, ctx, last and not in_item, ss, k)
            if ld is None:
                fs.append(gen_int(rng, ctx, pres))
            else:
                f = {'k': 'seq', 'name': ctx.name("seq"), 'pres': pres, 'ld': ld, 'fs': sub}
                if ld[0] == 'x':
                    f['count'] = k
                fs.append(f)
        else:
            fs.append(gen_int(rng, ctx, pres))
    # attach the value constraints to the fields they concern (generation-side annotation only)
    for f in fs:
        f['_c'] = ctx.constraint
    return fs


def nested_ld(rng, ctx, last_ok, ssize, k):
    r = rng.random()
    if ssize is not None and ssize * k > 0 and r < 0.4:
        return ('x', ssize * k)
    if ctx.lens2 and r < 0.8:
        n = ctx.lens2.pop(rng.randrange(len(ctx.lens2)))
        ctx.constraint[n] = ('patch',)
        return ('o', n)
    if last_ok:
        return ('r',)
    return None


def gen_int(rng, ctx, pres):
    ln, bo, sign, offset, mult = rand_int_params(rng)
    nm = ctx.name()
    r = rng.random()
    if pres == ('a',) and r < 0.25:
        # plain small unsigned: usable as a length / flag
        ln, sign, offset, mult = 1, False, 0, 1
        ctx.lens.append(nm)
        if rng.random() < 0.3:
            ctx.flags.append(nm)
    elif pres == ('a',) and r < 0.4:
        ln, sign, offset, mult = 2, False, 0, 1
        ctx.lens2.append(nm)
    return {'k': 'int', 'name': nm, 'pres': pres, 'len': ln, 'bo': bo, 'sign': sign, 'offset': offset, 'mult': mult}


def gen_env(rng, depth=0):
    return {'cl': rng.random() < 0.7, 'fs': gen_fields(rng, depth + 1, "")}


def strip(e):
    """remove the generation-side annotations (returns a clean AST)"""
    out = []
    for f in e['fs']:
        g = {k: v for k, v in f.items() if k not in ('_c', 'count', 'fs', 'only_a')}
        if 'fs' in f:
            g['fs'] = f['fs'] if f['k'] == 'bits' else strip({'fs': f['fs']})['fs']
        out.append(g)
    r = dict(e)
    r['fs'] = out
    return r


# ---------------------------------------------------------------------------- values

def int_range(f):
    n = f['len']
    if f['sign']:
        return -(1 << (8 * n - 1)), (1 << (8 * n - 1)) - 1
    return 0, (1 << (8 * n)) - 1


def edge_pick(rng, lo, hi):
    r = rng.random()
    if r < 0.5:
        c = [lo, lo + 1, hi - 1, hi, (lo + hi) // 2, 0, 1, -1, 127, 128, 255, 256]
        c = [x for x in c if lo <= x <= hi]
        return rng.choice(c)
    return rng.randrange(lo, hi + 1)


def present(pres, vals):
    if pres[0] == 'a':
        return True
    v = vals[pres[1]]
    return bool(v) if pres[0] == 't' else not v


def rand_bytes(rng, n):
    return bytes(rng.randrange(256) for _ in range(n))


def gen_fields_value(rng, fs, top_tail=0):
    """-> (vals, encoded length).  Fields are visited in order; a length reference to an earlier
    2-octet field is back-patched after the nested content is known."""
    vals, total = {}, 0
    cons = fs[0].get('_c', {}) if fs else {}
    for f in fs:
        k = f['k']
        if k == 'bits':
            if not present(f['pres'], vals):
                continue
            for b in f['fs']:
                if b[0] != 'b':
                    continue
                nm, bl, val = b[1], b[2], b[3]
                if val is not None:
                    vals[nm] = val
                    continue
                c = cons.get(nm)
                if c and c[0] == 'choice':
                    vals[nm] = rng.choice(c[1])
                elif c and c[0] == 'len':
                    vals[nm] = rng.randrange(0, min(1 << bl, 9))
                else:
                    vals[nm] = edge_pick(rng, 0, (1 << bl) - 1)
            total += bits_len(f)
            continue
        if not present(f['pres'], vals):
            continue
        nm = f['name']
        if k == 'int':
            c = cons.get(nm)
            lo, hi = int_range(f)
            if c and c[0] == 'len':
                raw = rng.randrange(0, 9)
            elif c and c[0] == 'flag':
                raw = rng.choice([0, 1, 1, 2, 255])
            elif c and c[0] == 'patch':
                raw = 0
            else:
                raw = edge_pick(rng, lo, hi)
            vals[nm] = raw * f['mult'] + f['offset']
            total += f['len']
        elif k == 'buf':
            ld = f['ld']
            if ld[0] == 'x':
                L = ld[1]
            elif ld[0] == 'r':
                L = rng.randrange(0, 9)
            elif ld[0] == 'o':
                L = vals[ld[1]]
            elif ld[0] == 'T':
                L = dict(ld[2])[vals[ld[1]]]
            else:  # threshold: a > t always consistent; b only in last position (nothing follows)
                t, a, b = ld[1], ld[2], ld[3]
                L = b if (not f.get('only_a', True) and rng.random() < 0.5) else a
            vals[nm] = rand_bytes(rng, L)
            total += L
        elif k == 'spare':
            ld = f['ld']
            L = ld[1] if ld[0] == 'x' else vals[ld[1]] if ld[0] == 'o' else dict(ld[2])[vals[ld[1]]]
            total += L
        elif k == 'env':
            inner, L = gen_fields_value(rng, f['fs'])
            vals[nm] = inner
            if f['ld'][0] == 'o':
                vals[f['ld'][1]] = L
            total += L
        elif k == 'seq':
            cnt = f.get('count')
            if cnt is None:
                cnt = rng.randrange(0, 6)
            items, L = [], 0
            for _ in range(cnt):
                iv, il = gen_fields_value(rng, f['fs'])
                items.append(iv)
                L += il
            vals[nm] = items
            if f['ld'][0] == 'o':
                vals[f['ld'][1]] = L
            total += L
    return vals, total


def gen_value(rng, e):
    return gen_fields_value(rng, e['fs'])
