# Generator of fake_trx world histories (one line of the `world.run` protocol each).
# All choices come from the rng passed in.  A light shadow (clock guess, per-transceiver
# header version / power guesses) keeps most traffic relevant; it never has to be exact.
H = 2715648

INT_EDGE = [0, 1, -1, 2, 7, 8, 63, 64, 127, 128, 255, 256, 1000, 32767, 32768, -32768, -32769,
            65535, 900000, 945000, 1800000, 2715647, 2715648, 4294967295, 4294967296, -120, -47, 1280, -1280]
BAD_INT = ["x", "", "1.5", "0x10", "1e3", "--1", "+", "-", "1_0", "_1", "1_", " 5", "5\t", "٥", "1\x1c",
           " 5", "9" * 30, "-" + "9" * 25, "+7", "007", "1__0"]
VERBS = [("POWERON", 0), ("POWEROFF", 0), ("RXTUNE", 1), ("TXTUNE", 1), ("MEASURE", 1), ("SETFH", -1),
         ("SETFORMAT", 1), ("SETPOWER", 1), ("NOMTXPOWER", 0), ("RFMUTE", 1), ("SETTA", 1),
         ("FAKE_TOA", 2), ("FAKE_TOA", 1), ("FAKE_RSSI", 2), ("FAKE_RSSI", 1), ("FAKE_CI", 2), ("FAKE_CI", 1),
         ("FAKE_DROP", 1), ("FAKE_DROP", 2), ("FAKE_TRXC_DELAY", 1), ("SETSLOT", 2), ("ECHO", 0),
         ("SETTSC", 1), ("SETBSIC", 1), ("NOHANDOVER", 2), ("FOO", 0)]
FREQS = [900000, 945000, 890200, 935200, 1800000]


def hx(b):
    return bytes(b).hex() if len(b) else "-"


class Gen:
    def __init__(self, rng, train_seqs=None, clean=False):
        self.r = rng
        self.train = train_seqs or []
        # clean: only well-formed commands / bursts inside the properties' quantifiers
        self.clean = clean

    # ---- configuration ---------------------------------------------------
    def config(self, max_extra=4):
        r = self.r
        extra = []
        n = r.choice([0, 0, 1, 2, 3, max_extra])
        parents = [("a", 5700), ("b", 6700)]
        used = {("a", 5700, 0), ("b", 6700, 0)}
        for _ in range(n):
            k = r.random()
            if k < 0.6:
                a, p = r.choice(parents)
                # mostly the first children; now and then a child index with two digits (the --trx syntax ADDR:PORT/IDX)
                idx = r.randint(1, 3) if r.random() < 0.8 else r.choice([9, 10, 11, 12, 20, 21, 30, 33, r.randint(4, 45)])
            elif k < 0.9:
                a, p = r.choice(["a", "b", "c"]), r.choice([7700, 8700, 5700, 6700])
                idx = 0
            else:
                a, p, idx = "c", 9700, r.randint(1, 2)   # child without parent -> cfgerr
            if (a, p, idx) in used and r.random() < 0.9:
                continue
            used.add((a, p, idx))
            if idx == 0:
                parents.append((a, p))
            extra.append("%s:%d/%d" % (a, p, idx))
        return extra

    def n_trx(self, extra):
        return 2 + len(extra)

    # ---- control ------------------------------------------------------------
    def int_arg(self, kind=None):
        r = self.r
        k = r.random()
        if k < 0.08 and not self.clean:
            return r.choice(BAD_INT)
        if kind == "freq" and k < 0.8:
            return str(r.choice(FREQS))
        if kind == "small" and k < 0.8:
            return str(r.choice([0, 1, 2, 3, 5, 10, 51, 102, -1, 15, 16]))
        if k < 0.5:
            return str(r.choice(INT_EDGE))
        return str(r.randint(-2000, 70000))

    def cmd_text(self, verb=None, argc=None):
        r = self.r
        if verb is None:
            verb, argc = r.choice(VERBS)
        if verb == "SETFH":
            n = r.choice([0, 1, 2, 3, 4, 5, 6, 8, 16, 17, 64, 128, 130])
            hsn = str(r.choice([0, 0, 1, 5, 63, 64, -1, 200])) if r.random() < 0.9 else self.int_arg()
            args = [hsn, self.int_arg("small")] + \
                   [str(r.choice(FREQS) + 200 * (i // 2)) if r.random() < 0.97 else self.int_arg() for i in range(n)]
        else:
            if r.random() < 0.12:
                argc = max(0, argc + r.choice([-1, 1, 2]))
            kind = {"RXTUNE": "freq", "TXTUNE": "freq", "MEASURE": "freq"}.get(verb, "small" if verb in
                    ("SETFORMAT", "RFMUTE", "SETTA", "FAKE_DROP", "FAKE_TOA", "FAKE_CI", "FAKE_RSSI", "SETPOWER") else None)
            args = [self.int_arg(kind) for _ in range(argc)]
        s = "CMD " + " ".join([verb] + args)
        k = r.random()
        if k < 0.7:
            s += "\0"
        elif k < 0.8:
            s += "\0\0"
        elif k < 0.85 and not self.clean:
            s += " \0"
        return s

    def ctrl_bytes(self, fuzz=0.1):
        r = self.r
        k = r.random()
        if k < 1 - fuzz or self.clean:
            return self.cmd_text().encode("utf-8", "surrogatepass")
        b = bytearray(self.cmd_text().encode("utf-8", "surrogatepass"))
        m = r.random()
        if m < 0.2:
            return bytes(b[:r.randint(0, len(b))])
        if m < 0.4 and b:
            b[r.randrange(len(b))] ^= 1 << r.randrange(8)
            return bytes(b)
        if m < 0.5:
            return bytes(r.randrange(256) for _ in range(r.randint(0, 40)))
        if m < 0.6:
            return b"RSP " + bytes(b[4:])
        if m < 0.7:
            return bytes(b).replace(b" ", b"  ", 1)
        if m < 0.8:
            return bytes(b) + bytes([r.choice([0xc3, 0xff, 0x80, 0xe2, 0x82, 0xac])])
        if m < 0.9:
            return b"CMD" + bytes(b[3:]).lower()
        return bytes(b) + b" " + b"7" * r.randint(100, 1100)

    # ---- bursts ---------------------------------------------------------------
    def bits(self, n):
        r = self.r
        k = r.random()
        if k < 0.5 and n == 148 and self.train:
            name, tsc, bt, seq, tset = r.choice(self.train)
            rb = lambda m: [r.randint(0, 1) for _ in range(m)]
            if bt == "NORMAL":
                b = [0] * 3 + rb(57) + rb(1) + list(seq) + rb(1) + rb(57) + [0] * 3
            elif bt == "SYNC":
                b = [0] * 3 + rb(39) + list(seq) + rb(39) + [0] * 3
            else:
                b = [0] * 8 + list(seq) + rb(36) + [0] * 3 + [0] * 60
            pos = {"NORMAL": 61, "SYNC": 42, "ACCESS": 8}[bt]
            a = r.random()
            if a < 0.12 and pos >= len(seq):
                # the payload happens to carry the same pattern once more, in front of the training sequence
                o = r.randint(0, pos - len(seq))
                b[o:o + len(seq)] = list(seq)
            elif a < 0.2 and bt == "NORMAL":
                # a normal-burst sequence is a 16-bit core extended cyclically: the 16 bits in front of it repeat its head
                b[pos - 16:pos] = list(seq)[:16]
            elif a < 0.26 and pos + 2 * len(seq) <= len(b) - 3:
                # ... or once more behind it
                o = r.randint(pos + len(seq), len(b) - 3 - len(seq))
                b[o:o + len(seq)] = list(seq)
            elif a < 0.3:
                # one bit of the training sequence wrong: no table sequence is present at that position
                b[pos + r.randrange(len(seq))] ^= 1
            return b
        if k < 0.6:
            return [0] * n
        if k < 0.65 and not self.clean:
            return [r.choice([0, 1, 2, 255]) for _ in range(n)]
        return [r.randint(0, 1) for _ in range(n)]

    def tx_dgram(self, fn, ver=0, fuzz=0.08):
        r = self.r
        tn = r.randint(0, 7)
        pwr = r.choice([0, 0, 0, 1, 10, 20, 63, 64, 255])
        k = r.random()
        n = 148 if k < 0.7 else 444 if (k < 0.85 or self.clean) else r.choice([0, 1, 147, 149, 150, 296, 443, 445, 446, 592, 740])
        b0 = ((ver & 0xf) << 4) | tn | (r.choice([0, 8]) if (r.random() < 0.05 and not self.clean) else 0)
        d = bytes([b0]) + (fn & 0xffffffff).to_bytes(4, "big") + bytes([pwr]) + bytes(self.bits(n))
        if r.random() < fuzz and not self.clean:
            m = r.random()
            if m < 0.4:
                d = d[:r.randint(0, min(len(d), 12))]
            elif m < 0.7 and d:
                b = bytearray(d); b[r.randrange(min(len(b), 6))] ^= 1 << r.randrange(8); d = bytes(b)
            else:
                d = d + bytes(r.randint(1, 80))
        return d

    # ---- histories ------------------------------------------------------------
    def history(self, n_ops=40, profile="mixed", extra=None, seed=None):
        r = self.r
        if extra is None and profile == "family":
            # parents with children: the BTS side with one or two child transceivers, sometimes the MS side too
            extra = ["a:5700/%d" % k for k in r.sample([1, 2, 3], r.choice([1, 2]))] + (["b:6700/1"] if r.random() < 0.4 else [])
        extra = self.config() if extra is None else extra
        nt = self.n_trx(extra)
        ops = []
        clk = None            # guess of the clock
        ver = [0] * nt
        sp = lambda i: r.choice([5801, 6801, 1, 40000])

        def C(i, text_or_bytes):
            b = text_or_bytes if isinstance(text_or_bytes, (bytes, bytearray)) else text_or_bytes.encode()
            ops.append("C %d %d %s" % (i, sp(i), hx(b)))

        # a preamble that brings some transceivers up (most of the time)
        if profile != "ctrl" and r.random() < 0.9:
            f_dl, f_ul = r.choice([(945000, 900000), (935200, 890200)])
            for i in range(nt):
                if r.random() < 0.85:
                    bts_side = (i == 0) or (i >= 2 and r.random() < 0.6)
                    rx, tx = (f_ul, f_dl) if bts_side else (f_dl, f_ul)
                    if r.random() < 0.2:
                        rx += 200
                    if r.random() < 0.25:
                        n = r.choice([1, 2, 3, 5])
                        C(i, "CMD SETFH %d %d %s\0" % (r.choice([0, 1, 7, 63]), r.randint(0, 5),
                          " ".join("%d %d" % (rx + 200 * j, tx + 200 * j) for j in range(n))))
                    else:
                        C(i, "CMD RXTUNE %d\0" % rx)
                        C(i, "CMD TXTUNE %d\0" % tx)
                    if r.random() < 0.4:
                        v = r.choice([0, 1, 1, 2])
                        C(i, "CMD SETFORMAT %d\0" % v)
                        ver[i] = min(v, 1)
                    C(i, "CMD POWERON\0")
                    if clk is None and (i < 2 or True):
                        clk = 0
            if profile == "radio":
                # simulated radio parameters on every transceiver, small enough to stay inside the protocol ranges
                for i in range(nt):
                    if r.random() < 0.7:
                        C(i, "CMD SETFORMAT %d\0" % r.choice([1, 1, 0])); ver[i] = 1 if ops[-1].endswith("203100") else 0
                    if r.random() < 0.6:
                        C(i, "CMD FAKE_CI %d %d\0" % (r.choice([90, 0, -100, 500, 1270]), r.choice([0, 1, 2, 5, 10])))
                    if r.random() < 0.6:
                        C(i, "CMD FAKE_RSSI %d %d\0" % (r.choice([-60, -80, -100, -50, -118]), r.choice([0, 1, 3, 10, 20, 25, -1])))
                    if r.random() < 0.6:
                        C(i, "CMD FAKE_TOA %d %d\0" % (r.choice([0, 40, -40, 2000, 32000]), r.choice([0, 1, 10, 256, 512])))
                    if r.random() < 0.4:
                        C(i, "CMD SETTA %d\0" % r.choice([0, 1, 7, 63, -3]))
                    if r.random() < 0.3:
                        C(i, "CMD SETPOWER %d\0" % r.choice([0, 2, 10, 20]))
            if profile == "wrap" or r.random() < 0.15:
                clk = r.choice([H - 1, H - 2, H - 3, H - 5])
                ops.append("J %d" % clk)
            elif r.random() < 0.3:
                clk = r.randrange(0, H)
                ops.append("J %d" % clk)
        if profile == "revisit":
            # the same frame number is on air again and again (clock jumps back, as after a restart of the generator), with
            # one transceiver retuned / re-versioned / power-cycled in between: whatever was derived for that frame before
            # must not be used again
            fn0 = clk if clk is not None else 0
            fns = [fn0, (fn0 + 1) % H]
            for _ in range(max(2, n_ops // 6)):
                fn = r.choice(fns)
                ops.append("J %d" % fn)
                for _ in range(r.choice([1, 1, 2])):
                    i = r.randrange(nt)
                    ops.append("D %d %s" % (i, hx(self.tx_dgram(fn, ver[i], 0.0))))
                ops.append("T")
                j = r.randrange(nt)
                k = r.random()
                if k < 0.45:
                    f = r.choice([945000, 900000, 935200, 890200, 945200])
                    C(j, "CMD %s %d\0" % (r.choice(["RXTUNE", "RXTUNE", "TXTUNE"]), f))
                elif k < 0.6:
                    rx, tx = r.choice([(945000, 900000), (900000, 945000), (935200, 890200)])
                    n = r.choice([1, 2, 3])
                    C(j, "CMD SETFH %d %d %s\0" % (r.choice([0, 1, 7]), r.randint(0, 2),
                      " ".join("%d %d" % (rx + 200 * q, tx + 200 * q) for q in range(n))))
                elif k < 0.75:
                    C(j, "CMD POWEROFF\0")
                    if r.random() < 0.7:
                        C(j, "CMD POWERON\0")
                elif k < 0.85:
                    v = r.choice([0, 1])
                    C(j, "CMD SETFORMAT %d\0" % v)
                    ver[j] = v
            n_ops = 0
        weights = {
            "revisit": (0.30, 0.30, 0.36, 0.04),
            "family": (0.38, 0.30, 0.26, 0.06),
            "mixed": (0.30, 0.30, 0.36, 0.04),
            "ctrl": (0.85, 0.05, 0.08, 0.02),
            "traffic": (0.10, 0.42, 0.45, 0.03),
            "wrap": (0.08, 0.42, 0.48, 0.02),
            "power": (0.52, 0.14, 0.27, 0.07),
            "fuzz": (0.45, 0.35, 0.18, 0.02),
            "drop": (0.12, 0.45, 0.42, 0.01),
            "radio": (0.10, 0.45, 0.44, 0.01),
        }[profile]
        for _ in range(n_ops):
            k = r.random()
            i = r.randrange(nt)
            if k < weights[0]:
                if profile == "family":
                    # power commands to parents and children in any order, while bursts are waiting in the queues
                    C(i, "CMD %s\0" % r.choice(["POWERON", "POWERON", "POWEROFF"]))
                elif profile == "power":
                    v = r.choice(["POWERON", "POWEROFF", "POWERON", "RXTUNE", "TXTUNE", "SETFH", None])
                    txt = self.cmd_text(v, dict(VERBS).get(v, 0) if v else None) if v else self.cmd_text()
                    C(i, txt)
                elif profile == "drop":
                    v = r.choice(["FAKE_DROP", "FAKE_DROP", "FAKE_DROP", "RFMUTE", "SETFORMAT"])
                    if v == "FAKE_DROP":
                        a = [str(r.choice([0, 1, 2, 3, 5, -1]))] + ([str(r.choice([1, 2, 3, 0, -1]))] if r.random() < 0.6 else [])
                        C(i, "CMD FAKE_DROP %s\0" % " ".join(a))
                    elif v == "RFMUTE":
                        C(i, "CMD RFMUTE %d\0" % r.choice([0, 1, 1, 2, -1]))
                    else:
                        C(i, "CMD SETFORMAT %d\0" % r.choice([0, 1]))
                elif profile == "radio":
                    v = r.choice(["FAKE_CI", "FAKE_RSSI", "FAKE_TOA", "SETTA", "SETPOWER", "SETFORMAT"])
                    if v.startswith("FAKE_") and r.random() < 0.3:
                        # the relative form: `FAKE_x <+-DELTA>` moves the base, the randomisation threshold stays
                        C(i, "CMD %s %d\0" % (v, r.choice([1, -1, 2, -3, 5, -7, 10])))
                    elif v == "FAKE_CI":
                        C(i, "CMD FAKE_CI %d %d\0" % (r.choice([90, -20, 100, 1275]), r.choice([0, 1, 2, 5])))
                    elif v == "FAKE_RSSI":
                        C(i, "CMD FAKE_RSSI %d %d\0" % (r.choice([-60, -75, -85, -49, -119]), r.choice([0, 2, 20, 25, -1])))
                    elif v == "FAKE_TOA":
                        C(i, "CMD FAKE_TOA %d %d\0" % (r.choice([0, 40, 32700, -32700]), r.choice([0, 10, 512])))
                    elif v == "SETTA":
                        C(i, "CMD SETTA %d\0" % r.choice([0, 1, 7, 63]))
                    elif v == "SETPOWER":
                        C(i, "CMD SETPOWER %d\0" % r.choice([0, 5, 13]))
                    else:
                        C(i, "CMD SETFORMAT %d\0" % r.choice([0, 1]))
                elif profile == "traffic" or profile == "wrap":
                    v = r.choice(["FAKE_DROP", "FAKE_DROP", "RFMUTE", "SETTA", "FAKE_TOA", "FAKE_RSSI", "FAKE_CI",
                                  "SETPOWER", "SETFORMAT", "POWEROFF", "POWERON", None])
                    if v is None:
                        C(i, self.cmd_text())
                    else:
                        argc = r.choice([a for (n, a) in VERBS if n == v])
                        C(i, self.cmd_text(v, argc))
                else:
                    C(i, self.ctrl_bytes(0.35 if profile == "fuzz" else 0.08))
            elif k < weights[0] + weights[1]:
                base = clk if clk is not None else 0
                d = r.choice([0, 0, 1, 1, 2, 2, 3, 5, -1, -2, 10, 1000, H // 2 - 1, H // 2, H // 2 + 1, -H // 2])
                if profile in ("drop", "radio"):
                    d = r.choice([0, 1, 1, 1, 2, 2, 3])
                if profile == "family":
                    d = r.choice([1, 2, 2, 3, 3, 5, 8])
                fn = (base + d) % H if (r.random() < 0.97 or self.clean) else r.choice([H, H + 1, 2 ** 32 - 1])
                v = ver[i] if r.random() < 0.9 else 1 - ver[i]
                ops.append("D %d %s" % (i, hx(self.tx_dgram(fn, v, 0.3 if profile == "fuzz" else 0.06))))
            elif k < weights[0] + weights[1] + weights[2]:
                ops.append("T")
                if clk is not None:
                    clk = (clk + 1) % H
            else:
                # mostly to a frame in which a clock indication is due (every 102nd), or just before one
                clk = r.choice([0, 101, 102, 204, 102 * r.randrange(0, 26000), 102 * r.randrange(0, 26000) - 1 if r.random() < 0.5 else 0,
                                H - 1, H - 2, r.randrange(H)]) % H
                ops.append("J %d" % clk)
        sd = r.randrange(0, 100000) if seed is None else seed
        return "world.run %d %s | %s" % (sd, ",".join(extra) if extra else "-", " ; ".join(ops))
