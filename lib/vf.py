# Common machinery for the /verif checks (see DESIGN.md section 2.3).
#
# A check is `./check Cxx [--tier quick|thorough] [--replay FILE]`.  It
#   1. regenerates OsmoVerif/Gen/*.lean from /repo                    (tie T)
#   2. builds Props/Cxx (+ axiom audit, forbidden-token grep, driver)  (proof obligations)
#   3. runs the correspondence: real code vs. Lean model, same inputs  (tie C)
#   4. thorough: leanchecker, exhaustive sweeps
#   5. if 2 or 3 broke: failing-input search against the Spec oracle
# and writes evidence/Cxx.json.  Exit 0 ok, 1 violation, 2 internal error.

import fcntl
import hashlib
import json
import os
import random
import re
import shutil
import subprocess
import sys
import time
import traceback

ROOT = os.path.dirname(os.path.dirname(os.path.abspath(__file__)))
REPO = os.environ.get("VERIF_REPO", "/repo")
# VERIF_LEAN: a private copy of the lake project (parallel trial runs against scratch worktrees)
LEAN = os.environ.get("VERIF_LEAN") or os.path.join(ROOT, "lean")
PY = os.environ.get("VERIF_PY", "/venv/bin/python")
TRX = os.path.join(REPO, "src/target/trx_toolkit")
DRIVER = None  # per-property executables: see driver_exe()
ALLOWED_AXIOMS = {"propext", "Classical.choice", "Quot.sound"}
FORBIDDEN = re.compile(
    r"\bsorry\b|\badmit\b|^\s*axiom\s|native_decide|bv_decide|implemented_by|\bunsafe\s|maxHeartbeats\s+0\b|@\[extern",
    re.M)
NCPU = os.cpu_count() or 4


class InternalError(Exception):
    pass


# ----------------------------------------------------------------------------
# small helpers

def sh(cmd, cwd=None, env=None, input=None, timeout=None, check=False):
    e = dict(os.environ)
    e.setdefault("PYTHONDONTWRITEBYTECODE", "1")
    if env:
        e.update(env)
    p = subprocess.run(cmd, cwd=cwd, env=e, input=input, stdout=subprocess.PIPE,
                       stderr=subprocess.STDOUT, timeout=timeout,
                       text=isinstance(input, str) or input is None)
    if check and p.returncode != 0:
        raise InternalError("command failed (%d): %s\n%s" % (p.returncode, cmd, p.stdout[-4000:]))
    return p.returncode, p.stdout


def write_if_changed(path, text):
    os.makedirs(os.path.dirname(path), exist_ok=True)
    try:
        with open(path) as f:
            if f.read() == text:
                return False
    except FileNotFoundError:
        pass
    tmp = path + ".tmp%d" % os.getpid()
    with open(tmp, "w") as f:
        f.write(text)
    os.replace(tmp, path)
    return True


def strip_lean_comments(src):
    # remove /- ... -/ (nested) and -- ... comments
    out = []
    i, depth, n = 0, 0, len(src)
    while i < n:
        if src.startswith("/-", i):
            depth += 1
            i += 2
        elif depth and src.startswith("-/", i):
            depth -= 1
            i += 2
        elif depth:
            if src[i] == "\n":
                out.append("\n")
            i += 1
        elif src.startswith("--", i):
            while i < n and src[i] != "\n":
                i += 1
        elif src[i] == '"':
            j = i + 1
            while j < n and src[j] != '"':
                j += 2 if src[j] == "\\" else 1
            out.append('""')
            i = j + 1
        else:
            out.append(src[i])
            i += 1
    return "".join(out)


def lean_nat_list(xs):
    return "[" + ", ".join(str(int(x)) for x in xs) + "]"


def lean_int(x):
    x = int(x)
    return str(x) if x >= 0 else "(%d)" % x


def lean_int_list(xs):
    return "[" + ", ".join(lean_int(x) for x in xs) + "]"


def lean_str(s):
    return '"' + s.replace("\\", "\\\\").replace('"', '\\"') + '"'


class LakeLock:
    def __enter__(self):
        os.makedirs(os.path.join(LEAN, ".lake"), exist_ok=True)
        self.f = open(os.path.join(LEAN, ".lake", "verif.lock"), "w")
        fcntl.flock(self.f, fcntl.LOCK_EX)
        return self

    def __exit__(self, *a):
        fcntl.flock(self.f, fcntl.LOCK_UN)
        self.f.close()


# ----------------------------------------------------------------------------
# proof side

class ProofResult:
    def __init__(self):
        self.ok = True
        self.theorems = []        # names found in Props file(s)
        self.discharged = []      # accepted by the kernel with allowed axioms
        self.failed = []          # [{theorem, file, line, msg}]
        self.axioms = {}          # theorem -> [axioms]
        self.forbidden = []       # forbidden tokens found
        self.log = ""
        self.build_s = 0.0


_DECL = re.compile(r"^\s*(?:@\[[^\]]*\]\s*)*(?:private\s+|protected\s+)?(theorem|lemma|def|example|instance|abbrev|structure|inductive)\s+([^\s:({\[]+)?", re.M)


def decl_at(path, line):
    """name of the declaration that contains `line` of file `path`"""
    try:
        src = open(path).read().split("\n")
    except OSError:
        return None
    for i in range(min(line, len(src)) - 1, -1, -1):
        m = _DECL.match(src[i])
        if m:
            return "%s %s" % (m.group(1), m.group(2) or "(anonymous)")
    return None


def theorems_of(module):
    """(namespace-qualified) theorem names declared in a Props module"""
    path = os.path.join(LEAN, module.replace(".", "/") + ".lean")
    src = strip_lean_comments(open(path).read())
    ns = []
    names = []
    for ln in src.split("\n"):
        m = re.match(r"^namespace\s+(\S+)", ln)
        if m:
            ns.append(m.group(1))
            continue
        m = re.match(r"^end\s+(\S+)", ln)
        if m and ns and ns[-1] == m.group(1):
            ns.pop()
            continue
        m = re.match(r"^(?:@\[[^\]]*\]\s*)*theorem\s+([^\s:({\[]+)", ln)
        if m:
            names.append(".".join(ns + [m.group(1)]))
    return names


def import_closure(modules):
    """files of the OsmoVerif.* modules transitively imported by `modules`"""
    seen, todo = {}, list(modules)
    while todo:
        m = todo.pop()
        if m in seen or not m.startswith("OsmoVerif"):
            continue
        path = os.path.join(LEAN, m.replace(".", "/") + ".lean")
        seen[m] = path
        try:
            for ln in open(path):
                mm = re.match(r"^\s*(?:public\s+)?import\s+(\S+)", ln)
                if mm:
                    todo.append(mm.group(1))
        except OSError:
            pass
    return set(seen.values())


def lake_build(targets, timeout=3600):
    t0 = time.time()
    with LakeLock():
        rc, out = sh(["lake", "build"] + list(targets), cwd=LEAN, timeout=timeout)
    return rc, out, time.time() - t0


_ERR = re.compile(r"^error: (\S+?\.lean):(\d+):(\d+): (.*)$", re.M)


CURRENT = {"prop": None, "driver_modules": None}


def driver_exe(prop=None):
    prop = prop or CURRENT["prop"]
    return os.path.join(LEAN, ".lake/build/bin/driver_%s" % prop)


def gen_driver(prop=None, modules=None):
    """Driver<Cxx>.lean = dispatcher over the OsmoVerif/Driver/*.lean modules this property needs
    (each defines `OsmoVerif.Driver.X.handle : List String → Option String`).  One executable per
    property, so that a broken model of another property can never break this property's check."""
    prop = prop or CURRENT["prop"]
    d = os.path.join(LEAN, "OsmoVerif/Driver")
    mods = modules if modules is not None else CURRENT["driver_modules"]
    if mods is None:
        mods = sorted(f[:-5] for f in os.listdir(d) if f.endswith(".lean") and f != "Util.lean")
    txt = "-- GENERATED by lib/vf.py (gen_driver): line-protocol driver over the executable models.\n"
    txt += "-- One request per line, one canonical answer per line; unknown or malformed requests\n"
    txt += "-- answer `bad-op` (never a default value).\n"
    txt += "".join("import OsmoVerif.Driver.%s\n" % m for m in mods)
    txt += "\nopen OsmoVerif.Driver\n\ndef dispatch (toks : List String) : Option String :=\n"
    txt += "".join("  (%s.handle toks) <|>\n" % m for m in mods) + "  none\n"
    txt += """
partial def loop (hin : IO.FS.Stream) (hout : IO.FS.Stream) : IO Unit := do
  let line ← hin.getLine
  if line.isEmpty then return ()
  let toks := (line.trimAscii.toString.splitOn " ").filter (· ≠ "")
  match dispatch toks with
  | some out => hout.putStrLn out
  | none => hout.putStrLn "bad-op"
  loop hin hout

def main : IO Unit := do
  let hin ← IO.getStdin
  let hout ← IO.getStdout
  loop hin hout
  hout.flush
"""
    write_if_changed(os.path.join(LEAN, "Driver%s.lean" % prop), txt)
    return "driver_%s" % prop


def prove(modules, extra_targets=None):
    """build the Props modules, audit their axioms, grep forbidden tokens"""
    res = ProofResult()
    if extra_targets is None:
        extra_targets = (gen_driver(),)
    for m in modules:
        res.theorems += theorems_of(m)
    # forbidden tokens in every Lean source this property's theorems and driver depend on
    for p in sorted(import_closure(list(modules) + ["OsmoVerif.Driver.%s" % m for m in (CURRENT["driver_modules"] or [])])):
        try:
            src = open(p).read()
        except OSError:
            continue
        for m in FORBIDDEN.finditer(strip_lean_comments(src)):
            res.forbidden.append("%s: %s" % (os.path.relpath(p, LEAN), m.group(0).strip()))
    # audit files
    audits = []
    for m in modules:
        short = m.split(".")[-1]
        names = theorems_of(m)
        txt = "-- GENERATED by lib/vf.py: axiom audit of %s\nimport %s\n" % (m, m)
        txt += "".join("#print axioms %s\n" % n for n in names)
        ap = os.path.join(LEAN, "OsmoVerif/Audit/%s.lean" % short)
        write_if_changed(ap, txt)
        audits.append((m, ap, names))
    rc, out, res.build_s = lake_build(list(modules) + list(extra_targets))
    res.log = out
    if rc != 0:
        res.ok = False
        seen = set()
        for m in _ERR.finditer(out):
            path = m.group(1)
            if not os.path.isabs(path):
                path = os.path.join(LEAN, path)
            d = decl_at(path, int(m.group(2)))
            key = (path, d)
            if key in seen:
                continue
            seen.add(key)
            res.failed.append({"theorem": d, "file": os.path.relpath(path, LEAN),
                               "line": int(m.group(2)), "msg": m.group(4)[:300]})
        if not res.failed:
            res.failed.append({"theorem": None, "file": None, "line": 0,
                               "msg": "lake build failed: " + out[-600:]})
        return res
    for m, ap, names in audits:
        with LakeLock():
            rc, out = sh(["lake", "env", "lean", ap], cwd=LEAN, timeout=1800)
        res.log += out
        cur = None
        found = {}
        for ln in out.split("\n"):
            mm = re.match(r"^.*'([^']+)' depends on axioms: \[(.*)$", ln)
            if mm:
                cur = mm.group(1)
                found[cur] = mm.group(2)
                if "]" in ln:
                    cur = None
                continue
            mm = re.match(r"^.*'([^']+)' does not depend on any axioms", ln)
            if mm:
                found[mm.group(1)] = ""
                cur = None
                continue
            if cur is not None:
                found[cur] += " " + ln
                if "]" in ln:
                    cur = None
        for n in names:
            if n not in found:
                res.ok = False
                res.failed.append({"theorem": n, "file": os.path.relpath(ap, LEAN), "line": 0,
                                   "msg": "no axiom report (audit failed): " + out[-300:]})
                continue
            axs = [a.strip() for a in found[n].replace("]", "").split(",") if a.strip()]
            res.axioms[n] = axs
            bad = [a for a in axs if a not in ALLOWED_AXIOMS]
            if bad:
                res.ok = False
                res.failed.append({"theorem": n, "file": None, "line": 0,
                                   "msg": "depends on non-allowed axioms %s" % bad})
            else:
                res.discharged.append(n)
    if res.forbidden:
        res.ok = False
        res.failed.append({"theorem": None, "file": None, "line": 0,
                           "msg": "forbidden tokens: %s" % res.forbidden[:5]})
    return res


def leanchecker(modules):
    with LakeLock():
        rc, out = sh(["lake", "env", "leanchecker"] + list(modules), cwd=LEAN, timeout=3600)
    return rc == 0, out[-2000:]


# ----------------------------------------------------------------------------
# driver / harness side

def run_driver(lines, timeout=3600):
    """feed request lines to the compiled Lean driver, return answer lines"""
    exe = driver_exe()
    if not os.path.exists(exe):
        raise InternalError("driver binary missing (lake build %s failed?)" % os.path.basename(exe))
    data = "\n".join(lines) + "\n" if lines else ""
    p = subprocess.run([exe], input=data, stdout=subprocess.PIPE, stderr=subprocess.PIPE,
                       text=True, timeout=timeout)
    if p.returncode != 0:
        raise InternalError("driver exited %d: %s" % (p.returncode, p.stderr[-500:]))
    out = p.stdout.split("\n")
    if out and out[-1] == "":
        out.pop()
    if len(out) != len(lines):
        raise InternalError("driver answered %d lines for %d requests" % (len(out), len(lines)))
    return out


class HarnessError(Exception):
    """the real code could not be driven (tie cannot be established)"""


def run_lines(cmd, lines, cwd=None, env=None, timeout=3600):
    """same line protocol against an implementation-side harness process"""
    data = "\n".join(lines) + "\n" if lines else ""
    e = dict(os.environ)
    e["PYTHONDONTWRITEBYTECODE"] = "1"
    if env:
        e.update(env)
    p = subprocess.run(cmd, input=data, stdout=subprocess.PIPE, stderr=subprocess.PIPE,
                       text=True, timeout=timeout, cwd=cwd, env=e)
    out = p.stdout.split("\n")
    if out and out[-1] == "":
        out.pop()
    if p.returncode != 0 or len(out) != len(lines):
        raise HarnessError("harness %s: rc=%d, %d answers for %d requests; stderr: %s"
                           % (os.path.basename(cmd[0] if cmd[0] != PY else cmd[1]), p.returncode,
                              len(out), len(lines), p.stderr[-1500:]))
    return out


def cc(sources, out, flags=(), includes=(), cwd=None, compiler="gcc"):
    cmd = [compiler, "-O1", "-g", "-w"] + list(flags)
    for i in includes:
        cmd += ["-I", i]
    cmd += list(sources) + ["-o", out]
    rc, o = sh(cmd, cwd=cwd, timeout=600)
    if rc != 0:
        raise HarnessError("C harness does not compile: %s\n%s" % (" ".join(cmd), o[-2500:]))
    return out


def src_hash_py(path, names):
    """AST-normalised hash of named functions/classes of a Python file (source-drift detector)"""
    import ast
    tree = ast.parse(open(path).read())
    h = hashlib.sha256()
    want = set(names)
    for node in ast.walk(tree):
        if isinstance(node, (ast.FunctionDef, ast.ClassDef)) and node.name in want:
            h.update(ast.dump(node, include_attributes=False).encode())
    return h.hexdigest()[:16]


def src_hash_c(path, names):
    src = open(path, errors="replace").read()
    src = re.sub(r"/\*.*?\*/", "", src, flags=re.S)
    src = re.sub(r"//[^\n]*", "", src)
    h = hashlib.sha256()
    for n in names:
        body = c_function(src, n)
        h.update(re.sub(r"\s+", "", body or "<missing>").encode())
    return h.hexdigest()[:16]


def c_function(src, name):
    """text of the C function definition `name` (brace matching)"""
    for m in re.finditer(r"\b%s\s*\(" % re.escape(name), src):
        i = m.end()
        depth = 1
        while i < len(src) and depth:
            depth += {"(": 1, ")": -1}.get(src[i], 0)
            i += 1
        j = i
        while j < len(src) and src[j] in " \t\r\n":
            j += 1
        if j < len(src) and src[j] == "{":
            k = j + 1
            depth = 1
            while k < len(src) and depth:
                depth += {"{": 1, "}": -1}.get(src[k], 0)
                k += 1
            # walk back to the start of the line(s) holding the return type
            s = src.rfind("\n\n", 0, m.start())
            s2 = max(src.rfind(";", 0, m.start()), src.rfind("}", 0, m.start()))
            s = max(s, s2) + 1
            return src[s:k]
    return None


# ----------------------------------------------------------------------------
# run object, evidence, verdict

class Corr:
    """result of a correspondence / exploration run"""

    def __init__(self):
        self.evaluations = 0
        self.nontrivial = set()       # keys of distinct non-trivial cases
        self.rule = ""
        self.samples = []
        self.disagreements = []       # [{input, impl, model, ...}]
        self.distribution = {}
        self.harness_errors = []      # ties that could not be established
        self.exhaustive = False
        self.notes = []
        self.outside = 0              # differences on requests outside the property's domain (not a broken tie)
        self.compared_inside = 0      # requests compared inside / outside the property's domain
        self.compared_outside = 0
        self.outside_samples = []

    def count(self, key, bucket=None):
        self.evaluations += 1
        if key is not None:
            if len(self.nontrivial) < 2000000:
                self.nontrivial.add(key)
        if bucket is not None:
            self.distribution[bucket] = self.distribution.get(bucket, 0) + 1

    def compare(self, reqs, impl, model, limit=50, in_domain=None, model_ub=None):
        """record the requests on which implementation and model answer differently.
        in_domain(request) -> bool: requests outside the domain the property (and its theorems) quantify over are still
        run and compared, but a difference there is NOT a broken tie: the property says nothing about them, so a change
        of the code's behaviour there (a new guard, another exception class) must not raise an alarm.
        model_ub(model_answer) -> bool: the model marks the unchanged code's behaviour on this request as undefined (an
        out-of-bounds access, NULL call, ...); whatever the current code does instead refines it.  Both kinds are counted
        and sampled into the evidence (`outside_domain_differences`)."""
        for r, a, b in zip(reqs, impl, model):
            if in_domain is not None or model_ub is not None:
                inside = (in_domain is None or in_domain(r)) and not (model_ub is not None and model_ub(b))
                self.compared_inside += inside
                self.compared_outside += not inside
            else:
                self.compared_inside += 1
            if a == b:
                continue
            if (in_domain is not None and not in_domain(r)) or (model_ub is not None and model_ub(b)):
                self.outside += 1
                if len(self.outside_samples) < 5:
                    self.outside_samples.append({"request": str(r)[:300], "impl": str(a)[:200], "model": str(b)[:200]})
                continue
            if len(self.disagreements) < limit:
                self.disagreements.append({"request": r, "impl": a, "model": b})


class Run:
    def __init__(self, prop, tier, seed):
        self.prop = prop
        self.tier = tier
        self.seed = seed
        self.t0 = time.time()
        self.rng = random.Random(seed * 1000003 + int(prop[1:]))
        self.scratch = os.path.join(ROOT, "build", "%s.%d" % (prop, os.getpid()))
        os.makedirs(self.scratch, exist_ok=True)
        self.known = load_known()
        self.known_hits = []
        self.violations = []
        self.drift = {}

    def cleanup(self):
        shutil.rmtree(self.scratch, ignore_errors=True)

    @property
    def thorough(self):
        return self.tier == "thorough"

    def scale(self, quick, thorough):
        return thorough if self.thorough else quick

    # -- verdicts -----------------------------------------------------------
    def known_match(self, witness):
        for k in self.known.get("findings", []):
            if k.get("property") != self.prop:
                continue
            if match_known(k, witness):
                return k
        return None

    def report_witness(self, witness):
        """a concrete input on which the property fails on the real code"""
        k = self.known_match(witness)
        if k is not None:
            if k["id"] not in [x["id"] for x in self.known_hits]:
                self.known_hits.append(k)
            return False
        self.violations.append({"kind": "failing-input", "witness": witness})
        return True

    def report_unproved(self, what):
        """a proof obligation / correspondence that no longer checks and no failing input found"""
        self.violations.append({"kind": "no-failing-input-found", "broken": what})

    def finish(self, level, coverage, assumptions):
        wall = time.time() - self.t0
        for k in self.known_hits:
            print("KNOWN-FINDING: property=%s %s" % (self.prop, k["what"]))
        ev = {
            "property_id": self.prop, "tier": self.tier, "seed": self.seed, "level": level,
            "coverage": coverage, "assumptions": assumptions, "wall_s": round(wall, 2),
            "violations": len(self.violations),
        }
        # trial runs against a scratch copy of the repository never overwrite the committed evidence
        evdir = os.path.join(ROOT, "evidence") if os.path.realpath(REPO) == "/repo" else (os.environ.get("VERIF_TRIAL_EVIDENCE") or os.path.join(ROOT, "build", "trial-evidence"))
        os.makedirs(evdir, exist_ok=True)
        rc = 0
        if self.violations:
            rdir = os.path.join(evdir, "replay")
            os.makedirs(rdir, exist_ok=True)
            rpath = os.path.join(rdir, "%s-%d.json" % (self.prop, self.seed))
            with open(rpath, "w") as f:
                json.dump({"property": self.prop, "seed": self.seed, "tier": self.tier,
                           "violations": self.violations}, f, indent=1, default=str)
            concrete = [v for v in self.violations if v["kind"] == "failing-input"]
            if concrete:
                print("VIOLATION property=%s replay=%s" % (self.prop, rpath))
            else:
                print("VIOLATION property=%s replay=%s no-failing-input-found" % (self.prop, rpath))
            ev["coverage"]["replay"] = rpath
            rc = 1
        with open(os.path.join(evdir, "%s.json" % self.prop), "w") as f:
            json.dump(ev, f, indent=1, default=str)
        print("%s tier=%s seed=%d: %s in %.1fs" % (self.prop, self.tier, self.seed,
                                                  "OK" if rc == 0 else "VIOLATION", wall))
        return rc


def load_known():
    try:
        with open(os.path.join(ROOT, "known_findings.json")) as f:
            return json.load(f)
    except FileNotFoundError:
        return {"findings": [], "fixed": []}


def match_known(k, witness):
    """a known finding matches a witness iff every key of k['match'] matches:
       scalar -> equality, list -> membership, {'min':..,'max':..} -> range"""
    for key, want in k.get("match", {}).items():
        if key not in witness:
            return False
        v = witness[key]
        if isinstance(want, list):
            if v not in want:
                return False
        elif isinstance(want, dict):
            if "min" in want and not (v >= want["min"]):
                return False
            if "max" in want and not (v <= want["max"]):
                return False
        elif v != want:
            return False
    return True


def proof_coverage(pres, corr, extra=None):
    cov = {
        "obligations": len(pres.theorems),
        "discharged": len(pres.discharged),
        "checker_cmd": "cd /verif/lean && lake build <Props module> && lake env lean OsmoVerif/Audit/<Cxx>.lean  (#print axioms); thorough: lake env leanchecker",
        "trusted_base": [
            "Lean 4.33.0 kernel; axioms found by #print axioms: %s" % sorted({a for v in pres.axioms.values() for a in v}),
            "translators in /verif/gen (values printed by the Python interpreter / C compiler from /repo's current tree)",
            "correspondence harness (differential execution of real code vs. Lean model; not a proof)",
        ],
        "theorems": pres.discharged,
        "failed_obligations": pres.failed,
        "lean_build_s": round(pres.build_s, 1),
    }
    if corr is not None:
        cov.update({
            "evaluations": corr.evaluations,
            "distinct_nontrivial": len(corr.nontrivial),
            "rule": corr.rule,
            "samples": corr.samples[:8],
            "disagreements_checked": len(corr.disagreements),
            "distribution": corr.distribution,
            "harness_errors": corr.harness_errors,
            "exhaustive": corr.exhaustive,
            "notes": corr.notes,
            "outside_domain_differences": {"count": corr.outside, "samples": corr.outside_samples,
                                           "requests_compared_inside_domain": corr.compared_inside,
                                           "requests_compared_outside_domain": corr.compared_outside},
        })
    if extra:
        cov.update(extra)
    return cov


def standard_main(mod):
    """the common flow; `mod` is a props/Cxx module"""
    import argparse
    ap = argparse.ArgumentParser()
    ap.add_argument("--tier", default=os.environ.get("VERIF_TIER", "quick"), choices=["quick", "thorough"])
    ap.add_argument("--replay", default=None)
    ap.add_argument("--seed", type=int, default=int(os.environ.get("VERIF_SEED", "0") or 0))
    args = ap.parse_args(sys.argv[2:])
    run = Run(mod.ID, args.tier, args.seed)
    CURRENT["prop"] = mod.ID
    CURRENT["driver_modules"] = getattr(mod, "DRIVER_MODULES", None)
    try:
        if args.replay:
            return mod.replay(run, args.replay)
        return flow(run, mod)
    except InternalError as e:
        print("INTERNAL ERROR: %s" % e, file=sys.stderr)
        return 2
    except subprocess.TimeoutExpired as e:
        print("TIMEOUT: %s" % e, file=sys.stderr)
        return 2
    finally:
        run.cleanup()


def run_lines_crash_safe(cmd, lines, env=None, max_crashes=3):
    """run_lines for a STATELESS line protocol, but a request on which the process dies (signal, sanitizer abort) is answered
    `crash <reason>` instead of losing the batch (bisection); after max_crashes crashing requests the rest is `skipped`"""
    import re as _re
    out, pos, crashes, chunk = [], 0, 0, len(lines)
    while pos < len(lines):
        if crashes >= max_crashes:
            out += ["skipped"] * (len(lines) - pos)
            break
        part = lines[pos:pos + chunk]
        try:
            out += run_lines(cmd, part, env=env)
            pos += len(part)
            chunk = len(lines)
            continue
        except HarnessError as e:
            err = str(e)
        if len(part) == 1:
            m = _re.search(r"rc=(-?\d+)", err)
            msg = [l for l in err.split("\n") if "runtime error" in l or "ERROR" in l]
            txt = msg[0].strip()[-160:] if msg else ("signal %d" % -int(m.group(1)) if m and int(m.group(1)) < 0 else err.split("stderr:")[0].strip()[-80:])
            out.append("crash " + " ".join(_re.sub(r"0x[0-9a-fA-F]+", "0x..", txt).split()))
            crashes += 1
            pos += 1
            chunk = len(lines)
        else:
            chunk = max(1, len(part) // 2)
    return out


def flow(run, mod):
    broken = []          # descriptions of proof obligations / ties that do not check
    # 1. translators
    try:
        mod.gen(run)
    except Exception as e:
        broken.append({"tie": "translator", "error": "%s: %s" % (type(e).__name__, str(e)[-800:])})
    # 2. proof obligations
    pres = prove(mod.LEAN_MODULES)
    if not pres.ok:
        for f in pres.failed:
            broken.append({"theorem": f["theorem"], "file": f["file"], "line": f["line"], "msg": f["msg"]})
    # 3. correspondence
    corr = Corr()
    try:
        mod.correspond(run, corr)
    except HarnessError as e:
        corr.harness_errors.append(str(e)[-1500:])
    except InternalError as e:
        if pres.ok and not broken:
            raise
        # a translator already failed on this tree (or the Lean build did): what the correspondence needs from it is missing
        corr.harness_errors.append("driver unavailable (Lean build failed)" if not pres.ok else
                                   "correspondence could not run after the translator failure: %s" % str(e)[-600:])
    except (subprocess.TimeoutExpired, KeyboardInterrupt):
        raise
    except Exception as e:
        # the implementation answered something the check's own bookkeeping cannot digest (output of a shape the
        # unchanged code never produces): the tie could not be established - not a crash of the check
        corr.harness_errors.append("correspondence aborted: %s: %s | %s" % (
            type(e).__name__, str(e)[-300:], traceback.format_exc()[-700:]))
    for he in corr.harness_errors:
        broken.append({"tie": "correspondence-harness", "error": he})
    if corr.disagreements:
        broken.append({"tie": "correspondence", "first_disagreements": corr.disagreements[:5]})
    # 4. thorough extras
    extra = {}
    if run.thorough and pres.ok:
        ok, out = leanchecker(mod.LEAN_MODULES + getattr(mod, "LEAN_MODEL_MODULES", []))
        extra["leanchecker"] = "ok" if ok else out
        if not ok:
            broken.append({"tie": "leanchecker", "error": out})
    # 5. property oracle on the implementation: always run (cheap), deeper when something broke
    found = 0
    try:
        found = mod.search(run, corr, deep=bool(broken))
    except HarnessError as e:
        broken.append({"tie": "oracle-harness", "error": str(e)[-1500:]})
    except (InternalError, subprocess.TimeoutExpired, KeyboardInterrupt):
        raise
    except Exception as e:
        if not broken:
            raise InternalError("property oracle crashed: %s" % traceback.format_exc()[-1500:])
        broken.append({"tie": "oracle-harness", "error": "oracle aborted on the implementation's output: %s: %s | %s" % (
            type(e).__name__, str(e)[-300:], traceback.format_exc()[-700:])})
    if broken and not any(v["kind"] == "failing-input" for v in run.violations):
        if not (run.known_hits and all_broken_explained(run, broken, mod)):
            run.report_unproved(broken)
    extra["oracle_witnesses"] = found
    extra["source_drift"] = run.drift
    cov = proof_coverage(pres, corr, extra)
    return run.finish(mod.LEVEL, cov, mod.ASSUMPTIONS)


def all_broken_explained(run, broken, mod):
    f = getattr(mod, "explained_by_known", None)
    return bool(f and f(run, broken))
