# Shared pieces of the TRXD checks (C13, C01, C04, C15): the text encoding of messages used by
# lean/OsmoVerif/Driver/Trxd.lean and harness/py/trxd_harness.py, generators (boundary lattice,
# valid messages, byte strings) and the property-level specification written in Python with the
# protocol's LITERAL numbers (never read from /repo, never from Lean).
import os
from lib import vf

HARNESS = [vf.PY, os.path.join(vf.ROOT, "harness/py/trxd_harness.py"), vf.TRX]

# ---- protocol literals (TRXD protocol / property text) ------------------------------------
HYPERFRAME = 2715648                       # FN 0..2715647
FN_R = (0, 2715647)
TN_R = (0, 7)
PWR_R = (0, 255)
RSSI_R = (-120, -47)
TOA_R = (-32768, 32767)
CI_R = (-1280, 1280)
TSC_R = (0, 7)
VERSIONS = (0, 1)
MODS = {                                   # name: (coding, burst length)
    "ModGMSK": (0b0000, 148), "Mod8PSK": (0b0100, 444), "ModGMSK_AB": (0b0110, 148),
    "Mod16QAM": (0b1000, 592), "Mod32QAM": (0b1010, 740), "ModAQPSK": (0b1100, 296),
}
MOD_NAMES = list(MODS)
BURST_LENS = [0, 147, 148, 149, 296, 444, 445, 592, 740]
BAD_VERSIONS = [2, 15, 16, -1]


def bounds(r):
    lo, hi = r
    return [lo - 1, lo, lo + 1, hi - 1, hi, hi + 1]


def lattice(r):
    """lo-1, lo, lo+1, hi-1, hi, hi+1, None"""
    return bounds(r) + [None]


# ---- text encoding ------------------------------------------------------------------------
def s(v):
    return "-" if v is None else str(v)


def enc_octets(b):
    """canonical octet string (same as the harness / driver answers)"""
    b = bytes(b)
    if not b:
        return "."
    segs, cur, i, n = [], bytearray(), 0, len(b)
    while i < n:
        j = i
        while j < n and b[j] == b[i]:
            j += 1
        if j - i >= 8:
            if cur:
                segs.append(cur.hex())
                cur = bytearray()
            segs.append("*%d:%02x" % (j - i, b[i]))
        else:
            cur += b[i:j]
        i = j
    if cur:
        segs.append(cur.hex())
    return ",".join(segs)


def dec_octets(t):
    if t == ".":
        return b""
    out = b""
    for seg in t.split(","):
        if seg.startswith("*"):
            n, x = seg[1:].split(":")
            out += bytes([int(x, 16)]) * int(n)
        else:
            out += bytes.fromhex(seg)
    return out


class Tx:
    """plain record of a TxMsg; burst = None | bytes"""
    __slots__ = ("ver", "fn", "tn", "pwr", "burst")

    def __init__(self, ver=0, fn=None, tn=None, pwr=None, burst=None):
        self.ver, self.fn, self.tn, self.pwr, self.burst = ver, fn, tn, pwr, burst

    def line(self):
        return " ".join([s(self.ver), s(self.fn), s(self.tn), s(self.pwr),
                         "-" if self.burst is None else enc_octets(self.burst)])

    def copy(self, **kw):
        m = Tx(self.ver, self.fn, self.tn, self.pwr, self.burst)
        for k, v in kw.items():
            setattr(m, k, v)
        return m

    def asdict(self):
        return {"class": "TxMsg", "ver": self.ver, "fn": self.fn, "tn": self.tn, "pwr": self.pwr,
                "burst_len": None if self.burst is None else len(self.burst), "line": self.line()[:400]}


class Rx:
    """plain record of an RxMsg; burst = None | bytes (octets of the array('b')); mod = name | None"""
    __slots__ = ("ver", "fn", "tn", "rssi", "toa", "mod", "nope", "tset", "tsc", "ci", "burst")

    def __init__(self, ver=0, fn=None, tn=None, rssi=None, toa=None, mod="ModGMSK", nope=False,
                 tset=None, tsc=None, ci=None, burst=None):
        self.ver, self.fn, self.tn, self.rssi, self.toa = ver, fn, tn, rssi, toa
        self.mod, self.nope, self.tset, self.tsc, self.ci, self.burst = mod, nope, tset, tsc, ci, burst

    def line(self):
        return " ".join([s(self.ver), s(self.fn), s(self.tn), s(self.rssi), s(self.toa), s(self.mod),
                         "1" if self.nope else "0", s(self.tset), s(self.tsc), s(self.ci),
                         "-" if self.burst is None else enc_octets(self.burst)])

    def copy(self, **kw):
        m = Rx(self.ver, self.fn, self.tn, self.rssi, self.toa, self.mod, self.nope, self.tset,
               self.tsc, self.ci, self.burst)
        for k, v in kw.items():
            setattr(m, k, v)
        return m

    def asdict(self):
        return {"class": "RxMsg", "ver": self.ver, "fn": self.fn, "tn": self.tn, "rssi": self.rssi,
                "toa256": self.toa, "mod": self.mod, "nope": self.nope, "tsc_set": self.tset,
                "tsc": self.tsc, "ci": self.ci,
                "burst_len": None if self.burst is None else len(self.burst), "line": self.line()[:400]}


def parse_tx_answer(a):
    """'ok ver fn tn pwr burst' -> Tx | None (exception)"""
    t = a.split()
    if t[0] != "ok":
        return None
    o = lambda x: None if x == "-" else int(x)
    return Tx(int(t[1]), o(t[2]), o(t[3]), o(t[4]), None if t[5] == "-" else dec_octets(t[5]))


def parse_rx_answer(a):
    t = a.split()
    if t[0] != "ok":
        return None
    o = lambda x: None if x == "-" else int(x)
    return Rx(int(t[1]), o(t[2]), o(t[3]), o(t[4]), o(t[5]), None if t[6] == "-" else t[6], t[7] == "1",
              o(t[8]), o(t[9]), o(t[10]), None if t[11] == "-" else dec_octets(t[11]))


# ---- the property's ranges, literally (C13) -------------------------------------------------
def inr(v, r):
    return v is not None and r[0] <= v <= r[1]


def in_range_tx(m):
    return (m.ver in VERSIONS and inr(m.fn, FN_R) and inr(m.tn, TN_R) and inr(m.pwr, PWR_R)
            and m.burst is not None and len(m.burst) in (148, 444))


def in_range_rx(m):
    if not (m.ver in VERSIONS and inr(m.fn, FN_R) and inr(m.tn, TN_R) and inr(m.rssi, RSSI_R)
            and inr(m.toa, TOA_R)):
        return False
    if m.ver == 0:
        return m.burst is not None and len(m.burst) in (148, 444)
    if not inr(m.ci, CI_R):
        return False
    if m.nope:
        return m.burst is None
    if m.mod is None:
        return False
    if not inr(m.tset, (0, 3) if m.mod == "ModGMSK" else (0, 1)):
        return False
    if not inr(m.tsc, TSC_R):
        return False
    return m.burst is not None and len(m.burst) == MODS[m.mod][1]


# ---- what a decoded message must equal (C01): the fields the header version transports --------
def carried_tx(m):
    return m.copy()


def carried_rx(m):
    """expected RxMsg().parse_msg(m.gen_msg()) for a valid m.  Fields the version does not carry are
    those of a fresh RxMsg (tsc_set/tsc/ci None, nope False); v0 guesses the modulation from the
    burst length (148 -> ModGMSK, 444 -> Mod8PSK); NOPE carries neither modulation nor TSC."""
    if m.ver == 0:
        return m.copy(mod={148: "ModGMSK", 444: "Mod8PSK"}[len(m.burst)], nope=False, tset=None, tsc=None, ci=None)
    if m.nope:
        return m.copy(mod=None, tset=None, tsc=None, burst=None)
    return m.copy()


def same_tx(a, b):
    return a is not None and b is not None and a.line() == b.line()


same_rx = same_tx


# ---- generators ---------------------------------------------------------------------------------
def const_burst(n, x=0):
    return bytes([x]) * n


def rand_hard_bits(rng, n):
    return bytes(rng.getrandbits(1) for _ in range(n))


def rand_soft_bits(rng, n, full=False):
    """octets of soft bits in [-127,127] (full: any signed char, incl. -128)"""
    if full:
        return bytes(rng.randrange(256) for _ in range(n))
    return bytes((rng.randint(-127, 127)) & 0xff for _ in range(n))


def pick_val(rng, r, p_edge=0.5):
    if rng.random() < p_edge:
        return rng.choice([r[0], r[0] + 1, r[1] - 1, r[1]])
    return rng.randint(r[0], r[1])


def rand_valid_tx(rng, ver=None, blen=None, hard=True):
    ver = rng.choice(VERSIONS) if ver is None else ver
    blen = rng.choice([148, 444]) if blen is None else blen
    burst = rand_hard_bits(rng, blen) if hard else bytes(rng.randrange(256) for _ in range(blen))
    return Tx(ver, pick_val(rng, FN_R), pick_val(rng, TN_R), pick_val(rng, PWR_R), burst)


def rand_valid_rx(rng, ver=None, mod=None, nope=None, full_soft=False):
    ver = rng.choice(VERSIONS) if ver is None else ver
    m = Rx(ver, pick_val(rng, FN_R), pick_val(rng, TN_R), pick_val(rng, RSSI_R), pick_val(rng, TOA_R))
    if ver == 0:
        blen = rng.choice([148, 444]) if mod is None else MODS[mod][1]
        # fields a v0 header does not carry may hold anything
        m.mod = rng.choice(MOD_NAMES + [None])
        m.nope = rng.random() < 0.2
        m.tset = rng.choice([None, 0, 1, 5])
        m.tsc = rng.choice([None, 0, 7, 9])
        m.ci = rng.choice([None, 0, -1280, 5000])
        m.burst = rand_soft_bits(rng, blen, full_soft)
        return m
    m.ci = pick_val(rng, CI_R)
    m.nope = (rng.random() < 0.2) if nope is None else nope
    if m.nope:
        m.mod = rng.choice(MOD_NAMES + [None])
        m.tset = rng.choice([None, 0, 3, 9])
        m.tsc = rng.choice([None, 0, 7, -1])
        m.burst = None
        return m
    m.mod = rng.choice(MOD_NAMES) if mod is None else mod
    m.tset = rng.randint(0, 3 if m.mod == "ModGMSK" else 1)
    m.tsc = rng.randint(0, 7)
    m.burst = rand_soft_bits(rng, MODS[m.mod][1], full_soft)
    return m


def nominal_tx(ver=0, blen=148):
    return Tx(ver, 1234567, 3, 10, const_burst(blen, 1))


def nominal_rx(ver=1, mod="ModGMSK", nope=False, blen=None):
    blen = MODS[mod][1] if (blen is None and mod is not None) else blen
    return Rx(ver, 1234567, 3, -60, 100, mod, nope, 0, 5, 77,
              None if blen is None else const_burst(blen, 0x7f))


def burst_choices():
    """None and every length of BURST_LENS"""
    return [None] + [const_burst(n, 1) for n in BURST_LENS]


def tx_lattice():
    """complete boundary lattice of TxMsg: every field at lo-1, lo, lo+1, hi-1, hi, hi+1, None,
    x every version (known and unknown) x every burst length / None   (full product)"""
    out = []
    for ver in list(VERSIONS) + BAD_VERSIONS:
        for fn in lattice(FN_R):
            for tn in lattice(TN_R):
                for pwr in lattice(PWR_R):
                    for b in burst_choices():
                        out.append(Tx(ver, fn, tn, pwr, b))
    return out


RX_NUM_FIELDS = [("fn", FN_R), ("tn", TN_R), ("rssi", RSSI_R), ("toa", TOA_R), ("ci", CI_R),
                 ("tsc", TSC_R), ("tset", (0, 3)), ("tset", (0, 1))]


def rx_lattice(rng=None, pairs=0):
    """boundary lattice of RxMsg: the structural dimensions (version incl. unknown ones x modulation
    incl. None x NOPE x burst None/length) as a full product; in every such cell each numeric field
    in turn takes lo-1, lo, lo+1, hi-1, hi, hi+1, None while the others are nominal; plus (pairs > 0)
    seeded cells in which two numeric fields are off-nominal together."""
    out = []
    seen = set()

    def add(m):
        k = m.line()
        if k not in seen:
            seen.add(k)
            out.append(m)
    for ver in list(VERSIONS) + BAD_VERSIONS:
        for mod in MOD_NAMES + [None]:
            for nope in (False, True):
                for b in [None] + [const_burst(n, 0x7f) for n in BURST_LENS]:
                    base = Rx(ver, 1234567, 3, -60, 100, mod, nope, 0, 5, 77, b)
                    add(base)
                    for f, r in RX_NUM_FIELDS:
                        for v in lattice(r):
                            add(base.copy(**{f: v}))
    if rng is not None:
        for _ in range(pairs):
            ver = rng.choice(list(VERSIONS) * 3 + BAD_VERSIONS)
            mod = rng.choice(MOD_NAMES + [None])
            nope = rng.random() < 0.25
            if rng.random() < 0.7 and mod is not None and not nope:
                b = const_burst(MODS[mod][1] if ver != 0 else rng.choice([148, 444]), 0x81)
            else:
                b = rng.choice([None] + [const_burst(n, 0x81) for n in BURST_LENS])
            m = Rx(ver, 5, 0, -47, -32768, mod, nope, 1, 0, -1280, b)
            for f, r in rng.sample(RX_NUM_FIELDS, 2):
                setattr(m, f, rng.choice(lattice(r)))
            add(m)
    return out


def mutate_bytes(rng, b):
    """one random mutation of an octet string: truncate, extend, flip, set version nibble, set MTS"""
    b = bytearray(b)
    k = rng.randrange(7)
    if k == 0 and len(b):
        del b[rng.randrange(len(b)):]
    elif k == 1:
        b += bytes(rng.randrange(256) for _ in range(rng.choice([1, 2, 3, 148, 150])))
    elif k == 2 and len(b):
        i = rng.randrange(len(b))
        b[i] ^= 1 << rng.randrange(8)
    elif k == 3 and len(b):
        b[0] = (rng.choice([0, 1, 1, 2, 15]) << 4) | (b[0] & 0x0f)
    elif k == 4 and len(b) > 8:
        b[8] = rng.randrange(256)
    elif k == 5 and len(b):
        i = rng.randrange(min(len(b), 12))
        b[i] = rng.choice([0, 1, 0x7f, 0x80, 0xff])
    else:
        n = rng.choice([0, 1, 4, 5, 6, 7, 8, 9, 10, 11, 12, 148 + 6, 148 + 8, 148 + 11, 444 + 11])
        b = b[:n] if len(b) >= n else b + bytes(n - len(b))
    return bytes(b)


def rand_bytes(rng):
    """arbitrary octet string with a plausible length"""
    hl = rng.choice([6, 8, 11])
    n = rng.choice([0, 1, 2, 3, 4, 5, 6, 7, 8, 9, 10, 11, 12, hl + 146, hl + 147, hl + 148, hl + 149, hl + 150,
                    hl + 151, hl + 296, hl + 298, hl + 443, hl + 444, hl + 445, hl + 446, hl + 447, hl + 592,
                    hl + 594, hl + 740, hl + 742, hl + 741, rng.randrange(0, 800)])
    b = bytearray(rng.randrange(256) for _ in range(n))
    if n and rng.random() < 0.8:
        b[0] = (rng.choice([0, 0, 1, 1, 1, 2, 15]) << 4) | rng.randrange(16)
    return bytes(b)


# ---- valid messages on the boundary lattice (C01, C04, C15) ---------------------------------------
def valid_values(r):
    lo, hi = r
    return [lo, lo + 1, (lo + hi) // 2, hi - 1, hi]


def pattern_soft(n, k, c):
    """n soft-bit octets walking through -127..127 with step k from offset c (covers every table entry)"""
    return bytes(((((i * k + c) % 255) - 127) & 0xff) for i in range(n))


def soft_burst(rng, n):
    r = rng.random()
    if r < 0.25:
        return pattern_soft(n, rng.choice([1, 2, 7, 254]), rng.randrange(255))
    if r < 0.35:
        return bytes([rng.choice([0x81, 0x7f, 0x00, 0x01, 0xff])]) * n      # -127, 127, 0, 1, -1
    return rand_soft_bits(rng, n)


def hard_burst(rng, n):
    r = rng.random()
    if r < 0.1:
        return bytes([rng.choice([0, 1])]) * n
    if r < 0.2:
        return bytes(rng.randrange(256) for _ in range(n))      # any octets: copied as is
    return rand_hard_bits(rng, n)


def valid_lattice_tx(rng):
    """every version x burst length x each field at lo, lo+1, mid, hi-1, hi (others seeded valid)"""
    out = []
    for ver in VERSIONS:
        for blen in (148, 444):
            for f, r in (("fn", FN_R), ("tn", TN_R), ("pwr", PWR_R)):
                for v in valid_values(r):
                    m = rand_valid_tx(rng, ver, blen)
                    m.burst = hard_burst(rng, blen)
                    setattr(m, f, v)
                    out.append(m)
    return out


def valid_lattice_rx(rng):
    """every version x modulation (v1) / burst length (v0) x NOPE (v1) x each transported field at
    lo, lo+1, mid, hi-1, hi, every TSC set and TSC (others seeded valid)"""
    out = []
    num = [("fn", FN_R), ("tn", TN_R), ("rssi", RSSI_R), ("toa", TOA_R)]
    for blen in (148, 444):
        for f, r in num:
            for v in valid_values(r) + ([0, -1, 255, 256, -256] if f == "toa" else []):
                m = rand_valid_rx(rng, 0, "ModGMSK" if blen == 148 else "Mod8PSK")
                m.burst = soft_burst(rng, blen)
                setattr(m, f, v)
                out.append(m)
    for mod in MOD_NAMES:
        for f, r in num + [("ci", CI_R), ("tsc", TSC_R), ("tset", (0, 3) if mod == "ModGMSK" else (0, 1))]:
            vals = list(range(r[0], r[1] + 1)) if f in ("tsc", "tset") else valid_values(r)
            if f in ("toa", "ci"):
                vals += [0, -1, 255, 256, -256]
            for v in vals:
                m = rand_valid_rx(rng, 1, mod, False)
                m.burst = soft_burst(rng, MODS[mod][1])
                setattr(m, f, v)
                out.append(m)
    for f, r in num + [("ci", CI_R)]:
        for v in valid_values(r):
            m = rand_valid_rx(rng, 1, None, True)
            setattr(m, f, v)
            out.append(m)
    return out


# ---- the TRXD octet layout, literally from the protocol description (C04 oracle) --------------------
def be32(n):
    return bytes([(n >> 24) & 0xff, (n >> 16) & 0xff, (n >> 8) & 0xff, n & 0xff])


def s16be(x):
    u = x % 65536
    return bytes([u >> 8, u & 0xff])


def layout_tx(m, legacy):
    """octets the layout prescribes for a valid Tx record"""
    return bytes([16 * m.ver + m.tn]) + be32(m.fn) + bytes([m.pwr]) + bytes(m.burst) + \
        (b"\x00\x00" if (legacy and m.ver == 0) else b"")


def layout_rx(m, legacy):
    """octets the layout prescribes for a valid Rx record (burst = octets of the signed soft bits)"""
    out = bytes([16 * m.ver + m.tn]) + be32(m.fn) + bytes([-m.rssi]) + s16be(m.toa)
    if m.ver == 1:
        if m.nope:
            out += bytes([0x80])
        else:
            out += bytes([8 * (MODS[m.mod][0] + m.tset) + m.tsc])
        out += s16be(m.ci)
    if m.burst is not None:
        out += bytes((127 - (b - 256 if b >= 128 else b)) & 0xff for b in m.burst)
    return out + (b"\x00\x00" if (legacy and m.ver == 0) else b"")
