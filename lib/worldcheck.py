# Shared machinery of the fake_trx "world" properties (C02 C03 C05 C10 C12 C18, toolkit half of C14):
#   gen()         translators for every Gen file the world model imports
#   correspond()  real FakeTRX world (harness/py/world_harness.py) vs Lean world model (driver)
#   search()      property oracle: lib/worldspec.py reference (written from the property texts) judges
#                 the real code's observations on clean histories; discrepancies are shrunk to a minimal
#                 operation sequence and reported as witnesses
import json, os, random
from lib import vf, worldgen, worldspec
from gen import gsm_consts, py_unicode, trxd_consts, hopping, world as world_gen

HARNESS = os.path.join(vf.ROOT, "harness/py/world_harness.py")
LEAN_MODEL_MODULES = ["OsmoVerif.Model.World", "OsmoVerif.Model.PyStr", "OsmoVerif.Model.Trxd", "OsmoVerif.Model.Hopping"]
DRIVER_MODULES = ["World"]
ASSUMPTIONS = [
    "theorems are about OsmoVerif.Model.World (hand model of transceiver.py, fake_trx.py, burst_fwd.py, trx_list.py, ctrl_if.py, ctrl_if_trx.py, data_if.py, fake_pm.py, clck_gen.send_clck_ind/start/stop, TrainingSeqGMSK.pick), Model.PyStr (str/bytes/int() semantics), Model.Trxd, Model.Hopping",
    "tie: the real objects are driven in-process, wired by the real Application.append_trx/append_child_trx; replaced from outside: udp_link.socket (in-memory datagram log), clck_gen.threading.Thread (inert), random.randint (deterministic draw shared with the model), time.sleep; Application.__init__'s literal wiring is read with ast (harness/py/appinit.py)",
    "modelled, not verified: UDP delivery and the select loop, OS thread scheduling (clock thread vs socket thread) below the granularity of whole operations, time.sleep of FAKE_TRXC_DELAY, logging",
    "constants and tables (FakeTRX defaults, FakePM ranges, receive sizes, training sequences, str.strip()/int() character classes, TRXD bounds and tables, RNTABLE) are regenerated from the tree / interpreter on every run",
]


def gen(run):
    gsm_consts.generate(run)
    py_unicode.generate(run)
    trxd_consts.generate(run)
    hopping.generate(run)
    run.world_consts = world_gen.generate(run)


def train(run):
    if not hasattr(run, "world_consts"):
        run.world_consts = world_gen.generate(run)
    return run.world_consts["train_seqs"]


def run_impl(lines, traced=False):
    env = {"WORLD_TRACE": "1"} if traced else None
    return vf.run_lines([vf.PY, HARNESS, vf.TRX], lines, env=env)


def drift(run):
    for f, names in (("transceiver.py", ["Transceiver"]), ("fake_trx.py", ["FakeTRX", "append_trx", "append_child_trx", "clck_handler"]),
                     ("burst_fwd.py", ["BurstForwarder"]), ("ctrl_if.py", ["CTRLInterface"]), ("ctrl_if_trx.py", ["CTRLInterfaceTRX"]),
                     ("data_if.py", ["DATAInterface"]), ("fake_pm.py", ["FakePM"]), ("trx_list.py", ["TRXList"])):
        try:
            run.drift[f] = vf.src_hash_py(os.path.join(vf.TRX, f), names)
        except Exception as e:
            run.drift[f] = "unreadable: %s" % e


def correspond(run, corr, profiles, n_quick, n_thorough):
    """model vs implementation on generated histories of the given profiles"""
    drift(run)
    n = run.scale(n_quick, n_thorough)
    g = worldgen.Gen(run.rng, train(run))
    lines = []
    for k in range(n):
        prof = profiles[k % len(profiles)]
        lines.append(g.history(run.rng.choice([8, 20, 40, 60]), prof))
    impl = run_impl(lines)
    model = vf.run_driver(lines)
    for l, a, b in zip(lines, impl, model):
        nops = l.count(" ; ") + 1
        corr.count(hash(l), "histories")
        corr.distribution["operations"] = corr.distribution.get("operations", 0) + nops
        if a != b and len(corr.disagreements) < 20:
            corr.disagreements.append({"request": l, "impl": a, "model": b, "first_diff": first_diff(l, a, b)})
        if a.startswith("cfgerr"):
            corr.distribution["config-error"] = corr.distribution.get("config-error", 0) + 1
        else:
            o = a.split(" | ")[0]
            for key, tag in (("EXC:", "ops ending in an exception"), ("stale:", "ticks reporting stale bursts"), ("52535020", "control replies")):
                corr.distribution[tag] = corr.distribution.get(tag, 0) + o.count(key)
            corr.distribution["datagrams on DATA sockets"] = corr.distribution.get("datagrams on DATA sockets", 0) + \
                sum(1 for it in o.replace(" ; ", ",").split(",") if ">" in it and not it.split(":")[-1].startswith(("52535020", "494e4420")))
    corr.rule = ("a case is one generated world history (configuration of 2..6 transceivers + 8..60 operations: control datagrams "
                 "incl. malformed ones, data datagrams, ticks, clock jumps; profiles %s); every emitted datagram, stale report, escaping "
                 "exception, the port plan and the final state of every transceiver are compared between the real code and the Lean model; "
                 "distinct = distinct history line" % (profiles,))
    corr.samples += [{"request": l[:600], "impl": a[:400]} for l, a in list(zip(lines, impl))[:3]]
    return lines


def first_diff(line, a, b):
    try:
        ops = [o.strip() for o in line.split(" | ", 1)[1].split(" ; ")]
        oa, ob = a.split(" | ")[0].split(" ; "), b.split(" | ")[0].split(" ; ")
        for k, (x, y) in enumerate(zip(oa, ob)):
            if x != y:
                return {"op_index": k, "op": ops[k][:200], "impl": x[:300], "model": y[:300]}
        return {"state": True, "impl": a.split(" | ", 1)[-1][-400:], "model": b.split(" | ", 1)[-1][-400:]}
    except Exception:
        return None


def judge(run, lines, prop, answers=None):
    """-> list of (line, discrepancy) for `prop` on the real code"""
    if answers is None:
        answers = run_impl(lines, traced=True)
    out = []
    for l, a in zip(lines, answers):
        ds = [d for d in worldspec.judge_line(l, a, train(run), {prop}, traced=True) if d["prop"] == prop]
        if ds:
            out.append((l, ds[0]))
    return out


def shrink(run, line, prop, rounds=12):
    """delta-debug the op list of a failing history (keeps the configuration)"""
    head, ops = line.split(" | ", 1)
    ops = ops.split(" ; ")
    for _ in range(rounds):
        if len(ops) <= 1:
            break
        size = max(1, len(ops) // 4)
        cands = []
        for start in range(0, len(ops), size):
            c = ops[:start] + ops[start + size:]
            if c:
                cands.append(c)
        if size > 1:
            cands += [ops[:k] + ops[k + 1:] for k in range(len(ops))][:40]
        lines = [head + " | " + " ; ".join(c) for c in cands]
        bad = judge(run, lines, prop)
        if not bad:
            if size == 1:
                break
            cands = [ops[:k] + ops[k + 1:] for k in range(len(ops))]
            lines = [head + " | " + " ; ".join(c) for c in cands]
            bad = judge(run, lines, prop)
            if not bad:
                break
        best = min(bad, key=lambda x: len(x[0]))
        ops = best[0].split(" | ", 1)[1].split(" ; ")
    final = head + " | " + " ; ".join(ops)
    j = judge(run, [final], prop)
    return (final, j[0][1]) if j else (line, None)


def describe(line):
    """human-readable rendering of a history (commands as text)"""
    head, ops = line.split(" | ", 1)
    out = []
    for o in ops.split(" ; "):
        t = o.split()
        if t and t[0] == "C":
            try:
                txt = bytes.fromhex(t[3]).decode("latin1") if t[3] != "-" else ""
            except ValueError:
                txt = t[3]
            out.append("ctrl->trx%s from port %s: %r" % (t[1], t[2], txt))
        elif t and t[0] == "D":
            d = bytes.fromhex(t[2]) if t[2] != "-" else b""
            out.append("data->trx%s: ver=%d tn=%d fn=%d pwr=%s bits=%d" % (
                t[1], d[0] >> 4 if d else -1, d[0] & 7 if d else -1, int.from_bytes(d[1:5], "big") if len(d) >= 5 else -1,
                d[5] if len(d) > 5 else None, max(0, len(d) - 6)))
        else:
            out.append(o)
    return {"config": head, "ops": out}


def oracle(run, corr, deep, prop, profiles, n_quick, n_thorough, extra_lines=()):
    """property oracle on the real code; returns number of new witnesses"""
    n = run.scale(n_quick, n_thorough) * (4 if deep else 1)
    g = worldgen.Gen(random.Random(run.seed * 7919 + 13), train(run), clean=True)
    lines = list(extra_lines)
    for k in range(n):
        lines.append(g.history(run.rng.choice([10, 25, 50]), profiles[k % len(profiles)]))
    worldspec.STATS.clear()
    bad = judge(run, lines, prop)
    st = dict(worldspec.STATS)
    corr.distribution["oracle(%s): clean histories judged" % prop] = len(lines)
    for k in ("tick:expected-burst", "tick:expected-nope", "tick:expected-ind", "tick:stale", "data:accepted", "data:not-accepted"):
        corr.distribution["oracle: " + k] = st.get(k, 0)
    corr.distribution["oracle: control replies judged"] = sum(v for k, v in st.items() if k.startswith("ctrl:"))
    corr.distribution["oracle: distinct (verb,status) pairs"] = len([k for k in st if k.startswith("ctrl:")])
    found = 0
    seen = set()
    for l, d in bad[:6]:
        key = (d["what"],)
        if key in seen:
            continue
        seen.add(key)
        small, dd = shrink(run, l, prop)
        dd = dd or d
        w = {"kind": "world-history", "property": prop, "what": dd["what"], "expected": dd.get("expected"),
             "observed": dd.get("observed"), "op_index": dd.get("op_index"), "history": small, "readable": describe(small)}
        found += run.report_witness(w)
    return found


def replay(run, path, prop):
    rp = json.load(open(path))
    bad = 0
    for v in rp.get("violations", []):
        w = v.get("witness")
        if not w or "history" not in w:
            print("replay: no concrete input recorded: %s" % json.dumps(v.get("broken"))[:500])
            continue
        j = judge(run, [w["history"]], prop)
        print("replay %s: %s" % (prop, json.dumps(describe(w["history"]))[:1500]))
        if j:
            print("  still fails: %s expected=%s observed=%s" % (j[0][1]["what"], j[0][1].get("expected"), j[0][1].get("observed")))
            bad += 1
        else:
            print("  passes now")
    if bad:
        print("VIOLATION property=%s replay=%s" % (prop, path))
    return 1 if bad else 0
