# Shared machinery of the fake_trx "world" properties (C02 C03 C05 C10 C12 C18, toolkit half of C14):
#   gen()         translators for every Gen file the world model imports
#   correspond()  real FakeTRX world (harness/py/world_harness.py) vs Lean world model (driver)
#   search()      property oracle: lib/worldspec.py reference (written from the property texts) judges
#                 the real code's observations on clean histories; discrepancies are shrunk to a minimal
#                 operation sequence and reported as witnesses
import json, os, random, re
from lib import vf, worldgen, worldspec
from gen import gsm_consts, py_unicode, trxd_consts, hopping, world as world_gen

HARNESS = os.path.join(vf.ROOT, "harness/py/world_harness.py")
LEAN_MODEL_MODULES = ["OsmoVerif.Model.World", "OsmoVerif.Model.PyStr", "OsmoVerif.Model.Trxd", "OsmoVerif.Model.Hopping"]
DRIVER_MODULES = ["World"]
ASSUMPTIONS = [
    "theorems are about OsmoVerif.Model.World (hand model of transceiver.py, fake_trx.py, burst_fwd.py, trx_list.py, ctrl_if.py, ctrl_if_trx.py, data_if.py, fake_pm.py, clck_gen.send_clck_ind/start/stop, TrainingSeqGMSK.pick), Model.PyStr (str/bytes/int() semantics), Model.Trxd, Model.Hopping",
    "tie: the real objects are driven in-process, created and wired by the REAL Application.__init__ from a command line (-R/-r/-P/-p/--trx); replaced from outside: udp_link.socket (in-memory datagram log), signal/banner/logging set-up, clck_gen.threading (the real CLCKGen._worker loop runs in lock step in its own OS thread: one iteration per tick operation), clck_gen.time (constant), random.randint (deterministic draw shared with the model), time.sleep; the constants of the wiring the model needs (FakePM ranges, child management of BTS/MS, receive sizes, indication period) are observed on a world built that way (gen/world.py), not pattern-matched in the source",
    "modelled, not verified: UDP delivery and the select loop, OS thread scheduling (clock thread vs socket thread) below the granularity of whole operations, time.sleep of FAKE_TRXC_DELAY, logging",
    "constants and tables (FakeTRX defaults, FakePM ranges, receive sizes, training sequences, str.strip()/int() character classes, TRXD bounds and tables, RNTABLE) are regenerated from the tree / interpreter on every run",
]


def gen(run):
    gsm_consts.generate(run)
    py_unicode.generate(run)
    trxd_consts.generate(run)
    hopping.generate(run)
    run.world_consts = world_gen.generate(run)


def train(run):
    if not hasattr(run, "world_consts"):
        run.world_consts = world_gen.generate(run)
    return run.world_consts["train_seqs"]


def run_impl(lines, traced=False):
    env = {"WORLD_TRACE": "1"} if traced else None
    return vf.run_lines([vf.PY, HARNESS, vf.TRX], lines, env=env)


def drift(run):
    for f, names in (("transceiver.py", ["Transceiver"]), ("fake_trx.py", ["FakeTRX", "append_trx", "append_child_trx", "clck_handler"]),
                     ("burst_fwd.py", ["BurstForwarder"]), ("ctrl_if.py", ["CTRLInterface"]), ("ctrl_if_trx.py", ["CTRLInterfaceTRX"]),
                     ("data_if.py", ["DATAInterface"]), ("fake_pm.py", ["FakePM"]), ("trx_list.py", ["TRXList"])):
        try:
            run.drift[f] = vf.src_hash_py(os.path.join(vf.TRX, f), names)
        except Exception as e:
            run.drift[f] = "unreadable: %s" % e


UNOBS = re.compile(r"(?<![^ ])(m|ta|p|toa|rssi|ci|drop|dly)\?(?![^ ])")


def mask_unobserved(impl_answer, model_answer):
    """a group of the state dump the harness could not read in this tree (`drop?`: the attributes live elsewhere) is masked in
    the model's answer as well; what the group drives (emitted datagrams, replies) is still compared"""
    groups = set(UNOBS.findall(impl_answer))
    if not groups:
        return model_answer
    for g in groups:
        model_answer = re.sub(r"(?<![^ ])%s-?[0-9N][^ ]*" % g, g + "?", model_answer)
    return model_answer


FORMS = {"POWERON": (0,), "POWEROFF": (0,), "RXTUNE": (1,), "TXTUNE": (1,), "MEASURE": (1,), "SETFORMAT": (1,), "SETPOWER": (1,),
         "NOMTXPOWER": (0,), "RFMUTE": (1,), "SETTA": (1,), "FAKE_TOA": (1, 2), "FAKE_RSSI": (1, 2), "FAKE_CI": (1, 2),
         "FAKE_DROP": (1, 2), "FAKE_TRXC_DELAY": (1,)}


def has_undocumented_form(line, upto=None):
    """does the history send a KNOWN command verb with a number of arguments no documented form of it has (e.g. `RFMUTE 1 2 3`)?
    How such a datagram is answered is C05's subject (and C14's: no crash); the other properties of the world model
    quantify over the documented forms, so for them such a history is outside the domain (still run and compared: evidence)"""
    ops = line.split(" | ", 1)[-1].split(" ; ")
    for op in (ops if upto is None else ops[:upto + 1]):
        t = op.split()
        if len(t) == 4 and t[0] == "C":
            try:
                txt = bytes.fromhex(t[3]).decode()
            except (ValueError, UnicodeDecodeError):
                continue
            if not txt.startswith("CMD "):
                continue
            # the toolkit's own tokenisation (ctrl_if.py): data[4:].strip().strip("\0").split(" ")
            req = txt[4:].strip().strip("\0").split(" ")
            if req[0] in FORMS and (len(req) - 1) not in FORMS[req[0]]:
                return True
    return False


def documented_forms_until_divergence(line, impl_answer, model_answer):
    """inside the domain of the world properties other than C05/C14: no command of an undocumented form was sent up to (and
    including) the first operation on which code and model differ - what comes later cannot have caused the difference"""
    try:
        idx = first_diff(line, impl_answer, model_answer).get("op_index")
    except Exception:
        idx = None
    return not has_undocumented_form(line, upto=idx if isinstance(idx, int) else None)


# the commands a property's quantifier speaks about (documented forms only, see FORMS); a property that quantifies over the
# whole simulated radio (C02, C10) names them all
RELEVANT = {
    "C03": {"POWERON", "POWEROFF", "SETFORMAT", "RXTUNE", "TXTUNE", "SETFH"},
    "C12": {"POWERON", "POWEROFF", "RXTUNE", "TXTUNE", "SETFH"},
    "C18": {"FAKE_DROP", "RFMUTE", "SETFORMAT", "POWERON", "POWEROFF", "RXTUNE", "TXTUNE", "SETFH"},
    "C02": set(FORMS) | {"SETFH"},
    "C10": set(FORMS) | {"SETFH"},
}


def valid_tx_dgram(b):
    """a well-formed TRXD Tx datagram: version 0/1, reserved bit clear, TN 0..7, FN of the hyperframe, 148 or 444 hard bits 0/1
    (optionally followed by the two legacy padding octets)"""
    H = 2715648
    if len(b) < 6 or (b[0] >> 4) not in (0, 1) or (b[0] & 0x08):
        return False
    if int.from_bytes(b[1:5], "big") >= H:
        return False
    n = len(b) - 6
    return n in (148, 150, 444, 446) and set(b[6:6 + (148 if n < 444 else 444)]) <= {0, 1}


def has_malformed_burst(line, upto=None):
    ops = line.split(" | ", 1)[-1].split(" ; ")
    for op in (ops if upto is None else ops[:upto + 1]):
        t = op.split()
        if len(t) == 3 and t[0] == "D":
            try:
                if not valid_tx_dgram(bytes.fromhex(t[2]) if t[2] != "-" else b""):
                    return True
            except ValueError:
                return True
    return False


DECIMAL = re.compile(r"[+-]?[0-9]+")


def domain_of(prop):
    """the domain predicate of the correspondence for one of the world properties: a difference between code and model is
    inside the property's domain unless (a) a known verb was sent in an undocumented form up to the first divergence, or
    (b) the FIRST divergence is the reply to a control datagram that is not a documented form of a command the property's
    quantifier speaks about (another verb, an unknown verb, a malformed datagram: C05's and C14's subject).  What such a
    command does to the things the property is about is still judged by the property's oracle on the real code."""
    rel = RELEVANT.get(prop)

    def pred(line, impl_answer, model_answer):
        fd = first_diff(line, impl_answer, model_answer) or {}
        idx = fd.get("op_index")
        # a data datagram that is no well-formed Tx message (up to the divergence): how it is dropped is C14's subject
        if has_malformed_burst(line, upto=idx if isinstance(idx, int) else None):
            return False
        if prop == "C05":
            # C05 speaks about commands whose arguments are written as decimal integers
            if isinstance(idx, int):
                try:
                    t = line.split(" | ", 1)[1].split(" ; ")[idx].split()
                    if len(t) == 4 and t[0] == "C":
                        txt = bytes.fromhex(t[3]).decode()
                        req = txt[4:].strip().strip("\0").split(" ") if txt.startswith("CMD ") else []
                        if req and (req[0] in FORMS or req[0] == "SETFH") and not all(DECIMAL.fullmatch(x) for x in req[1:]):
                            return False
                except (ValueError, UnicodeDecodeError, IndexError):
                    pass
            return True
        if not documented_forms_until_divergence(line, impl_answer, model_answer):
            return False
        if rel is None:
            return True
        if not isinstance(idx, int):
            return True
        try:
            t = line.split(" | ", 1)[1].split(" ; ")[idx].split()
        except IndexError:
            return True
        if not (len(t) == 4 and t[0] == "C"):
            return True                      # a burst, a tick, a clock jump
        try:
            txt = bytes.fromhex(t[3]).decode()
        except (ValueError, UnicodeDecodeError):
            return False                     # not text: a malformed control datagram
        if not txt.startswith("CMD "):
            return False
        req = txt[4:].strip().strip("\0").split(" ")
        if req[0] == "SETFH":
            return "SETFH" in rel
        return req[0] in rel and req[0] in FORMS and (len(req) - 1) in FORMS[req[0]]
    return pred


def correspond(run, corr, profiles, n_quick, n_thorough, in_domain=None):
    """model vs implementation on generated histories of the given profiles"""
    drift(run)
    n = run.scale(n_quick, n_thorough)
    g = worldgen.Gen(run.rng, train(run))
    lines = []
    for k in range(n):
        prof = profiles[k % len(profiles)]
        lines.append(g.history(run.rng.choice([8, 20, 40, 60]), prof))
    # the Lean driver answers the same lines while the real objects are being driven
    from concurrent.futures import ThreadPoolExecutor
    with ThreadPoolExecutor(1) as ex:
        fut = ex.submit(vf.run_driver, lines)
        impl = run_impl(lines)
        model = fut.result()
    model = [mask_unobserved(a, b) for a, b in zip(impl, model)]
    # a configuration both sides refuse is refused: with which exception class / exit path is not compared
    model = [a if (a.startswith("cfgerr") and b.startswith("cfgerr")) else b for a, b in zip(impl, model)]
    nmask = sum(1 for a in impl if UNOBS.search(a))
    if nmask:
        corr.distribution["histories with a state group the harness cannot read in this tree (masked on both sides)"] = nmask
    for l, a, b in zip(lines, impl, model):
        nops = l.count(" ; ") + 1
        corr.count(hash(l), "histories")
        corr.distribution["operations"] = corr.distribution.get("operations", 0) + nops
        if a != b and in_domain is not None and not in_domain(l, a, b):
            corr.outside += 1
            if len(corr.outside_samples) < 5:
                corr.outside_samples.append({"request": l[:300], "impl": a[:200], "model": b[:200]})
        elif a != b and len(corr.disagreements) < 20:
            corr.disagreements.append({"request": l, "impl": a, "model": b, "first_diff": first_diff(l, a, b)})
        if a.startswith("cfgerr"):
            corr.distribution["config-error"] = corr.distribution.get("config-error", 0) + 1
        else:
            o = a.split(" | ")[0]
            for key, tag in (("EXC:", "ops ending in an exception"), ("stale:", "ticks reporting stale bursts"), ("52535020", "control replies")):
                corr.distribution[tag] = corr.distribution.get(tag, 0) + o.count(key)
            corr.distribution["datagrams on DATA sockets"] = corr.distribution.get("datagrams on DATA sockets", 0) + \
                sum(1 for it in o.replace(" ; ", ",").split(",") if ">" in it and not it.split(":")[-1].startswith(("52535020", "494e4420")))
    corr.rule = ("a case is one generated world history (configuration of 2..6 transceivers + 8..60 operations: control datagrams "
                 "incl. malformed ones, data datagrams, ticks, clock jumps; profiles %s); every emitted datagram, stale report, escaping "
                 "exception, the port plan and the final state of every transceiver are compared between the real code and the Lean model; "
                 "distinct = distinct history line" % (profiles,))
    corr.samples += [{"request": l[:600], "impl": a[:400]} for l, a in list(zip(lines, impl))[:3]]
    return lines


def first_diff(line, a, b):
    try:
        ops = [o.strip() for o in line.split(" | ", 1)[1].split(" ; ")]
        oa, ob = a.split(" | ")[0].split(" ; "), b.split(" | ")[0].split(" ; ")
        for k, (x, y) in enumerate(zip(oa, ob)):
            if x != y:
                return {"op_index": k, "op": ops[k][:200], "impl": x[:300], "model": y[:300]}
        return {"state": True, "impl": a.split(" | ", 1)[-1][-400:], "model": b.split(" | ", 1)[-1][-400:]}
    except Exception:
        return None


def judge(run, lines, prop, answers=None):
    """-> list of (line, discrepancy) for `prop` on the real code"""
    if answers is None:
        answers = run_impl(lines, traced=True)
    out = []
    for l, a in zip(lines, answers):
        ds = [d for d in worldspec.judge_line(l, a, train(run), {prop}, traced=True) if d["prop"] == prop]
        if ds:
            out.append((l, ds[0]))
    return out


def shrink(run, line, prop, rounds=12):
    """delta-debug the op list of a failing history (keeps the configuration)"""
    head, ops = line.split(" | ", 1)
    ops = ops.split(" ; ")
    for _ in range(rounds):
        if len(ops) <= 1:
            break
        size = max(1, len(ops) // 4)
        cands = []
        for start in range(0, len(ops), size):
            c = ops[:start] + ops[start + size:]
            if c:
                cands.append(c)
        if size > 1:
            cands += [ops[:k] + ops[k + 1:] for k in range(len(ops))][:40]
        lines = [head + " | " + " ; ".join(c) for c in cands]
        bad = judge(run, lines, prop)
        if not bad:
            if size == 1:
                break
            cands = [ops[:k] + ops[k + 1:] for k in range(len(ops))]
            lines = [head + " | " + " ; ".join(c) for c in cands]
            bad = judge(run, lines, prop)
            if not bad:
                break
        best = min(bad, key=lambda x: len(x[0]))
        ops = best[0].split(" | ", 1)[1].split(" ; ")
    final = head + " | " + " ; ".join(ops)
    j = judge(run, [final], prop)
    return (final, j[0][1]) if j else (line, None)


def describe(line):
    """human-readable rendering of a history (commands as text)"""
    head, ops = line.split(" | ", 1)
    out = []
    for o in ops.split(" ; "):
        t = o.split()
        if t and t[0] == "C":
            try:
                txt = bytes.fromhex(t[3]).decode("latin1") if t[3] != "-" else ""
            except ValueError:
                txt = t[3]
            out.append("ctrl->trx%s from port %s: %r" % (t[1], t[2], txt))
        elif t and t[0] == "D":
            d = bytes.fromhex(t[2]) if t[2] != "-" else b""
            out.append("data->trx%s: ver=%d tn=%d fn=%d pwr=%s bits=%d" % (
                t[1], d[0] >> 4 if d else -1, d[0] & 7 if d else -1, int.from_bytes(d[1:5], "big") if len(d) >= 5 else -1,
                d[5] if len(d) > 5 else None, max(0, len(d) - 6)))
        else:
            out.append(o)
    return {"config": head, "ops": out}


def oracle(run, corr, deep, prop, profiles, n_quick, n_thorough, extra_lines=()):
    """property oracle on the real code; returns number of new witnesses"""
    n = run.scale(n_quick, n_thorough) * (4 if deep else 1)
    g = worldgen.Gen(random.Random(run.seed * 7919 + 13), train(run), clean=True)
    lines = list(extra_lines)
    # corpus first: histories on which the judge itself (or the code) once went wrong
    cdir = os.path.join(vf.ROOT, "corpus", "world")
    if os.path.isdir(cdir):
        for fn in sorted(os.listdir(cdir)):
            lines += [l.strip() for l in open(os.path.join(cdir, fn)) if l.startswith("world.run")]
    for k in range(n):
        lines.append(g.history(run.rng.choice([10, 25, 50]), profiles[k % len(profiles)]))
    worldspec.STATS.clear()
    bad = judge(run, lines, prop)
    st = dict(worldspec.STATS)
    corr.distribution["oracle(%s): clean histories judged" % prop] = len(lines)
    for k in ("tick:expected-burst", "tick:expected-nope", "tick:expected-ind", "tick:stale", "data:accepted", "data:not-accepted"):
        corr.distribution["oracle: " + k] = st.get(k, 0)
    corr.distribution["oracle: control replies judged"] = sum(v for k, v in st.items() if k.startswith("ctrl:"))
    corr.distribution["oracle: distinct (verb,status) pairs"] = len([k for k in st if k.startswith("ctrl:")])
    found = 0
    seen = set()
    for l, d in bad[:6]:
        key = (d["what"],)
        if key in seen:
            continue
        seen.add(key)
        small, dd = shrink(run, l, prop)
        dd = dd or d
        w = {"kind": "world-history", "property": prop, "what": dd["what"], "expected": dd.get("expected"),
             "observed": dd.get("observed"), "op_index": dd.get("op_index"), "history": small, "readable": describe(small)}
        found += run.report_witness(w)
    return found


def _sched_still_fails(w, a):
    if isinstance(w.get("scenario"), dict):
        return _sched_judge(w["scenario"], a) is not None
    parts = a.split(" | ")
    fwd, calls, stale, excs, _, _ = _parse_race(parts[0].split(" ; ")[-1])
    if excs:
        return True
    st = parts[2].split(" # ")
    if w.get("racing_op") == "poweroff":
        # any transceiver that is not running must have an empty queue
        return any(x.split()[0] == "R0" and x.split()[-1] != "q-" for x in st[:-1])
    return "vanished" in w["what"] or "outside" in w["what"] or "more transmissions" in w["what"]


def replay(run, path, prop):
    rp = json.load(open(path))
    bad = 0
    for v in rp.get("violations", []):
        w = v.get("witness")
        if not w or "history" not in w:
            print("replay: no concrete input recorded: %s" % json.dumps(v.get("broken"))[:500])
            continue
        if w.get("kind") == "schedule":
            a = vf.run_lines([vf.PY, SCHED_HARNESS, vf.TRX], [w["history"]])[0]
            print("replay schedule (boundary %s of %s, racing %s): %s" % (w.get("boundary"), w.get("of"), w.get("racing_op"), a[-700:]))
            print("  recorded failure: %s  -- compare the observations above" % w["what"])
            try:        # what the interleaving model computes for the same schedule (driver as built by the last run)
                m = vf.run_driver([w["history"]])[0]
                ca = sched_canon(a)
                print("  interleaving model: %s" % ("agrees with the real code on this schedule" if m == ca else
                                                    "differs: %s" % json.dumps(first_diff(w["history"], ca, m))[:600]))
            except Exception:
                pass
            still = bool(("EXC:" in a or w["what"]) and _sched_still_fails(w, a))
            print("  still fails" if still else "  passes now")
            bad += 1 if still else 0
            continue
        j = judge(run, [w["history"]], prop)
        print("replay %s: %s" % (prop, json.dumps(describe(w["history"]))[:1500]))
        if j:
            print("  still fails: %s expected=%s observed=%s" % (j[0][1]["what"], j[0][1].get("expected"), j[0][1].get("observed")))
            bad += 1
        else:
            print("  passes now")
    if bad:
        print("VIOLATION property=%s replay=%s" % (prop, path))
    return 1 if bad else 0


# ---------------------------------------------------------------------------- C14 (toolkit half)

KNOWN_CMDS = {("POWERON", 0), ("POWEROFF", 0), ("RXTUNE", 1), ("TXTUNE", 1), ("MEASURE", 1), ("SETFORMAT", 1),
              ("SETPOWER", 1), ("NOMTXPOWER", 0), ("RFMUTE", 1), ("SETTA", 1), ("FAKE_TOA", 2), ("FAKE_TOA", 1),
              ("FAKE_RSSI", 2), ("FAKE_RSSI", 1), ("FAKE_CI", 2), ("FAKE_CI", 1), ("FAKE_DROP", 1), ("FAKE_DROP", 2),
              ("FAKE_TRXC_DELAY", 1)}


def ctrl_malformed(payload, recv=1024):
    """is this control datagram malformed in the sense of C14 (non-text, no CMD prefix, or a
    non-numeric argument of a known command)?  Uses Python's own decode()/int(), no toolkit code."""
    try:
        s = payload[:recv].decode()
    except UnicodeDecodeError:
        return "non-text"
    if not s.startswith("CMD"):
        return "no-prefix"
    req = s[4:].strip().strip("\0").split(" ")
    verb, args = req[0], req[1:]
    known = (verb, len(args)) in KNOWN_CMDS or (verb == "SETFH" and len(args) >= 4)
    if known:
        if verb == "FAKE_RSSI" and len(args) == 2:
            # documented: a negative threshold only disables the simulation, the base is not used
            try:
                if int(args[1]) < 0:
                    return None
            except ValueError:
                pass
        for a in args:
            try:
                int(a)
            except ValueError:
                return "non-numeric"
    return None


def data_malformed(payload, recv=512):
    d = payload[:recv]
    if len(d) < 6:
        return "short"
    if (d[0] >> 4) not in (0, 1):
        return "version"
    return None


def c14_oracle(run, corr, deep, n_quick=1500, n_thorough=30000):
    """metamorphic oracle on the real code: a history with malformed datagrams must behave, on all
    other operations and in the final state, exactly like the same history without them; malformed
    ones are ignored or answered with an error status; no exception ever escapes."""
    n = run.scale(n_quick, n_thorough) * (3 if deep else 1)
    g = worldgen.Gen(random.Random(run.seed * 104729 + 5), train(run))
    pairs = []
    for k in range(n):
        l = g.history(run.rng.choice([10, 25, 50]), "fuzz" if k % 3 else "mixed")
        head, ops = l.split(" | ", 1)
        ops = ops.split(" ; ")
        keep, mal = [], []
        for i, o in enumerate(ops):
            t = o.split()
            m = None
            if t[0] == "C":
                m = ctrl_malformed(bytes.fromhex(t[3]) if t[3] != "-" else b"")
            elif t[0] == "D":
                m = data_malformed(bytes.fromhex(t[2]) if t[2] != "-" else b"")
            (mal if m else keep).append((i, o, m))
        if not keep:
            continue
        pairs.append((l, head + " | " + " ; ".join(o for _, o, _ in keep), keep, mal))
    ans_full = run_impl([p[0] for p in pairs])
    ans_clean = run_impl([p[1] for p in pairs])
    found = 0
    kinds = {}
    for (l, lc, keep, mal), a, b in zip(pairs, ans_full, ans_clean):
        if a.startswith("cfgerr"):
            continue
        if a.startswith("HARNESS-EXC") or b.startswith("HARNESS-EXC"):
            raise vf.HarnessError("world harness could not observe the real objects: %s" % (a if a.startswith("HARNESS-EXC") else b)[:300])
        pa, pb = a.split(" | "), b.split(" | ")
        oa, ob = pa[0].split(" ; "), pb[0].split(" ; ")
        w = None
        for (i, o, m) in mal:
            kinds[m] = kinds.get(m, 0) + 1
            x = oa[i]
            if "EXC:" in x:
                w = {"what": "exception escapes on a malformed datagram (%s)" % m, "op": o[:300], "observed": x[:200]}
                break
            if x != ".":
                # must be a single control reply with a non-zero status
                dg, _, _ = worldspec.parse_obs(x)
                ok = len(dg) == 1 and dg[0][3].startswith(b"RSP ")
                if ok:
                    f = dg[0][3].decode("latin1").split(" ")
                    ok = len(f) >= 3 and f[2].rstrip("\0") not in ("0",)
                if not ok:
                    w = {"what": "malformed datagram (%s) neither ignored nor answered with an error status" % m, "op": o[:300], "observed": x[:200]}
                    break
        if w is None:
            if any("EXC:" in x for x in oa):
                k = [i for i, x in enumerate(oa) if "EXC:" in x][0]
                w = {"what": "exception escapes", "op_index": k, "observed": oa[k][:200]}
            else:
                rest = [oa[i] for (i, _, _) in keep]
                if rest != ob or pa[1:] != pb[1:]:
                    k = [j for j, (x, y) in enumerate(zip(rest, ob)) if x != y]
                    w = {"what": "behaviour after malformed input differs from the same session without it",
                         "op": keep[k[0]][1][:300] if k else "final state",
                         "observed": (rest[k[0]][:200] if k else " | ".join(pa[1:])[-300:]),
                         "expected": (ob[k[0]][:200] if k else " | ".join(pb[1:])[-300:])}
        if w is not None:
            w.update({"kind": "world-history", "property": "C14", "history": l, "readable": describe(l)})
            found += run.report_witness(w)
            if found >= 3:
                break
    corr.distribution["oracle(C14): session pairs (with / without malformed datagrams)"] = len(pairs)
    for k, v in kinds.items():
        corr.distribution["oracle(C14): malformed datagrams: " + k] = v
    return found


# ---------------------------------------------------------------------------- C03 schedules

SCHED_HARNESS = os.path.join(vf.ROOT, "harness/py/sched_harness.py")


def _cmd(i, text, port=5801):
    return "C %d %d %s" % (i, port, text.encode().hex())


def _burst(fn, ver=0, tn=0, n=148, rng=None):
    bits = bytes(rng.randint(0, 1) for _ in range(n)) if rng else bytes(n)
    return bytes([(ver << 4) | tn]) + fn.to_bytes(4, "big") + b"\x00" + bits


RACE_KINDS = ["arrival", "arrival", "poweroff", "poweroff-peer", "poweron-peer", "setformat", "setformat-peer",
              "retune-peer", "mute", "drop"]


def sched_scenarios(rng, n):
    """(setup ops, race op text, info) — bursts are queued only on transceiver `j`; `k` is the peer (the recipient);
    in some scenarios a third transceiver (index 2) listens on the same frequency as `k`: two recipients per burst"""
    H = worldgen.H
    out = []
    for _ in range(n):
        j = rng.choice([0, 1])
        k = 1 - j
        ver = rng.choice([0, 0, 1])
        kver = 1 if rng.random() < 0.5 else 0
        kind = rng.choice(RACE_KINDS)
        third = rng.random() < 0.3
        fn0 = rng.choice([rng.randrange(1, H - 3), H - 1, H - 2, 0, 101, 102])
        ops = []
        tune = [(0, (900000, 945000)), (1, (945000, 900000))]
        if third:
            tune.append((2, (tune[k][1][0], 880000)))
            if rng.random() < 0.5:
                ops.append(_cmd(2, "CMD SETFORMAT 1\0"))
        for i, (rx, tx) in tune:
            if rng.random() < 0.35:
                # frequency hopping over a one-channel allocation: the same routing, but every frequency look-up of the tick
                # goes through the hopping parameters (which POWEROFF drops)
                ops.append(_cmd(i, "CMD SETFH %d %d %d %d\0" % (rng.randrange(64), rng.randrange(64), rx, tx)))
            else:
                ops += [_cmd(i, "CMD RXTUNE %d\0" % rx), _cmd(i, "CMD TXTUNE %d\0" % tx)]
            if i == j and ver:
                ops.append(_cmd(i, "CMD SETFORMAT 1\0"))
            if i == k and kver:
                ops.append(_cmd(i, "CMD SETFORMAT 1\0"))
            if not (i == k and kind == "poweron-peer"):
                ops.append(_cmd(i, "CMD POWERON\0"))
        p = rng.choice([k, 2]) if third else k          # the peer the racing operation addresses
        ops.append("J %d" % fn0)
        fns = []
        ds = rng.sample([0, 0, -1, -2, 1, 2, 3], rng.randint(1, 4))
        if 0 not in ds and rng.random() < 0.5:
            ds[rng.randrange(len(ds))] = 0          # more ticks with a due burst: the forward / handle boundaries exist
        for d in ds:
            f = (fn0 + d) % H
            fns.append(f)
            ops.append("D %d %s" % (j, _burst(f, ver, rng.randint(0, 7), 148, rng).hex()))
        if kind == "arrival":
            f = (fn0 + rng.choice([0, 0, 1, -1, 2])) % H
            race = "D %d %s" % (j, _burst(f, ver, rng.randint(0, 7), 148, rng).hex())
            info = {"kind": kind, "fn": f}
        elif kind == "poweroff":
            race, info = _cmd(j, "CMD POWEROFF\0"), {"kind": kind}
        elif kind == "poweroff-peer":
            race, info = _cmd(p, "CMD POWEROFF\0"), {"kind": kind}
        elif kind == "poweron-peer":
            race, info = _cmd(k, "CMD POWERON\0"), {"kind": kind}
        elif kind == "setformat":
            race, info = _cmd(j, "CMD SETFORMAT %d\0" % (1 - ver)), {"kind": kind}
        elif kind == "setformat-peer":
            race, info = _cmd(k, "CMD SETFORMAT %d\0" % (1 - kver)), {"kind": kind}
        elif kind == "retune-peer":
            race, info = _cmd(p, "CMD RXTUNE %d\0" % rng.choice([890000, 945000, 900000])), {"kind": kind}
        elif kind == "mute":
            race, info = _cmd(rng.choice([j, p]), "CMD RFMUTE 1\0"), {"kind": kind}
        else:
            race, info = _cmd(p, "CMD FAKE_DROP 2\0"), {"kind": kind}
        info.update({"j": j, "fn0": fn0, "queued": fns, "ver": ver, "head": "sched.run 0 %s | " % ("c:7700/0" if third else "-")})
        out.append((ops, race, info))
    return out


def _parse_race(obs):
    fwd, calls, stale, excs, points, dg = [], [], 0, [], 0, 0
    for it in obs.strip().split(","):
        if it.startswith("fwd:"):
            f = it.split(":")
            fwd.append((int(f[1]), int(f[2]), int(f[3])))
        elif it.startswith("call:"):
            calls.append(it)
        elif it.startswith("stale:"):
            stale = int(it[6:])
        elif it.startswith("EXC:"):
            excs.append(it[4:])
        elif it.startswith("points:"):
            points = int(it[7:])
        elif it.startswith(("at:", "send:")):
            pass
        elif ">" in it:
            dg += 1
    return fwd, calls, stale, excs, points, dg


def sched_canon(a):
    """canonical form of a schedule-harness answer for the comparison with the interleaving model: the routing trace
    (call:/send: items, used by the oracles only) is dropped; everything else is a property-level observable (datagrams
    of both threads in the order they were sent, stale reports, escaping exceptions per thread, bursts handed to
    forward_msg with the tick's frame number, final state) or identifies the schedule (at:<boundary>, points:<n>)"""
    parts = a.split(" | ")
    obs = []
    for o in parts[0].split(" ; "):
        items = [i for i in o.split(",") if not i.startswith(("call:", "send:"))]
        obs.append(",".join(items) if items else ".")
    return " | ".join([" ; ".join(obs)] + parts[1:])


def sched_run(run, n):
    """run `n` race scenarios on the real objects: for each, the racing operation at every boundary of the tick
    (R 0 .. R pts-1), after the tick (R pts), and before it (plain op ; T).  Cached per run."""
    cache = run.__dict__.setdefault("_sched_cache", {})
    if n in cache:
        return cache[n]
    scen = sched_scenarios(random.Random(run.seed * 31 + 7), n)
    probe = [info["head"] + " ; ".join(ops + ["R 9999 " + race]) for ops, race, info in scen]
    before = [info["head"] + " ; ".join(ops + [race, "T"]) for ops, race, info in scen]
    ans = vf.run_lines([vf.PY, SCHED_HARNESS, vf.TRX], probe + before)
    ans_probe, ans_before = ans[:len(probe)], ans[len(probe):]
    lines, meta = [], []
    for si, ((ops, race, info), a) in enumerate(zip(scen, ans_probe)):
        if a.startswith(("cfgerr", "HARNESS")):
            raise vf.HarnessError("schedule harness: %s" % a[:300])
        pts = _parse_race(a.split(" | ")[0].split(" ; ")[-1])[4]
        for k in range(pts + 1):
            lines.append(info["head"] + " ; ".join(ops + ["R %d %s" % (k, race)]))
            meta.append((info, k, pts, si))
    impl = vf.run_lines([vf.PY, SCHED_HARNESS, vf.TRX], lines)
    for a in impl + ans_before:
        if a.startswith(("cfgerr", "HARNESS")):
            raise vf.HarnessError("schedule harness: %s" % a[:300])
    d = {"scen": scen, "lines": lines, "meta": meta, "impl": impl, "before_lines": before, "before": ans_before}
    cache[n] = d
    return d


def _sched_outcome(a, nlast):
    """what a schedule produced, independent of the order of the two threads' sends: datagrams (multiset), stale
    reports, bursts handed to forward_msg, exceptions, final state; `nlast` = number of trailing ops that make up the
    pair (1 for `R k op`, 2 for `op ; T`)"""
    parts = sched_canon(a).split(" | ")
    items = []
    stale = 0
    for o in parts[0].split(" ; ")[-nlast:]:
        for it in o.split(","):
            if it.startswith("stale:"):
                stale += int(it[6:])
            elif it == "." or it.startswith(("at:", "points:")):
                pass
            else:
                items.append(it.replace("EXC:clock:", "EXC:").replace("EXC:socket:", "EXC:"))
    return (tuple(sorted(items)), stale, parts[-1])


def sched_correspond(run, corr, n_quick=260, n_thorough=4000):
    """differential tie of the interleaving model: every forced schedule that is run on the real objects is also
    computed by `Sched.exec` (driver verb sched.run) and compared"""
    n = run.scale(n_quick, n_thorough)
    d = sched_run(run, n)
    lines = d["lines"] + d["before_lines"]
    impl = d["impl"] + d["before"]
    model = vf.run_driver(lines)
    dist = corr.distribution
    nbad = 0
    for l, a, b in zip(lines, impl, model):
        corr.count(hash(l), "schedules: forced on the real objects and computed by the interleaving model")
        ca = sched_canon(a)
        if ca != b:
            nbad += 1
            if len(corr.disagreements) < 20:
                corr.disagreements.append({"request": l, "impl": ca, "model": b, "first_diff": first_diff(l, ca, b)})
    # distribution: where the operation ran, what raced, how many schedules are not equivalent to a sequential order
    by_kind, by_at, differ, differ_kind = {}, {}, 0, {}
    after = {}
    for (info, k, pts, si), a in zip(d["meta"], d["impl"]):
        if k == pts:
            after[si] = _sched_outcome(a, 1)
    for (info, k, pts, si), a in zip(d["meta"], d["impl"]):
        at = [it[3:] for it in a.split(" | ")[0].split(" ; ")[-1].split(",") if it.startswith("at:")]
        at = at[0] if at else "?"
        by_at[at] = by_at.get(at, 0) + 1
        by_kind[info["kind"]] = by_kind.get(info["kind"], 0) + 1
        o = _sched_outcome(a, 1)
        if o != after.get(si) and o != _sched_outcome(d["before"][si], 2):
            differ += 1
            key = "%s @ %s" % (info["kind"], at)
            differ_kind[key] = differ_kind.get(key, 0) + 1
    dist["schedules: race scenarios"] = len(d["scen"])
    dist["schedules: by boundary the operation ran at"] = by_at
    dist["schedules: by racing operation"] = by_kind
    dist["schedules: outcome differs from both sequential orders (op;tick and tick;op)"] = differ
    dist["schedules: ... by racing operation @ boundary"] = differ_kind
    dist["schedules: model/code disagreements"] = nbad
    corr.samples += [{"request": l[-400:], "impl": sched_canon(a)[:400]} for l, a in list(zip(d["lines"], d["impl"]))[:2]]
    corr.rule += ("; a schedule case is one race scenario (two tuned transceivers, 1..4 queued bursts around the clock value, one racing "
                  "operation: arrival / POWEROFF of sender or peer / POWERON of peer / SETFORMAT of sender or peer / RXTUNE of peer / RFMUTE / "
                  "FAKE_DROP) with the operation executed at one boundary of the real tick (pre-tick, pre-lock, post-lock, pre-forward, "
                  "pre-handle), after the tick, or before it: datagrams of both threads in sending order, stale reports, exceptions per "
                  "thread, bursts handed to forward_msg with the tick's frame, the boundary reached, the number of boundaries and the "
                  "final state are compared between the real code and Sched.exec")
    return nbad


def _sched_judge(info, a):
    """the C03 oracle on the answer of the real code for one forced schedule: None, or what is violated"""
    parts = a.split(" | ")
    fwd, calls, stale, excs, _, _ = _parse_race(parts[0].split(" ; ")[-1])
    st = parts[2].split(" # ")
    j = info["j"]
    f = st[j].split()
    q = f[-1][1:]
    qend = 0 if q == "-" else len(q.split("/"))
    running = f[0] == "R1"
    fn0 = info["fn0"]
    acc = list(info["queued"]) + ([info["fn"]] if info["kind"] == "arrival" else [])
    w = None
    if excs:
        w = "exception %s while the operation raced the tick" % excs
    elif any(s != j or bfn != tfn or tfn != fn0 for (s, bfn, tfn) in fwd):
        w = "a burst was put on the air outside its own frame: %s (tick %d)" % (fwd, fn0)
    elif len(fwd) > sum(1 for x in acc if x == fn0):
        w = "more transmissions (%d) than bursts due in frame %d (%d)" % (len(fwd), fn0, sum(1 for x in acc if x == fn0))
    elif info["kind"] == "poweroff":
        if qend != 0 or running:
            w = "after POWEROFF the transceiver still holds %d queued burst(s) (running=%s)" % (qend, running)
    else:
        if len(fwd) + stale + qend != len(acc):
            w = "a burst vanished or was duplicated: accepted %d = forwarded %d + stale %d + queued %d does not hold" % (
                len(acc), len(fwd), stale, qend)
        elif len(fwd) < sum(1 for x in info["queued"] if x == fn0):
            w = "a burst queued before the tick for frame %d was not transmitted in it" % fn0
    return w


def sched_oracle(run, corr, deep, n_quick=260, n_thorough=4000):
    """every interleaving position of ONE socket-thread operation against ONE tick, on the real objects:
    no exception in either thread; bursts are forwarded only in their own frame and at most once;
    without a power-off of the sender nothing vanishes (accepted = forwarded + stale + still queued);
    after a power-off of the sender its queue is empty."""
    n = run.scale(n_quick, n_thorough) * (3 if deep else 1)
    H = worldgen.H
    d = sched_run(run, n)
    scen, lines, ans, meta = d["scen"], d["lines"], d["impl"], d["meta"]
    found = 0
    for l, a, (info, k, pts, _) in zip(lines, ans, meta):
        w = _sched_judge(info, a)
        if w is not None:
            found += run.report_witness({"kind": "schedule", "property": "C03", "what": w, "boundary": k, "of": pts,
                                         "racing_op": info["kind"], "scenario": info, "history": l,
                                         "readable": describe(l.replace("R %d " % k, ""))})
            if found >= 3:
                break
    # line-level schedules: the racing operation before EVERY line event of the toolkit's own code on the tick's path
    # (a preemption point between any two statements; not compared with the interleaving model, judged by the oracle only)
    if found < 3:
        nl = run.scale(30, 400) * (3 if deep else 1)
        # every kind of racing operation is represented; scenarios in which a power-off races a tick that resolves hopping
        # frequencies (the configuration POWEROFF drops) come first
        def prio(s):
            ops, race, info = s
            hop = any("5345544648" in o.upper() for o in ops)          # "SETFH" in a command's hex
            return (0 if (hop and info["kind"].startswith("poweroff")) else 1 if hop else 2)
        order = sorted(range(len(scen)), key=lambda i: (prio(scen[i]), i))
        by_kind, sub = {}, []
        for i in order:
            kd = scen[i][2]["kind"]
            if by_kind.get(kd, 0) < max(2, nl // 6):
                by_kind[kd] = by_kind.get(kd, 0) + 1
                sub.append(scen[i])
            if len(sub) >= nl:
                break
        llines, lmeta = [], []
        for mode in ("L", "S"):
            # L: the tick parked before each of its line events, the socket operation runs there;
            # S: the socket operation parked before each of ITS line events (e.g. inside its locked section), a whole tick runs there
            probe = [info["head"] + " ; ".join(ops + ["%s 99999 %s" % (mode, race)]) for ops, race, info in sub]
            pa = vf.run_lines([vf.PY, SCHED_HARNESS, vf.TRX], probe)
            for (ops, race, info), a in zip(sub, pa):
                if a.startswith(("cfgerr", "HARNESS")):
                    raise vf.HarnessError("schedule harness (line level): %s" % a[:300])
                pts = _parse_race(a.split(" | ")[0].split(" ; ")[-1])[4]
                for k in range(pts):
                    llines.append(info["head"] + " ; ".join(ops + ["%s %d %s" % (mode, k, race)]))
                    lmeta.append((info, k, pts, mode))
        la = vf.run_lines([vf.PY, SCHED_HARNESS, vf.TRX], llines)
        for l, a, (info, k, pts, mode) in zip(llines, la, lmeta):
            if a.startswith(("cfgerr", "HARNESS")):
                raise vf.HarnessError("schedule harness (line level): %s" % a[:300])
            w = _sched_judge(info, a)
            if w is not None:
                at = [x for x in a.split(" | ")[0].split(" ; ")[-1].split(",") if x.startswith("at:")]
                found += run.report_witness({"kind": "schedule", "property": "C03", "what": w, "boundary": k, "of": pts,
                                             "line_level": True, "gated_thread": "socket" if mode == "S" else "clock",
                                             "parked_before": at[0][3:] if at else None,
                                             "racing_op": info["kind"], "scenario": info, "history": l,
                                             "readable": describe(l.replace("%s %d " % (mode, k), ""))})
                if found >= 3:
                    break
        corr.distribution["oracle(C03): line-level schedules replayed on the real objects (the op before every line event of the tick, and a tick before every line event of the op)"] = len(llines)
    corr.distribution["oracle(C03): race scenarios"] = len(scen)
    corr.distribution["oracle(C03): schedules replayed on the real objects (one op x one tick, every boundary)"] = len(lines)
    kinds = {}
    for _, _, i in scen:
        kinds[i["kind"]] = kinds.get(i["kind"], 0) + 1
    corr.distribution["oracle(C03): racing operations"] = kinds
    return found


# ---------------------------------------------------------------------------- C05: trxcon <-> toolkit cross run

def c05_cross(run, corr, deep, n_quick=60, n_thorough=1500):
    """end to end on the real code of both sides: commands emitted by the real trxcon (trx_if.c) are fed to the
    real toolkit transceiver (MS side), and the toolkit's real replies are fed back into the real trxcon
    response parser: status 0 must be accepted (MEASURE result parsed back), a non-zero status rejected
    (critical) or logged (non-critical) -- never a mismatch, never a truncated SETFH."""
    from props import trxcon_part as tp
    exe = tp.build(run)
    rng = random.Random(run.seed * 977 + 3)
    n = run.scale(n_quick, n_thorough) * (3 if deep else 1)
    found = 0
    sessions = []
    for _ in range(n):
        a = tp.valid_arfcn(rng)
        cmds = ["RESET"]
        if rng.random() < 0.5:
            N = rng.choice([1, 2, 8, 9, 16, 33, 62, 64])
            ma = [tp.valid_arfcn(rng, False if N > 62 else None) for _ in range(N)]
            cmds.append("SETFREQ_H1 %d %d %d %s" % (rng.randrange(64), rng.randrange(64), N, " ".join(map(str, ma))))
        else:
            cmds.append("SETFREQ_H0 %d" % a)
        cmds += ["SETSLOT %d %d" % (rng.randrange(8), rng.choice([2, 3, 5, 6, 7, 9])), "POWERON", "MEASURE %d" % a,
                 "SETTA %d" % rng.randrange(-128, 128), "POWERON", "POWEROFF"]
        sessions.append(cmds)
    flat = [c for s in sessions for c in s]
    out = vf.run_lines([exe], ["tc.cmd " + c for c in flat])
    it = iter(out)
    lines, metas = [], []
    for cmds in sessions:
        texts = []
        for c in cmds:
            a = next(it)
            if a == "CRASH" or not a.split("|")[0].strip().lstrip("-").isdigit() or int(a.split("|")[0]) != 0:
                continue        # e.g. -ENOSPC for a Mobile Allocation that does not fit: nothing is sent
            rc, q, sent = tp._parse_cmd_answer(a)
            crit = [int(x.split(":")[0]) for x in a.split("|")[1].split()[1:]]
            texts += list(zip(q, crit))
        if texts:
            lines.append("world.run 1 - | " + " ; ".join("C 1 6801 %s" % (t + b"\0").hex() for t, _ in texts))
            metas.append(texts)
    ans = run_impl(lines)
    reqs, info = [], []
    for texts, a in zip(metas, ans):
        obs = a.split(" | ")[0].split(" ; ")
        for (t, crit), o in zip(texts, obs):
            dg, _, exc = worldspec.parse_obs(o)
            if exc or len(dg) != 1:
                found += run.report_witness({"kind": "c05-cross", "property": "C05", "what": "the toolkit did not send exactly one reply to a command emitted by trxcon",
                                             "command": t.decode("latin1")[:200], "observed": o[:300]})
                continue
            reqs.append("tc.rsp %s %d %s" % (t.hex(), crit, dg[0][3].hex()))
            info.append((t, crit, dg[0][3]))
    out = vf.run_lines([exe], reqs)
    n_ok = 0
    for (t, crit, rsp), r, a in zip(info, reqs, out):
        f = [x.strip() for x in a.split("|")] if a != "CRASH" else ["CRASH"] * 6
        try:
            status = int(rsp.decode("latin1").split(" ")[2].rstrip("\0"))
        except (ValueError, IndexError):
            status = None
        if status == 0:
            ok = f[0] == "0" and f[1] == "accepted"
        elif status is None:
            ok = False
        elif crit:
            ok = f[0] == "-5" and f[1] == "rejected"
        else:
            ok = f[0] == "0" and f[1] == "accepted"
        # the echoed arguments must be the command's (a truncated SETFH shows here)
        echoed = rsp.decode("latin1").rstrip("\0").split(" ")
        sent = t.decode("latin1").split(" ")
        if status is not None and echoed[3:3 + len(sent) - 2] != sent[2:]:
            ok = False
        n_ok += ok
        if not ok and found < 3:
            found += run.report_witness({"kind": "c05-cross", "property": "C05", "what": "trxcon does not accept the toolkit's reply to its own command (or the arguments are not echoed in full)",
                                         "command": t.decode("latin1")[:300], "critical": crit, "reply": rsp.decode("latin1")[:300], "trxcon": a[:200]})
    corr.distribution["oracle(C05): trxcon sessions against the real toolkit"] = len(lines)
    corr.distribution["oracle(C05): toolkit replies fed to the real trxcon parser"] = len(reqs)
    corr.distribution["oracle(C05): accepted/handled as demanded"] = n_ok
    return found
