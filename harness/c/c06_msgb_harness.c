/* C06 (message buffer part) harness: drives the REAL msgb operations -- the inline functions of
 * osmocom/core/msgb.h, msgb.c, linuxlist.h and sercomm_alloc_msgb() of sercomm.h, compiled unchanged from
 * the repo under ASan/UBSan -- through the same line protocol as lean/OsmoVerif/Driver/Msgb.lean.
 *
 * One request line = one script on a fresh buffer, run in a forked child (tokens are written as they are
 * produced; when the child dies of a sanitizer report / signal the parent appends `CRASH`):
 *
 *   mb.run ALLOC OP OP ...
 *     ALLOC:  alloc SIZE | allochr SIZE HEADROOM | scalloc LEN
 *             (msgb_alloc / msgb_alloc_headroom / sercomm_alloc_msgb; int arguments, LEN unsigned)
 *     OP:     reset | put N | putd HEX | pu8 V | pu16 V | pu32 V | get N | gu8 | gu16 | gu32 |
 *             push N | pushd HEX | pull N | lu8 | lu16 | lu32 | reserve N | trim N | tr | hr | hl | len
 *   answer:  one token per ALLOC/OP:  RET/HEAD,DATA,TAIL,LEN,DATALEN   with the pointers as offsets from
 *            &_data[0] (computed on integers), RET = `-` | `p<offset>` | `v<integer>`;
 *            then `m:<hex of _data[0..data_len)>` (`m#<FNV-1a 32>` of it when data_len > 128).
 *            `ABORT` (and nothing after it) when MSGB_ABORT -> osmo_panic was reached;
 *            `X:oob` (and nothing after it) when a pointer of the struct, or the returned pointer, lies
 *            outside _data[0..data_len] after the operation: the harness stops instead of going on with it.
 *
 *   mb.q OP OP ...      one queue (struct llist_head) and buffers named by small numbers
 *     new ID | enq ID | deq | free ID
 *   answer: per op the queue as seen forward (->next) and backward (->prev), at most 16 steps each:
 *            `f:1,2,3;b:3,2,1` (ids; `-` for an empty walk, `?` for a cell that is no known buffer),
 *            deq additionally `q:<id>` | `q:none` in front.
 *
 * Environment stubs: osmo_panic only.
 */
#include <stdio.h>
#include <stdint.h>
#include <stdlib.h>
#include <string.h>
#include <unistd.h>
#include <stdarg.h>
#include <sys/types.h>
#include <sys/wait.h>

#include <osmocom/core/msgb.h>
#include <osmocom/core/linuxlist.h>
#include <sercomm.h>

static int first = 1;

static void tok(const char *s)
{
	size_t n = strlen(s);
	if (!first && write(1, " ", 1) != 1)
		_exit(5);
	first = 0;
	while (n) {
		ssize_t w = write(1, s, n);
		if (w <= 0)
			_exit(5);
		s += w;
		n -= w;
	}
}

void osmo_panic(const char *fmt, ...)
{
	tok("ABORT");
	_exit(0);
}

static int hexval(int c)
{
	if (c >= '0' && c <= '9') return c - '0';
	if (c >= 'a' && c <= 'f') return c - 'a' + 10;
	if (c >= 'A' && c <= 'F') return c - 'A' + 10;
	return -1;
}

static long unhex(const char *s, uint8_t **res)
{
	size_t n = strlen(s), i;
	uint8_t *b;
	*res = NULL;
	if (!strcmp(s, "-")) {
		*res = malloc(1);
		return 0;
	}
	if (n % 2)
		return -1;
	b = malloc(n / 2 + 1);
	for (i = 0; i < n / 2; i++) {
		int h = hexval(s[2 * i]), l = hexval(s[2 * i + 1]);
		if (h < 0 || l < 0)
			return -1;
		b[i] = 16 * h + l;
	}
	*res = b;
	return n / 2;
}

static int parse_ll(const char *s, long long *v)
{
	char *end;
	if (!s || !*s)
		return -1;
	*v = strtoll(s, &end, 10);
	return *end ? -1 : 0;
}

static long long off(struct msgb *m, const unsigned char *p)
{
	return (long long) ((intptr_t) p - (intptr_t) m->_data);
}

static int inside(struct msgb *m, const unsigned char *p)
{
	long long o = off(m, p);
	return o >= 0 && o <= (long long) m->data_len;
}

/* emits RET/state; returns 0 when the harness must stop (pointer outside the array) */
static int emit(struct msgb *m, const char *ret, const unsigned char *retp)
{
	char b[160];
	if (!inside(m, m->head) || !inside(m, m->data) || !inside(m, m->tail) || (retp && !inside(m, retp))) {
		tok("X:oob");
		return 0;
	}
	snprintf(b, sizeof(b), "%s/%lld,%lld,%lld,%u,%u", ret, off(m, m->head), off(m, m->data), off(m, m->tail),
		 (unsigned) m->len, (unsigned) m->data_len);
	tok(b);
	return 1;
}

static int emit_ptr(struct msgb *m, const unsigned char *p)
{
	char b[40];
	snprintf(b, sizeof(b), "p%lld", off(m, p));
	return emit(m, b, p);
}

static int emit_val(struct msgb *m, long long v)
{
	char b[40];
	snprintf(b, sizeof(b), "v%lld", v);
	return emit(m, b, NULL);
}

static void emit_mem(struct msgb *m)
{
	static const char hx[] = "0123456789abcdef";
	char *b = malloc(2 * (size_t) m->data_len + 40);
	size_t i, k = 0;
	if (m->data_len > 128) {
		/* large arrays: FNV-1a (32 bit) over _data[0..data_len) */
		uint32_t h = 2166136261u;
		for (i = 0; i < m->data_len; i++)
			h = (h ^ m->_data[i]) * 16777619u;
		snprintf(b, 40, "m#%u", (unsigned) h);
		tok(b);
		free(b);
		return;
	}
	b[k++] = 'm';
	b[k++] = ':';
	if (!m->data_len)
		b[k++] = '-';
	for (i = 0; i < m->data_len; i++) {
		b[k++] = hx[m->_data[i] >> 4];
		b[k++] = hx[m->_data[i] & 15];
	}
	b[k] = 0;
	tok(b);
	free(b);
}

/* returns 0 ok, -1 malformed */
static int run_script(char **t, int n)
{
	struct msgb *m = NULL;
	long long a, b;
	int i = 0;

	if (n >= 2 && !strcmp(t[0], "alloc") && !parse_ll(t[1], &a)) {
		m = msgb_alloc((int) a, "t");
		i = 2;
	} else if (n >= 3 && !strcmp(t[0], "allochr") && !parse_ll(t[1], &a) && !parse_ll(t[2], &b)) {
		m = msgb_alloc_headroom((int) a, (int) b, "t");
		i = 3;
	} else if (n >= 2 && !strcmp(t[0], "scalloc") && !parse_ll(t[1], &a)) {
		m = sercomm_alloc_msgb((unsigned int) a);
		i = 2;
	} else
		return -1;
	if (!m)
		_exit(4);
	if (!emit(m, "-", NULL))
		return 0;
	while (i < n) {
		const char *op = t[i];
		uint8_t *d;
		long k;
		int go;
		if (!strcmp(op, "reset")) {
			msgb_reset(m);
			go = emit(m, "-", NULL);
			i += 1;
		} else if (!strcmp(op, "tr")) {
			go = emit_val(m, msgb_tailroom(m));
			i += 1;
		} else if (!strcmp(op, "hr")) {
			go = emit_val(m, msgb_headroom(m));
			i += 1;
		} else if (!strcmp(op, "hl")) {
			go = emit_val(m, msgb_headlen(m));
			i += 1;
		} else if (!strcmp(op, "len")) {
			go = emit_val(m, msgb_length(m));
			i += 1;
		} else if (!strcmp(op, "gu8")) {
			go = emit_val(m, msgb_get_u8(m));
			i += 1;
		} else if (!strcmp(op, "gu16")) {
			go = emit_val(m, msgb_get_u16(m));
			i += 1;
		} else if (!strcmp(op, "gu32")) {
			go = emit_val(m, msgb_get_u32(m));
			i += 1;
		} else if (!strcmp(op, "lu8")) {
			go = emit_val(m, msgb_pull_u8(m));
			i += 1;
		} else if (!strcmp(op, "lu16")) {
			go = emit_val(m, msgb_pull_u16(m));
			i += 1;
		} else if (!strcmp(op, "lu32")) {
			go = emit_val(m, msgb_pull_u32(m));
			i += 1;
		} else if (i + 1 >= n) {
			return -1;
		} else if (!strcmp(op, "putd") || !strcmp(op, "pushd")) {
			unsigned char *p;
			k = unhex(t[i + 1], &d);
			if (k < 0)
				return -1;
			p = op[2] == 't' ? msgb_put(m, k) : msgb_push(m, k);
			/* the caller's memcpy(p, d, k): [p, p+k) is [old tail, new tail) resp. [new data, old data),
			 * inside the array whenever emit() finds the pointers inside (else the harness stops) */
			go = emit(m, "-", p);
			if (go)
				memcpy(p, d, k);
			free(d);
			i += 2;
		} else {
			if (parse_ll(t[i + 1], &a))
				return -1;
			if (!strcmp(op, "put"))
				go = emit_ptr(m, msgb_put(m, (unsigned int) a));
			else if (!strcmp(op, "get"))
				go = emit_ptr(m, msgb_get(m, (unsigned int) a));
			else if (!strcmp(op, "push"))
				go = emit_ptr(m, msgb_push(m, (unsigned int) a));
			else if (!strcmp(op, "pull"))
				go = emit_ptr(m, msgb_pull(m, (unsigned int) a));
			else if (!strcmp(op, "pu8")) {
				msgb_put_u8(m, (uint8_t) a);
				go = emit(m, "-", NULL);
			} else if (!strcmp(op, "pu16")) {
				msgb_put_u16(m, (uint16_t) a);
				go = emit(m, "-", NULL);
			} else if (!strcmp(op, "pu32")) {
				msgb_put_u32(m, (uint32_t) a);
				go = emit(m, "-", NULL);
			} else if (!strcmp(op, "reserve")) {
				msgb_reserve(m, (int) a);
				go = emit(m, "-", NULL);
			} else if (!strcmp(op, "trim"))
				go = emit_val(m, msgb_trim(m, (int) a));
			else
				return -1;
			i += 2;
		}
		if (!go)
			return 0;
	}
	emit_mem(m);
	return 0;
}

#define NBUF 16
static int run_queue(char **t, int n)
{
	struct llist_head q;
	struct msgb *buf[NBUF];
	int i = 0, j;

	memset(buf, 0, sizeof(buf));
	INIT_LLIST_HEAD(&q);
	while (i < n) {
		long long id = 0;
		char out[400];
		size_t k = 0;
		struct llist_head *p;
		int steps;
		out[0] = 0;
		if (!strcmp(t[i], "deq")) {
			struct msgb *m = msgb_dequeue(&q);
			int found = -1;
			for (j = 0; j < NBUF; j++)
				if (m && buf[j] == m)
					found = j;
			if (!m)
				k += snprintf(out + k, sizeof(out) - k, "q:none;");
			else if (found < 0)
				k += snprintf(out + k, sizeof(out) - k, "q:?;");
			else
				k += snprintf(out + k, sizeof(out) - k, "q:%d;", found);
			i += 1;
		} else if (i + 1 < n && !parse_ll(t[i + 1], &id) && id >= 0 && id < NBUF) {
			if (!strcmp(t[i], "new")) {
				if (buf[id])
					return -1;
				buf[id] = msgb_alloc(8, "q");
			} else if (!strcmp(t[i], "enq")) {
				if (!buf[id])
					return -1;
				msgb_enqueue(&q, buf[id]);
			} else if (!strcmp(t[i], "free")) {
				if (!buf[id])
					return -1;
				msgb_free(buf[id]);
				buf[id] = NULL;
			} else
				return -1;
			i += 2;
		} else
			return -1;
		for (j = 0; j < 2; j++) {
			int any = 0;
			k += snprintf(out + k, sizeof(out) - k, j ? ";b:" : "f:");
			for (p = j ? q.prev : q.next, steps = 0; p != &q && steps < 16; p = j ? p->prev : p->next, steps++) {
				int found = -1, x;
				for (x = 0; x < NBUF; x++)
					if (buf[x] && &buf[x]->list == p)
						found = x;
				if (found < 0) {
					k += snprintf(out + k, sizeof(out) - k, "%s?", any ? "," : "");
					any = 1;
					break;
				}
				k += snprintf(out + k, sizeof(out) - k, "%s%d", any ? "," : "", found);
				any = 1;
			}
			if (!any)
				k += snprintf(out + k, sizeof(out) - k, "-");
		}
		tok(out);
	}
	return 0;
}

int main(void)
{
	char *line = NULL;
	size_t cap = 0;
	ssize_t len;

	while ((len = getline(&line, &cap, stdin)) > 0) {
		pid_t pid;
		int status = 0;

		pid = fork();
		if (pid < 0)
			return 6;
		if (pid == 0) {
			char **t = malloc(sizeof(char *) * (len / 2 + 2));
			int n = 0, rc = -1;
			char *p = strtok(line, " \t\r\n");
			while (p) {
				t[n++] = p;
				p = strtok(NULL, " \t\r\n");
			}
			if (n >= 1 && !strcmp(t[0], "mb.run"))
				rc = run_script(t + 1, n - 1);
			else if (n >= 1 && !strcmp(t[0], "mb.q"))
				rc = run_queue(t + 1, n - 1);
			if (rc < 0) {
				/* malformed: nothing may have been printed before the parser noticed */
				tok(first ? "bad-op" : "BAD");
			}
			if (first)
				tok("ok");
			_exit(0);
		}
		if (waitpid(pid, &status, 0) < 0)
			return 7;
		if (!WIFEXITED(status) || WEXITSTATUS(status) != 0) {
			if (write(1, " CRASH\n", 7) != 7)
				return 8;
		} else if (write(1, "\n", 1) != 1)
			return 8;
	}
	free(line);
	return 0;
}
