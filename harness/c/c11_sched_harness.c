/* C11 harness, trxcon side, the CONSUMERS of the multiframe layouts: drives the REAL
 * l1sched_configure_ts() / l1sched_reset_ts() / l1sched_del_ts() / l1sched_reset() /
 * l1sched_activate_lchan() / l1sched_deactivate_lchan() / l1sched_handle_rx_burst()
 * (with the static subst_frame_loss()) / l1sched_pull_burst() / l1sched_handle_rx_probe()
 * of src/host/trxcon/src/sched_trx.c.  sched_trx.c and sched_lchan_desc.c are compiled
 * UNCHANGED as their own objects (clang, ASan + UBSan); sched_mframe.c is #included here
 * unchanged (-DC11_SCHED_MFRAME_C=...) so that the true length of every frame table is
 * known.  Environment (this file): talloc, msgb, logging, the primitive sink
 * (l1sched_prim_to_user records the PCHAN_COMB indications), the lchan handlers named in
 * sched_lchan_desc.c (c11_sched_names.inc; they record lchan type, tn, fn, bid).
 *
 * Out-of-table detection: the linker option --wrap=l1sched_mframe_layout routes the
 * call made by sched_trx.c through __wrap_l1sched_mframe_layout(), which calls the real
 * function and hands out a copy of the returned layout whose frame table lies between
 * poisoned guard rows (ASAN_POISON_MEMORY_REGION): any read of frames[i] with i outside
 * the table by sched_trx.c aborts the (forked) child -> "crash:out-of-table@k".
 *
 *   ts.seq OP OP ...     one history on a fresh l1sched_state; answer: the op outputs
 *                        joined by '|', or "crash:<kind>@<k>" (k = ops completed)
 *   OP = cfg,TN,CFG | rts,TN | del,TN | rst | act,TN,CHAN | deact,TN,CHAN | rx,TN,FN |
 *        rxn,TN,FN0,N | tx,TN,FN | txn,TN,FN0,N | probe,TN,FN | setl,TN,CHAN,LAST,NUMPROC |
 *        dump,TN
 *   ts.consts            -> "_L1SCHED_CHAN_MAX=.. TRX_TS_COUNT=.. GSM_TDMA_HYPERFRAME=.."
 */
#define _GNU_SOURCE
#include <stdio.h>
#include <stdint.h>
#include <stdlib.h>
#include <string.h>
#include <errno.h>
#include <unistd.h>
#include <fcntl.h>
#include <stdarg.h>
#include <sys/wait.h>
#include <sys/mman.h>
#include <sanitizer/asan_interface.h>

/* console output of the code under test never reaches the protocol stream (see also the
 * dup2 in the child) */
int vf_console_puts(const char *s);
int vf_console_putchar(int c);
int vf_console_printf(const char *fmt, ...);
#define puts vf_console_puts
#define putchar vf_console_putchar
#define printf vf_console_printf
#include C11_SCHED_MFRAME_C
#ifdef C11_SCHED_EXTRA1_C
#include C11_SCHED_EXTRA1_C
#endif
#ifdef C11_SCHED_EXTRA2_C
#include C11_SCHED_EXTRA2_C
#endif
#undef puts
#undef putchar
#undef printf

#include <osmocom/core/msgb.h>
#include <osmocom/bb/l1sched/prim.h>

const char *__asan_default_options(void)
{
	return "detect_leaks=0:abort_on_error=0:handle_sigfpe=1:print_summary=1";
}

/* ---- true table lengths (names from gen/mframe.py) ---- */
static const struct { const char *name; const struct l1sched_tdma_frame *p; unsigned long len; } tables[] = {
#define FTABLE(n) { #n, n, sizeof(n) / sizeof(n[0]) },
#define LCHAN(n)
#include "c11_trxcon_names.inc"
#undef FTABLE
#undef LCHAN
	{ NULL, NULL, 0 }
};

/* ---- output ---- */
static volatile unsigned long *progress;	/* shared with the parent: ops completed */
static char *out;
static size_t out_len, out_cap;

static void emit(const char *fmt, ...)
{
	va_list ap;
	int n;
	va_start(ap, fmt);
	n = vsnprintf(NULL, 0, fmt, ap);
	va_end(ap);
	if (out_cap - out_len < (size_t) n + 2) {
		out_cap = (out_cap + n + 2) * 2 + 4096;
		out = realloc(out, out_cap);
	}
	va_start(ap, fmt);
	vsnprintf(out + out_len, out_cap - out_len, fmt, ap);
	va_end(ap);
	out_len += n;
}

/* events of the current op */
static char *evs;
static size_t evs_len, evs_cap;

static void ev(const char *fmt, ...)
{
	va_list ap;
	int n;
	if (evs_cap - evs_len < 256) {
		evs_cap = evs_cap * 2 + 4096;
		evs = realloc(evs, evs_cap);
	}
	if (evs_len)
		evs[evs_len++] = ',';
	va_start(ap, fmt);
	n = vsnprintf(evs + evs_len, evs_cap - evs_len, fmt, ap);
	va_end(ap);
	evs_len += n;
}

static const char *evs_take(void)
{
	if (!evs_len)
		return "-";
	evs[evs_len] = 0;
	evs_len = 0;
	return evs;
}

/* ---- environment of sched_trx.c ---- */
void *verif_talloc(size_t n)
{
	return calloc(1, n ? n : 1);
}

char *verif_talloc_strdup(const char *s)
{
	return strdup(s);
}

void verif_logp_sink(int cat, int level, const char *fmt, ...)
{
}

void osmo_panic(const char *fmt, ...)
{
	fprintf(stderr, "VERIF-PANIC\n");
	abort();
}

const char *get_value_string(const struct value_string *vs, uint32_t val)
{
	return "?";
}

struct msgb *msgb_dequeue(struct llist_head *queue)
{
	struct llist_head *lh;
	if (llist_empty(queue))
		return NULL;
	lh = queue->next;
	llist_del(lh);
	return llist_entry(lh, struct msgb, list);
}

void msgb_free(struct msgb *m)
{
	free(m);
}

const char *msgb_hexdump_l2(const struct msgb *msg)
{
	return "";
}

int osmo_a5(int n, const uint8_t *key, uint32_t fn, ubit_t *dl, ubit_t *ul)
{
	return 0;
}

struct msgb *l1sched_prim_alloc(enum l1sched_prim_type type, enum osmo_prim_operation op)
{
	struct msgb *msg = calloc(1, sizeof(*msg) + sizeof(struct l1sched_prim));
	struct l1sched_prim *prim = (struct l1sched_prim *) (msg + 1);
	msg->l1h = (unsigned char *) prim;
	prim->oph.primitive = type;
	prim->oph.operation = op;
	return msg;
}

int l1sched_prim_to_user(struct l1sched_state *sched, struct msgb *msg)
{
	const struct l1sched_prim *prim = l1sched_prim_from_msgb(msg);
	if (prim->oph.primitive == L1SCHED_PRIM_T_PCHAN_COMB)
		ev("P%u.%ld", (unsigned) prim->pchan_comb_ind.tn, (long) prim->pchan_comb_ind.pchan);
	else
		ev("U%u", (unsigned) prim->oph.primitive);
	free(msg);
	return 0;
}

/* the lchan handlers named by sched_lchan_desc.c */
#define RXFN(n) int n(struct l1sched_lchan_state *lchan, const struct l1sched_burst_ind *bi) \
	{ ev("R%ld.%u.%lu.%u", (long) lchan->type, (unsigned) bi->tn, (unsigned long) bi->fn, (unsigned) bi->bid); return 0; }
#define TXFN(n) int n(struct l1sched_lchan_state *lchan, struct l1sched_burst_req *br) \
	{ ev("T%ld.%u.%lu.%u", (long) lchan->type, (unsigned) br->tn, (unsigned long) br->fn, (unsigned) br->bid); return 0; }
#include "c11_sched_names.inc"
#undef RXFN
#undef TXFN

/* ---- guarded copies of the layouts ---- */
#define GUARD_ROWS 4096
#define MAX_COPIES 64
static struct {
	const struct l1sched_tdma_multiframe *real;
	struct l1sched_tdma_multiframe copy;
} copies[MAX_COPIES];
static unsigned num_copies;

const struct l1sched_tdma_multiframe *__real_l1sched_mframe_layout(enum gsm_phys_chan_config config, uint8_t tn);

const struct l1sched_tdma_multiframe *__wrap_l1sched_mframe_layout(enum gsm_phys_chan_config config, uint8_t tn)
{
	const struct l1sched_tdma_multiframe *real = __real_l1sched_mframe_layout(config, tn);
	unsigned i;
	if (!real)
		return NULL;
	for (i = 0; i < num_copies; i++)
		if (copies[i].real == real)
			return &copies[i].copy;
	if (num_copies == MAX_COPIES)
		return real;
	copies[num_copies].real = real;
	copies[num_copies].copy = *real;
	if (real->frames) {
		unsigned long len = real->period;
		struct l1sched_tdma_frame *buf;
		for (i = 0; tables[i].name; i++)
			if (tables[i].p == real->frames)
				len = tables[i].len;
		buf = calloc(GUARD_ROWS + len + GUARD_ROWS, sizeof(*buf));
		memcpy(buf + GUARD_ROWS, real->frames, len * sizeof(*buf));
		ASAN_POISON_MEMORY_REGION(buf, GUARD_ROWS * sizeof(*buf));
		ASAN_POISON_MEMORY_REGION(buf + GUARD_ROWS + len, GUARD_ROWS * sizeof(*buf));
		copies[num_copies].copy.frames = buf + GUARD_ROWS;
	}
	return &copies[num_copies++].copy;
}

/* ---- ops ---- */
static const char *rcname(int rc)
{
	static char buf[32];
	switch (rc) {
	case 0: return "0";
	case -EINVAL: return "-EINVAL";
	case -ENOMEM: return "-ENOMEM";
	case -EAGAIN: return "-EAGAIN";
	case -EALREADY: return "-EALREADY";
	case -EIO: return "-EIO";
	case -ENODEV: return "-ENODEV";
	case -ERANGE: return "-ERANGE";
	}
	snprintf(buf, sizeof(buf), "rc%d", rc);
	return buf;
}

static void dump_ts(struct l1sched_state *sched, unsigned tn)
{
	struct l1sched_ts *ts = sched->ts[tn];
	struct l1sched_lchan_state *lchan;
	int first = 1;
	if (!ts) {
		emit("~");
		return;
	}
	if (ts->mf_layout)
		emit("%ld.%u.%u.%llu/", (long) ts->mf_layout->chan_config, (unsigned) ts->mf_layout->period,
		     (unsigned) ts->mf_layout->slotmask, (unsigned long long) ts->mf_layout->lchan_mask);
	else
		emit("-/");
	if (ts->lchans.next == NULL) {
		emit("?");
		return;
	}
	llist_for_each_entry(lchan, &ts->lchans, list) {
		emit("%s%ld:%u:%lu:%lu:%lu", first ? "" : ",", (long) lchan->type, (unsigned) lchan->active,
		     (unsigned long) lchan->tdma.last_proc, lchan->tdma.num_proc, lchan->tdma.num_lost);
		first = 0;
	}
	if (first)
		emit("-");
}

static int bad_tn(unsigned long tn)
{
	return tn >= TRX_TS_COUNT;
}

/* returns 0 = done, 1 = malformed op */
static int do_op(struct l1sched_state *sched, char *op)
{
	unsigned long a = 0, b = 0, c = 0, d = 0;
	char name[16];
	int n = 0, rc;
	char *p = strchr(op, ',');
	size_t ln = p ? (size_t) (p - op) : strlen(op);
	if (ln >= sizeof(name))
		return 1;
	memcpy(name, op, ln);
	name[ln] = 0;
	if (p)
		n = sscanf(p + 1, "%lu,%lu,%lu,%lu", &a, &b, &c, &d);
	if (n < 0)
		n = 0;

	if (!strcmp(name, "rst") && n == 0) {
		l1sched_reset(sched, 0);
		emit("-;%s;-", evs_take());
		return 0;
	}
	if (n < 1)
		return 1;
	/* sched->ts[tn] with tn outside the array: the callers mask tn with 0x07; reported,
	 * not executed (undefined behaviour) */
	if (bad_tn(a)) {
		fprintf(stderr, "VERIF-TS-OUT-OF-RANGE\n");
		fflush(stderr);
		_exit(3);
	}
	if (!strcmp(name, "cfg") && n == 2) {
		rc = l1sched_configure_ts(sched, (int) a, (enum gsm_phys_chan_config) b);
		emit("%s;%s;", rcname(rc), evs_take());
		dump_ts(sched, a);
	} else if (!strcmp(name, "rts") && n == 1) {
		rc = l1sched_reset_ts(sched, (int) a);
		emit("%s;%s;", rcname(rc), evs_take());
		dump_ts(sched, a);
	} else if (!strcmp(name, "del") && n == 1) {
		l1sched_del_ts(sched, (int) a);
		emit("-;%s;", evs_take());
		dump_ts(sched, a);
	} else if ((!strcmp(name, "act") || !strcmp(name, "deact")) && n == 2) {
		if (!sched->ts[a]) {
			emit("nots;-;~");
		} else {
			if (name[0] == 'a')
				rc = l1sched_activate_lchan(sched->ts[a], (enum l1sched_lchan_type) b);
			else
				rc = l1sched_deactivate_lchan(sched->ts[a], (enum l1sched_lchan_type) b);
			emit("%s;%s;", rcname(rc), evs_take());
			dump_ts(sched, a);
		}
	} else if ((!strcmp(name, "rx") && n == 2) || (!strcmp(name, "rxn") && n == 3)) {
		unsigned long k, cnt = name[2] ? c : 1;
		for (k = 0; k < cnt; k++) {
			static struct l1sched_burst_ind bi;
			memset(&bi, 0, sizeof(bi));
			bi.fn = (uint32_t) (b + k);
			bi.tn = (uint8_t) a;
			bi.rssi = -60;
			bi.bid = 255;
			bi.burst_len = GSM_NBITS_NB_GMSK_BURST;
			rc = l1sched_handle_rx_burst(sched, &bi);
			emit("%s%s;%s;B%u", k ? "+" : "", rcname(rc), evs_take(), (unsigned) bi.bid);
		}
		if (cnt == 0)
			emit("-");
	} else if ((!strcmp(name, "tx") && n == 2) || (!strcmp(name, "txn") && n == 3)) {
		unsigned long k, cnt = name[2] ? c : 1;
		for (k = 0; k < cnt; k++) {
			static struct l1sched_burst_req br;
			memset(&br, 0, sizeof(br));
			br.fn = (uint32_t) (b + k);
			br.tn = (uint8_t) a;
			br.bid = 255;
			l1sched_pull_burst(sched, &br);
			emit("%s-;%s;B%u", k ? "+" : "", evs_take(), (unsigned) br.bid);
		}
		if (cnt == 0)
			emit("-");
	} else if (!strcmp(name, "probe") && n == 2) {
		struct l1sched_probe probe = { .flags = 0, .fn = (uint32_t) b, .tn = (uint8_t) a };
		rc = l1sched_handle_rx_probe(sched, &probe);
		emit("%s;%s;F%lu", rcname(rc), evs_take(), (unsigned long) probe.flags);
	} else if (!strcmp(name, "setl") && n == 4) {
		/* state injection for the correspondence: lchan->tdma.{last_proc,num_proc} */
		struct l1sched_lchan_state *lchan;
		if (!sched->ts[a]) {
			emit("nots");
		} else if (sched->ts[a]->lchans.next == NULL) {
			emit("nolchan");
		} else {
			lchan = l1sched_find_lchan_by_type(sched->ts[a], (enum l1sched_lchan_type) b);
			if (!lchan) {
				emit("nolchan");
			} else {
				lchan->tdma.last_proc = (uint32_t) c;
				lchan->tdma.num_proc = d;
				emit("ok");
			}
		}
	} else if (!strcmp(name, "dump") && n == 1) {
		dump_ts(sched, a);
	} else {
		return 1;
	}
	return 0;
}

static void run_seq(char *line, int fd)
{
	static const struct l1sched_cfg cfg = { .log_prefix = "" };
	struct l1sched_state *sched = l1sched_alloc(NULL, &cfg, NULL);
	char *save = NULL, *op;
	int k = 0, bad = 0;
	for (op = strtok_r(line, " \t\r\n", &save); op; op = strtok_r(NULL, " \t\r\n", &save)) {
		if (k)
			emit("|");
		if (do_op(sched, op)) {
			bad = 1;
			break;
		}
		k++;
		*progress = k;
	}
	if (bad) {
		(void) !write(fd, "\001bad-op", 7);
		return;
	}
	if (k == 0)
		emit("-");
	(void) !write(fd, out, out_len);
}

static char *slurp(int fd, size_t *len)
{
	size_t cap = 65536, n = 0;
	char *buf = malloc(cap);
	for (;;) {
		ssize_t r;
		if (cap - n < 32768) {
			cap *= 2;
			buf = realloc(buf, cap);
		}
		r = read(fd, buf + n, cap - n - 1);
		if (r <= 0)
			break;
		n += r;
	}
	buf[n] = 0;
	*len = n;
	return buf;
}

int main(void)
{
	char *line = NULL;
	size_t cap = 0;
	while (getline(&line, &cap, stdin) > 0) {
		int po[2], pe[2], status;
		size_t n, ne, ops;
		char *o, *e;
		pid_t pid;
		if (!strncmp(line, "ts.consts", 9)) {
			printf("_L1SCHED_CHAN_MAX=%d TRX_TS_COUNT=%d GSM_TDMA_HYPERFRAME=%d\n",
			       (int) _L1SCHED_CHAN_MAX, (int) TRX_TS_COUNT, (int) GSM_TDMA_HYPERFRAME);
			continue;
		}
		if (strncmp(line, "ts.seq", 6) || (line[6] != ' ' && line[6] != '\n' && line[6] != 0)) {
			printf("bad-op\n");
			continue;
		}
		fflush(stdout);
		if (!progress)
			progress = mmap(NULL, 4096, PROT_READ | PROT_WRITE, MAP_SHARED | MAP_ANONYMOUS, -1, 0);
		*progress = 0;
		if (pipe(po) || pipe(pe))
			return 2;
		fcntl(pe[1], F_SETPIPE_SZ, 1 << 20);
		pid = fork();
		if (pid < 0)
			return 2;
		if (pid == 0) {
			close(po[0]);
			close(pe[0]);
			dup2(pe[1], 2);
			dup2(pe[1], 1);		/* stdout of the code under test: not the protocol stream */
			run_seq(line + 6, po[1]);
			_exit(0);
		}
		close(po[1]);
		close(pe[1]);
		o = slurp(po[0], &n);
		e = slurp(pe[0], &ne);
		close(po[0]);
		close(pe[0]);
		waitpid(pid, &status, 0);
		if (WIFEXITED(status) && WEXITSTATUS(status) == 0) {
			if (n >= 7 && !memcmp(o + n - 7, "\001bad-op", 7))
				printf("bad-op\n");
			else
				printf("%s\n", o);
		} else {
			const char *kind = "other";
			ops = *progress;
			if (strstr(e, "VERIF-TS-OUT-OF-RANGE"))
				kind = "ts-out-of-range";
			else if (strstr(e, "out of bounds for type 'const struct l1sched_lchan_desc"))
				kind = "desc";
			else if (strstr(e, "shift exponent"))
				kind = "shift";
			else if (strstr(e, "use-after-poison"))
				kind = "out-of-table";
			else if (strstr(e, "division by zero") || strstr(e, "FPE"))
				kind = "period-zero";
			else if (strstr(e, "null pointer") || strstr(e, "SEGV"))
				kind = "null";
			else if (strstr(e, "VERIF-PANIC"))
				kind = "panic";
			else
				fprintf(stderr, "c11_sched_harness: unclassified child failure (status %d): %.1500s\n", status, e);
			printf("crash:%s@%lu\n", kind, (unsigned long) ops);
		}
		free(o);
		free(e);
	}
	return 0;
}
