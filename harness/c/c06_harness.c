/* C06 harness: drives the REAL serial framing code -- sercomm.c (-DHOST_BUILD, as
 * src/host/osmocon builds it) with the in-tree msgb.c / talloc.c, all compiled
 * unchanged from the repo -- through the same line protocol as the Lean driver
 * (lean/OsmoVerif/Driver/Sercomm.lean).
 *
 * One request line is a whole history, executed on a fresh sercomm instance
 * (each line runs in a forked child, so the static state of sercomm.c starts
 * zeroed + sercomm_init() and a sanitizer abort costs only that line):
 *
 *   sc.run OP OP ...        (sc.runt when built without -DHOST_BUILD: firmware flavour, 256 octet buffer)
 *     reg D        sercomm_register_rx_cb(D, recorder)          -> g:<rc>
 *     send D HEX   msg = sercomm_alloc_msgb(max(len, 1)); put HEX; sercomm_sendmsg(D, msg)
 *     pull N       up to N times sercomm_drv_pull(); stops when it returns 0
 *                                                              -> p:<octets pulled> (merged), e (returned 0)
 *     rx HEX       sercomm_drv_rx_char() for every octet        -> o (a call returned 0)
 *     loop N       up to N times: pull one octet and feed it to sercomm_drv_rx_char()
 *     (HEX is "-" for the empty string)
 *   answer: the observable events in the order they happened, blank separated:
 *     p:<hex>  c:<dlci>:<hex payload>  (recorder callback)  o  e  g:<rc>
 *   or `CRASH` when the child died (sanitizer report, signal), `bad-op` for a malformed line.
 *
 * Environment stubs live only here: osmo_panic (called by MSGB_ABORT of msgb.h when a
 * msgb_put/msgb_push exceeds the buffer) aborts -> `CRASH`; sercomm_lock/unlock are
 * provided by sercomm.c itself under HOST_BUILD; no uart/irq is referenced in the host build.
 */
#include <stdio.h>
#include <stdint.h>
#include <stdlib.h>
#include <string.h>
#include <unistd.h>
#include <sys/types.h>
#include <sys/wait.h>

#include <osmocom/core/msgb.h>
#ifdef HOST_BUILD
#include <sercomm.h>
#else
/* target flavour of sercomm.c (SERCOMM_RX_MSG_SIZE 256): the UART driver is the environment */
#include <comm/sercomm.h>
#include <uart.h>
void uart_irq_enable(uint8_t uart, enum uart_irq irq, int on) { }
#endif

#include <stdarg.h>
/* environment: libosmocore's panic hook (panic.c) -- msgb.h's MSGB_ABORT ends here */
void osmo_panic(const char *fmt, ...)
{
	va_list ap;
	va_start(ap, fmt);
	vfprintf(stderr, fmt, ap);
	va_end(ap);
	abort();
}

static char *out;
static size_t out_len, out_cap;
static int pull_open;	/* last token is an open p:<hex> run */

static void out_raw(const char *s, size_t n)
{
	if (out_len + n + 1 > out_cap) {
		out_cap = (out_len + n + 1) * 2;
		out = realloc(out, out_cap);
		if (!out)
			_exit(3);
	}
	memcpy(out + out_len, s, n);
	out_len += n;
	out[out_len] = 0;
}

static void out_tok(const char *s)
{
	if (out_len)
		out_raw(" ", 1);
	out_raw(s, strlen(s));
	pull_open = 0;
}

static void out_hex(const uint8_t *d, size_t n)
{
	static const char hx[] = "0123456789abcdef";
	size_t i;
	char b[2];
	if (!n)
		out_raw("-", 1);
	for (i = 0; i < n; i++) {
		b[0] = hx[d[i] >> 4];
		b[1] = hx[d[i] & 15];
		out_raw(b, 2);
	}
}

static void out_pulled(uint8_t ch)
{
	if (!pull_open) {
		out_tok("p:");
		pull_open = 1;
	}
	out_hex(&ch, 1);
}

/* the handler registered for the DLCIs under test: records (dlci, payload) */
static void recorder(uint8_t dlci, struct msgb *msg)
{
	char b[32];
	snprintf(b, sizeof(b), "c:%u:", dlci);
	out_tok(b);
	out_hex(msg->data, msgb_length(msg));
	msgb_free(msg);
}

static int hexval(int c)
{
	if (c >= '0' && c <= '9') return c - '0';
	if (c >= 'a' && c <= 'f') return c - 'a' + 10;
	if (c >= 'A' && c <= 'F') return c - 'A' + 10;
	return -1;
}

/* returns length or -1 */
static long unhex(const char *s, uint8_t **res)
{
	size_t n = strlen(s), i;
	uint8_t *b;
	*res = NULL;
	if (!strcmp(s, "-")) {
		*res = malloc(1);
		return 0;
	}
	if (n % 2)
		return -1;
	b = malloc(n / 2 + 1);
	for (i = 0; i < n / 2; i++) {
		int h = hexval(s[2 * i]), l = hexval(s[2 * i + 1]);
		if (h < 0 || l < 0) {
			free(b);
			return -1;
		}
		b[i] = 16 * h + l;
	}
	*res = b;
	return n / 2;
}

static int parse_u(const char *s, unsigned long max, unsigned long *v)
{
	char *end;
	if (!s || !*s || *s < '0' || *s > '9')
		return -1;
	*v = strtoul(s, &end, 10);
	if (*end || *v > max)
		return -1;
	return 0;
}

static int do_pull_one(int feed)
{
	uint8_t ch;
	int rc = sercomm_drv_pull(&ch);
	if (rc == 0) {
		out_tok("e");
		return 0;
	}
	out_pulled(ch);
	if (feed && sercomm_drv_rx_char(ch) == 0)
		out_tok("o");
	return 1;
}

/* returns 0 ok, -1 malformed */
static int run_ops(char **tok, int ntok)
{
	int i = 0;
	sercomm_init();
	while (i < ntok) {
		unsigned long a, k;
		if (!strcmp(tok[i], "reg") && i + 1 < ntok) {
			char b[32];
			if (parse_u(tok[i + 1], 255, &a))
				return -1;
			snprintf(b, sizeof(b), "g:%d", sercomm_register_rx_cb((uint8_t) a, recorder));
			out_tok(b);
			i += 2;
		} else if (!strcmp(tok[i], "send") && i + 2 < ntok) {
			uint8_t *d;
			long n;
			struct msgb *msg;
			if (parse_u(tok[i + 1], 255, &a))
				return -1;
			n = unhex(tok[i + 2], &d);
			if (n < 0 || n > 60000)
				return -1;
			/* the caller's buffer: room for the payload; at least 1, because
			 * sercomm_alloc_msgb(0) -> msgb_alloc_headroom(4, 4) evaluates
			 * osmo_static_assert(size > headroom) on run-time values, a
			 * negative VLA bound (flagged by UBSan; not part of the code under test) */
			msg = sercomm_alloc_msgb(n ? n : 1);
			if (!msg)
				_exit(4);
			if (n)
				memcpy(msgb_put(msg, n), d, n);
			free(d);
			sercomm_sendmsg((uint8_t) a, msg);
			i += 3;
		} else if ((!strcmp(tok[i], "pull") || !strcmp(tok[i], "loop")) && i + 1 < ntok) {
			int feed = tok[i][0] == 'l';
			if (parse_u(tok[i + 1], 100000000UL, &a))
				return -1;
			for (k = 0; k < a; k++)
				if (!do_pull_one(feed))
					break;
			i += 2;
		} else if (!strcmp(tok[i], "rx") && i + 1 < ntok) {
			uint8_t *d;
			long n = unhex(tok[i + 1], &d), j;
			if (n < 0)
				return -1;
			for (j = 0; j < n; j++)
				if (sercomm_drv_rx_char(d[j]) == 0)
					out_tok("o");
			free(d);
			i += 2;
		} else {
			return -1;
		}
	}
	return 0;
}

static void write_all(const char *s, size_t n)
{
	while (n) {
		ssize_t w = write(1, s, n);
		if (w <= 0)
			_exit(5);
		s += w;
		n -= w;
	}
}

int main(void)
{
	char *line = NULL;
	size_t cap = 0;
	ssize_t len;

	while ((len = getline(&line, &cap, stdin)) > 0) {
		pid_t pid;
		int status = 0;

		pid = fork();
		if (pid < 0)
			return 6;
		if (pid == 0) {
			char **tok = malloc(sizeof(char *) * (len / 2 + 2));
			int ntok = 0, rc;
			char *p = strtok(line, " \t\r\n");
			while (p) {
				tok[ntok++] = p;
				p = strtok(NULL, " \t\r\n");
			}
#ifdef HOST_BUILD
#define VERB "sc.run"
#else
#define VERB "sc.runt"
#endif
			if (ntok < 1 || strcmp(tok[0], VERB)) {
				write_all("bad-op\n", 7);
				_exit(0);
			}
			rc = run_ops(tok + 1, ntok - 1);
			if (rc < 0) {
				write_all("bad-op\n", 7);
				_exit(0);
			}
			if (!out_len)
				out_raw("ok", 2);
			out_raw("\n", 1);
			write_all(out, out_len);
			_exit(0);
		}
		if (waitpid(pid, &status, 0) < 0)
			return 7;
		if (!WIFEXITED(status) || WEXITSTATUS(status) != 0)
			write_all("CRASH\n", 6);
	}
	free(line);
	return 0;
}
