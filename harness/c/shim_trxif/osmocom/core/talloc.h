/* shim: talloc -> calloc/free (no hierarchy) */
#pragma once
#include <stdlib.h>
#define talloc_zero(ctx, type)	((type *) calloc(1, sizeof(type)))
#define talloc_free(p)		free(p)
