/* shim: osmo_fsm -- data structures as in libosmocore; the instance functions are a
 * recorder: state changes are checked against out_state_mask exactly like
 * osmo_fsm_inst_state_chg() does (a transition that is not permitted returns -EPERM and
 * leaves the state alone) and recorded; terminations are recorded (the cleanup callback
 * is not run, the harness owns the instance). */
#pragma once
#include <stdint.h>
#include <stdbool.h>
#include <osmocom/core/linuxlist.h>
#include <osmocom/core/timer.h>
#include <osmocom/core/utils.h>
#include <osmocom/core/logging.h>

struct osmo_fsm_inst;

enum osmo_fsm_term_cause {
	OSMO_FSM_TERM_PARENT,
	OSMO_FSM_TERM_REQUEST,
	OSMO_FSM_TERM_REGULAR,
	OSMO_FSM_TERM_ERROR,
	OSMO_FSM_TERM_TIMEOUT,
};

struct osmo_fsm_state {
	uint32_t in_event_mask;
	uint32_t out_state_mask;
	const char *name;
	void (*action)(struct osmo_fsm_inst *fi, uint32_t event, void *data);
	void (*onenter)(struct osmo_fsm_inst *fi, uint32_t prev_state);
	void (*onleave)(struct osmo_fsm_inst *fi, uint32_t next_state);
};

struct osmo_fsm {
	struct llist_head list;
	struct llist_head instances;
	const char *name;
	const struct osmo_fsm_state *states;
	unsigned int num_states;
	uint32_t allstate_event_mask;
	void (*allstate_action)(struct osmo_fsm_inst *fi, uint32_t event, void *data);
	void (*cleanup)(struct osmo_fsm_inst *fi, enum osmo_fsm_term_cause cause);
	int (*timer_cb)(struct osmo_fsm_inst *fi);
	const struct value_string *event_names;
	int log_subsys;
	void (*pre_term)(struct osmo_fsm_inst *fi, enum osmo_fsm_term_cause cause);
};

struct osmo_fsm_inst {
	struct llist_head list;
	struct osmo_fsm *fsm;
	const char *id;
	const char *name;
	void *priv;
	int log_level;
	uint32_t state;
	int T;
	struct osmo_timer_list timer;
	struct {
		struct osmo_fsm_inst *parent;
		uint32_t parent_term_event;
		struct llist_head children;
		struct llist_head child;
	} proc;
};

int osmo_fsm_register(struct osmo_fsm *fsm);
struct osmo_fsm_inst *osmo_fsm_inst_alloc_child(struct osmo_fsm *fsm, struct osmo_fsm_inst *parent,
						uint32_t parent_term_event);
void osmo_fsm_inst_free(struct osmo_fsm_inst *fi);

int _osmo_fsm_inst_state_chg(struct osmo_fsm_inst *fi, uint32_t new_state,
			     unsigned long timeout_secs, int T, const char *file, int line);
#define osmo_fsm_inst_state_chg(fi, new_state, timeout_secs, T) \
	_osmo_fsm_inst_state_chg(fi, new_state, timeout_secs, T, __FILE__, __LINE__)

void _osmo_fsm_inst_term(struct osmo_fsm_inst *fi, enum osmo_fsm_term_cause cause, void *data,
			 const char *file, int line);
#define osmo_fsm_inst_term(fi, cause, data) \
	_osmo_fsm_inst_term(fi, cause, data, __FILE__, __LINE__)

/* logging macros of fsm.h: evaluate and format the arguments (see logging.h) */
#define LOGPFSMSL(fi, subsys, level, fmt, args...) \
	shim_log_sink(subsys, level, __FILE__, __LINE__, "%s" fmt, shim_fsm_inst_name(fi), ## args)
#define LOGPFSML(fi, level, fmt, args...) \
	LOGPFSMSL(fi, (fi) ? (fi)->fsm->log_subsys : -1, level, fmt, ## args)
const char *shim_fsm_inst_name(const struct osmo_fsm_inst *fi);
