/* shim: the in-tree utils.h plus the macros newer libosmocore added */
#pragma once
#include_next <osmocom/core/utils.h>
#include <stdbool.h>
#include <stdlib.h>
#include <stdio.h>
#ifndef OSMO_ASSERT
#define OSMO_ASSERT(exp) \
	do { if (!(exp)) { fprintf(stderr, "Assert failed %s %s:%d\n", #exp, __FILE__, __LINE__); abort(); } } while (0)
#endif

/* string-buffer helpers of newer libosmocore (osmocom/core/utils.h), as defined there */
#ifndef OSMO_STRBUF_APPEND
#include <stddef.h>
#include <string.h>
struct osmo_strbuf {
	char *buf;
	size_t len;
	char *pos;
	size_t chars_needed;
};
#define OSMO_STRBUF_REMAIN(STRBUF) \
	((STRBUF).buf && ((STRBUF).pos - (STRBUF).buf) < (ptrdiff_t)(STRBUF).len ? \
	 (STRBUF).len - (((STRBUF).pos ? (STRBUF).pos : (STRBUF).buf) - (STRBUF).buf) : 0)
#define OSMO_STRBUF_APPEND(STRBUF, func, args...) do { \
		if (!(STRBUF).pos) \
			(STRBUF).pos = (STRBUF).buf; \
		size_t _sb_remain = (STRBUF).buf ? (STRBUF).len - ((STRBUF).pos - (STRBUF).buf) : 0; \
		int _sb_l = func((STRBUF).pos, _sb_remain, ##args); \
		if (_sb_l < 0 || (size_t)_sb_l > _sb_remain) \
			(STRBUF).pos = (STRBUF).buf + (STRBUF).len; \
		else if ((STRBUF).pos) \
			(STRBUF).pos += _sb_l; \
		if (_sb_l > 0) \
			(STRBUF).chars_needed += _sb_l; \
	} while (0)
#define OSMO_STRBUF_PRINTF(STRBUF, fmt, args...) OSMO_STRBUF_APPEND(STRBUF, snprintf, fmt, ##args)
#define OSMO_STRBUF_APPEND_NOLEN(STRBUF, func, args...) do { \
		if (!(STRBUF).pos) \
			(STRBUF).pos = (STRBUF).buf; \
		size_t _sb_remain = (STRBUF).buf ? (STRBUF).len - ((STRBUF).pos - (STRBUF).buf) : 0; \
		if (_sb_remain) { \
			func((STRBUF).pos, _sb_remain, ##args); \
		} \
		size_t _sb_l = (STRBUF).pos ? strnlen((STRBUF).pos, _sb_remain) : 0; \
		if (_sb_l > _sb_remain) \
			(STRBUF).pos = (STRBUF).buf + (STRBUF).len; \
		else if ((STRBUF).pos) \
			(STRBUF).pos += _sb_l; \
		(STRBUF).chars_needed += _sb_l; \
	} while (0)
#define OSMO_STRBUF_CHAR_COUNT(STRBUF) ((STRBUF).chars_needed)
#endif
#ifndef OSMO_MAX
#define OSMO_MAX(a, b) ((a) >= (b) ? (a) : (b))
#endif
#ifndef OSMO_MIN
#define OSMO_MIN(a, b) ((a) >= (b) ? (b) : (a))
#endif
#ifndef OSMO_STRINGIFY
#define OSMO_STRINGIFY(x) #x
#define OSMO_STRINGIFY_VAL(x) OSMO_STRINGIFY(x)
#endif
