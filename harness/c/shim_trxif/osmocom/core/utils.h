/* shim: the in-tree utils.h plus the macros newer libosmocore added */
#pragma once
#include_next <osmocom/core/utils.h>
#include <stdbool.h>
#include <stdlib.h>
#include <stdio.h>
#ifndef OSMO_ASSERT
#define OSMO_ASSERT(exp) \
	do { if (!(exp)) { fprintf(stderr, "Assert failed %s %s:%d\n", #exp, __FILE__, __LINE__); abort(); } } while (0)
#endif
