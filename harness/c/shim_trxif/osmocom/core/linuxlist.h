/* shim: the in-tree linuxlist.h is used as is */
#pragma once
#include_next <osmocom/core/linuxlist.h>
