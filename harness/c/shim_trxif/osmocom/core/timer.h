/* shim: timers are recorded, never fired */
#pragma once
#include <osmocom/core/linuxlist.h>

struct osmo_timer_list {
	struct llist_head list;
	unsigned int active;
	void (*cb)(void *);
	void *data;
};

void osmo_timer_schedule(struct osmo_timer_list *timer, int seconds, int microseconds);
void osmo_timer_del(struct osmo_timer_list *timer);
