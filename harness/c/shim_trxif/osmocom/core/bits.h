/* shim: in-tree bits.h (sbit_t, ubit_t) + osmo_load32be/osmo_store32be as in
 * libosmocore's generated bit32gen.h */
#pragma once
#include_next <osmocom/core/bits.h>
#include <stdint.h>
#include <stddef.h>

static inline uint32_t osmo_load32be_ext(const void *p, uint8_t n)
{
	uint8_t i;
	uint32_t r = 0;
	const uint8_t *q = (uint8_t *)p;
	for (i = 0; i < n; r |= ((uint32_t)q[i] << (32 - 8 * (1 + i))), i++);
	return r;
}

static inline void osmo_store32be_ext(uint32_t x, void *p, uint8_t n)
{
	uint8_t i;
	uint8_t *q = (uint8_t *)p;
	for (i = 0; i < n; q[i] = (x >> ((n - 1 - i) * 8)) & 0xFF, i++);
}

static inline uint32_t osmo_load32be(const void *p)
{
	return osmo_load32be_ext(p, 32 / 8);
}

static inline void osmo_store32be(uint32_t x, void *p)
{
	osmo_store32be_ext(x, p, 32 / 8);
}
