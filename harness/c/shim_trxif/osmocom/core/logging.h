/* shim: libosmocore logging -> argument sink.  The arguments ARE evaluated and
 * formatted into a scratch buffer (so a bad pointer / uninitialised value handed to a
 * log statement is seen by the sanitizers); the text itself is never an observable. */
#pragma once
#include <stdio.h>
#include <stdarg.h>
#include <stdbool.h>
#include <stdint.h>

#define LOGL_DEBUG	1
#define LOGL_INFO	3
#define LOGL_NOTICE	5
#define LOGL_ERROR	7
#define LOGL_FATAL	8

void shim_log_sink(int subsys, int level, const char *file, int line, const char *fmt, ...)
	__attribute__((format(printf, 5, 6)));

#define LOGP(ss, level, fmt, args...) \
	shim_log_sink(ss, level, __FILE__, __LINE__, fmt, ## args)
