/* shim: struct osmo_fd as a plain struct; (un)registration is recorded only */
#pragma once
#include <osmocom/core/linuxlist.h>
#include <stdbool.h>

#define OSMO_FD_READ	0x0001
#define OSMO_FD_WRITE	0x0002
#define OSMO_FD_EXCEPT	0x0004

struct osmo_fd {
	struct llist_head list;
	int fd;
	unsigned int when;
	int (*cb)(struct osmo_fd *fd, unsigned int what);
	void *data;
	unsigned int priv_nr;
};

void osmo_fd_unregister(struct osmo_fd *fd);
