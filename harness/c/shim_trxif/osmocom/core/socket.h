/* shim: the harness never opens UDP sockets; trx_udp_open() is compiled but not called */
#pragma once
#include <stdint.h>
#include <sys/socket.h>
#include <osmocom/core/select.h>

#define OSMO_SOCK_F_CONNECT	(1 << 0)
#define OSMO_SOCK_F_BIND	(1 << 1)

int osmo_sock_init2_ofd(struct osmo_fd *ofd, int family, int type, int proto,
			const char *local_host, uint16_t local_port,
			const char *remote_host, uint16_t remote_port, unsigned int flags);
