/* shim: TDMA frame number helpers and burst lengths of current libosmocore's gsm0502.h */
#pragma once
#include <stdint.h>

/* Table 5.2.3 / clause 4.3.3: superframe = 26 * 51 frames, hyperframe = 2048 superframes */
#define GSM_TDMA_SUPERFRAME	(26 * 51)
#define GSM_TDMA_HYPERFRAME	(2048 * GSM_TDMA_SUPERFRAME)

#define GSM_TDMA_FN_SUM(a, b) \
	((a + b) % GSM_TDMA_HYPERFRAME)
#define GSM_TDMA_FN_SUB(a, b) \
	((a + GSM_TDMA_HYPERFRAME - b) % GSM_TDMA_HYPERFRAME)
#define GSM_TDMA_FN_INC(fn) \
	((fn) = GSM_TDMA_FN_SUM((fn), 1))
#define GSM_TDMA_FN_DEC(fn) \
	((fn) = GSM_TDMA_FN_SUB((fn), 1))

/* 5.2.3 Normal burst: 148 symbols (GMSK: 1 bit, 8-PSK: 3 bits per symbol) */
#define GSM_NBITS_NB_GMSK_BURST	148
#define GSM_NBITS_NB_8PSK_BURST	(GSM_NBITS_NB_GMSK_BURST * 3)
