/* shim: the subset of <osmocom/gsm/gsm_utils.h> trx_if.c needs, with the declarations of
 * current libosmocore (the in-tree copy predates gsm_freq102arfcn and the *_CBCH channel
 * configurations).  gsm_arfcn2freq10() is linked from the in-tree
 * src/shared/libosmocore/src/gsm/gsm_utils.c; gsm_freq102arfcn() is provided by
 * harness/c/trxcon/shim_impl.c (transcribed from libosmocore). */
#pragma once
#include <stdint.h>

#define GSM_MAX_FN	(26*51*2048)

#define	ARFCN_PCS	0x8000
#define	ARFCN_UPLINK	0x4000
#define	ARFCN_FLAG_MASK	0xf000	/* Reserve the upper 5 bits for flags */

uint16_t gsm_arfcn2freq10(uint16_t arfcn, int uplink);
uint16_t gsm_freq102arfcn(uint16_t freq10, int uplink);

/* Osmocom internal, not part of any gsm spec (order as in libosmocore) */
enum gsm_phys_chan_config {
	GSM_PCHAN_NONE,
	GSM_PCHAN_CCCH,
	GSM_PCHAN_CCCH_SDCCH4,
	GSM_PCHAN_TCH_F,
	GSM_PCHAN_TCH_H,
	GSM_PCHAN_SDCCH8_SACCH8C,
	GSM_PCHAN_PDCH,		/* GPRS PDCH */
	GSM_PCHAN_TCH_F_PDCH,	/* TCH/F if used, PDCH otherwise */
	GSM_PCHAN_UNKNOWN,
	GSM_PCHAN_CCCH_SDCCH4_CBCH,
	GSM_PCHAN_SDCCH8_SACCH8C_CBCH,
	GSM_PCHAN_OSMO_DYN,
	_GSM_PCHAN_MAX
};
