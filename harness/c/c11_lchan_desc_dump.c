/* C11 translator, trxcon side: prints (as JSON) what sched_trx.c reads of
 * l1sched_lchan_desc[] (src/host/trxcon/src/sched_lchan_desc.c, #included unchanged:
 * -DC11_LCHAN_DESC_C="<path>"): per logical channel whether an Rx / Tx handler exists,
 * the flags, chan_nr, link_id; and the constants _L1SCHED_CHAN_MAX, TRX_TS_COUNT,
 * L1SCHED_CH_FLAG_AUTO, L1SCHED_PROBE_F_ACTIVE.  The handler functions themselves are the
 * environment (c11_sched_names.inc lists the names declared in the file).
 */
#include <stdio.h>
#include <stdint.h>
#include <stddef.h>

#include C11_LCHAN_DESC_C

#define RXFN(n) int n(struct l1sched_lchan_state *lchan, const struct l1sched_burst_ind *bi) { return 0; }
#define TXFN(n) int n(struct l1sched_lchan_state *lchan, struct l1sched_burst_req *br) { return 0; }
#include "c11_sched_names.inc"

int main(void)
{
	unsigned i, n = sizeof(l1sched_lchan_desc) / sizeof(l1sched_lchan_desc[0]);
	printf("{\"consts\": {\"L1SCHED_CHAN_MAX\": %d, \"TRX_TS_COUNT\": %d, \"L1SCHED_CH_FLAG_AUTO\": %d, "
	       "\"L1SCHED_PROBE_F_ACTIVE\": %d},\n \"desc\": [",
	       (int) _L1SCHED_CHAN_MAX, (int) TRX_TS_COUNT, (int) L1SCHED_CH_FLAG_AUTO, (int) L1SCHED_PROBE_F_ACTIVE);
	for (i = 0; i < n; i++) {
		const struct l1sched_lchan_desc *d = &l1sched_lchan_desc[i];
		printf("%s\n  {\"rx\": %d, \"tx\": %d, \"flags\": %u, \"chan_nr\": %u, \"link_id\": %u}", i ? "," : "",
		       d->rx_fn != NULL, d->tx_fn != NULL, (unsigned) d->flags, (unsigned) d->chan_nr, (unsigned) d->link_id);
	}
	printf("]}\n");
	return 0;
}
