/* C19 harness: drives gsm_fn2gsmtime / gsm_gsmtime2fn (in-tree libosmocore
 * gsm_utils.c) and l1s_time_inc (firmware sync.c), both compiled unchanged
 * from /repo, through the same line protocol as the Lean driver.
 *   gt.fn2time FN                -> fn t1 t2 t3 tc
 *   gt.time2fn T1 T2 T3          -> fn
 *   gt.inc FN T1 T2 T3 TC DELTA  -> fn t1 t2 t3 tc
 *   walk DELTA                   -> exhaustive property walk over the hyperframe (oracle, not model)
 */
#include <stdio.h>
#include <stdint.h>
#include <string.h>
#include <stdlib.h>
#include <osmocom/gsm/gsm_utils.h>

void l1s_time_inc(struct gsm_time *time, uint32_t delta_fn);

static void show(const struct gsm_time *t)
{
	printf("%lu %u %u %u %u\n", (unsigned long) t->fn, t->t1, t->t2, t->t3, t->tc);
}

int main(void)
{
	char line[256];
	while (fgets(line, sizeof(line), stdin)) {
		unsigned long a, b, c, d, e, f;
		struct gsm_time t;
		memset(&t, 0, sizeof(t));
		if (sscanf(line, "gt.fn2time %lu", &a) == 1) {
			gsm_fn2gsmtime(&t, (uint32_t) a);
			show(&t);
		} else if (sscanf(line, "gt.time2fn %lu %lu %lu", &a, &b, &c) == 3) {
			t.t1 = a; t.t2 = b; t.t3 = c;
			printf("%lu\n", (unsigned long) gsm_gsmtime2fn(&t));
		} else if (sscanf(line, "gt.inc %lu %lu %lu %lu %lu %lu", &a, &b, &c, &d, &e, &f) == 6) {
			t.fn = a; t.t1 = b; t.t2 = c; t.t3 = d; t.tc = e;
			l1s_time_inc(&t, (uint32_t) f);
			show(&t);
		} else if (sscanf(line, "walk %lu", &a) == 1) {
			/* property oracle (TS 45.002 4.3.3), independent of the functions under test */
			const uint32_t H = 26UL * 51UL * 2048UL;
			uint32_t fn, bad = 0, first = 0;
			for (fn = 0; fn < H; fn++) {
				uint32_t nfn = (fn + (uint32_t) a) % H;
				gsm_fn2gsmtime(&t, fn);
				if (t.t1 != fn / 1326 || t.t2 != fn % 26 || t.t3 != fn % 51 || t.tc != (fn / 51) % 8
				    || gsm_gsmtime2fn(&t) != fn) { if (!bad++) first = fn; continue; }
				l1s_time_inc(&t, (uint32_t) a);
				if (t.fn != nfn || t.t1 != nfn / 1326 || t.t2 != nfn % 26 || t.t3 != nfn % 51
				    || t.tc != (nfn / 51) % 8 || gsm_gsmtime2fn(&t) != nfn) { if (!bad++) first = fn; }
			}
			printf("walk %lu bad=%lu first=%lu\n", a, (unsigned long) bad, (unsigned long) first);
		} else {
			printf("bad-op\n");
		}
	}
	return 0;
}
