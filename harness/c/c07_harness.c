/* C07 harness: the firmware's rfch.c, compiled unchanged from /repo for the host
 * (it is #included so that the static helpers can also be called directly), driven with
 * the line protocol of the Lean driver.  `struct l1s_state l1s` is defined here.
 *
 *   hop.fw    TYPE H SERV H0 FN T1 T2 T3 HSN MAIO N MA  -> ok ARFCN     rfch_get_params(&t, &arfcn, NULL, NULL)
 *   hop.fwfn  HSN MAIO N FN MA                          -> ok ARFCN     gsm_fn2gsmtime(fn); type = TCH_F, h = 1
 *   hop.fwmai T1 T2 T3 FN HSN MAIO N                    -> ok MAI       rfch_hop_seq_gen(&t, hsn, maio, n, NULL)
 *   hop.fwpnm N                                         -> pow_nbin_mask(N)
 * oracle verbs (stateful, not mirrored by the Lean driver):
 *   o.setfh HSN MAIO MA                                 -> ok           configures l1s.dedicated (n = number of entries)
 *   o.range FN COUNT                                    -> COUNT ARFCNs for fn .. fn+count-1 (gsm_fn2gsmtime + rfch_get_params)
 *   o.res FN...                                         -> one ARFCN per FN
 * MA: "-" = empty, otherwise comma separated ARFCNs (at most 64: the size of l1s.dedicated.h1.ma[]).
 * Requests that would make the C code read outside rn_table[] / ma[] or divide by zero are
 * undefined behaviour; the check never sends them (it asks only the Lean model about them).
 */
#include <stdio.h>
#include <stdint.h>
#include <string.h>
#include <stdlib.h>

/* diagnostics of the code under test must not reach the protocol stream (stdout) */
static int c07_sink_printf(const char *fmt, ...) { (void) fmt; return 0; }
static int c07_sink_puts(const char *s) { (void) s; return 0; }
#define printf c07_sink_printf
#define puts c07_sink_puts
#include RFCH_C
#undef printf
#undef puts

struct l1s_state l1s;

/* the static helpers can be called directly only where the translation unit defines them (props/C07.py passes what
 * gen/hopping.py found); without them the same questions are asked through rfch_get_params() where that is possible */
#ifndef C07_HAVE_SEQ_GEN
#define C07_HAVE_SEQ_GEN 1
#endif
#ifndef C07_HAVE_PNM
#define C07_HAVE_PNM 1
#endif

#define MA_CAP (sizeof(l1s.dedicated.h1.ma) / sizeof(l1s.dedicated.h1.ma[0]))

static char line[1 << 16];

/* parse "-" or "a,b,c" into l1s.dedicated.h1.ma[]; returns count or -1 */
static int parse_ma(const char *s)
{
	int k = 0;
	if (!strcmp(s, "-"))
		return 0;
	while (*s) {
		char *end;
		unsigned long v = strtoul(s, &end, 10);
		if (end == s || k >= (int) MA_CAP)
			return -1;
		l1s.dedicated.h1.ma[k++] = (uint16_t) v;
		s = end;
		if (*s == ',')
			s++;
		else if (*s)
			return -1;
	}
	return k;
}

int main(void)
{
	static char mabuf[1 << 15];
	while (fgets(line, sizeof(line), stdin)) {
		unsigned long a[11];
		struct gsm_time t;
		uint16_t arfcn = 0;
		int k;
		memset(&t, 0, sizeof(t));
		if (sscanf(line, "hop.fw %lu %lu %lu %lu %lu %lu %lu %lu %lu %lu %lu %32767s",
			   &a[0], &a[1], &a[2], &a[3], &a[4], &a[5], &a[6], &a[7], &a[8], &a[9], &a[10], mabuf) == 12) {
			memset(&l1s, 0, sizeof(l1s));
			l1s.serving_cell.arfcn = a[2];
			l1s.dedicated.type = a[0];
			l1s.dedicated.h = a[1];
			if (l1s.dedicated.h) {
				if (parse_ma(mabuf) < 0) { printf("bad-op\n"); continue; }
				l1s.dedicated.h1.hsn = a[8];
				l1s.dedicated.h1.maio = a[9];
				l1s.dedicated.h1.n = a[10];
			} else {
				l1s.dedicated.h0.arfcn = a[3];
			}
			t.fn = a[4]; t.t1 = a[5]; t.t2 = a[6]; t.t3 = a[7];
			rfch_get_params(&t, &arfcn, NULL, NULL);
			printf("ok %u\n", arfcn);
		} else if (sscanf(line, "hop.fwfn %lu %lu %lu %lu %32767s", &a[0], &a[1], &a[2], &a[3], mabuf) == 5) {
			memset(&l1s, 0, sizeof(l1s));
			if (parse_ma(mabuf) < 0) { printf("bad-op\n"); continue; }
			l1s.dedicated.type = GSM_DCHAN_TCH_F;
			l1s.dedicated.h = 1;
			l1s.dedicated.h1.hsn = a[0];
			l1s.dedicated.h1.maio = a[1];
			l1s.dedicated.h1.n = a[2];
			gsm_fn2gsmtime(&t, (uint32_t) a[3]);
			rfch_get_params(&t, &arfcn, NULL, NULL);
			printf("ok %u\n", arfcn);
		} else if (sscanf(line, "hop.fwmai %lu %lu %lu %lu %lu %lu %lu",
				  &a[0], &a[1], &a[2], &a[3], &a[4], &a[5], &a[6]) == 7) {
			t.t1 = a[0]; t.t2 = a[1]; t.t3 = a[2]; t.fn = a[3];
#if C07_HAVE_SEQ_GEN
			printf("ok %d\n", (int) rfch_hop_seq_gen(&t, a[4], a[5], a[6], NULL));
#else
			/* the index itself, through the public entry point: a mobile allocation whose k-th entry is k */
			if (a[6] >= 1 && a[6] <= MA_CAP && a[4] < 256 && a[5] < 256) {
				unsigned q;
				memset(&l1s, 0, sizeof(l1s));
				l1s.dedicated.type = GSM_DCHAN_TCH_F;
				l1s.dedicated.h = 1;
				l1s.dedicated.h1.hsn = a[4];
				l1s.dedicated.h1.maio = a[5];
				l1s.dedicated.h1.n = a[6];
				for (q = 0; q < MA_CAP; q++)
					l1s.dedicated.h1.ma[q] = q;
				rfch_get_params(&t, &arfcn, NULL, NULL);
				printf("ok %u\n", arfcn);
			} else
				printf("skip\n");
#endif
		} else if (sscanf(line, "hop.fwpnm %lu", &a[0]) == 1) {
#if C07_HAVE_PNM
			printf("%d\n", pow_nbin_mask((int) a[0]));
#else
			printf("skip\n");
#endif
		} else if (sscanf(line, "o.setfh %lu %lu %32767s", &a[0], &a[1], mabuf) == 3) {
			memset(&l1s, 0, sizeof(l1s));
			k = parse_ma(mabuf);
			if (k < 1) { printf("bad-op\n"); continue; }
			l1s.dedicated.type = GSM_DCHAN_SDCCH_8;
			l1s.dedicated.h = 1;
			l1s.dedicated.h1.hsn = a[0];
			l1s.dedicated.h1.maio = a[1];
			l1s.dedicated.h1.n = k;
			printf("ok\n");
		} else if (sscanf(line, "o.range %lu %lu", &a[0], &a[1]) == 2) {
			unsigned long i;
			for (i = 0; i < a[1]; i++) {
				gsm_fn2gsmtime(&t, (uint32_t) (a[0] + i));
				rfch_get_params(&t, &arfcn, NULL, NULL);
				printf(i ? " %u" : "%u", arfcn);
			}
			printf("\n");
		} else if (!strncmp(line, "o.res ", 6)) {
			const char *q = line + 6;
			int first = 1;
			for (;;) {
				char *end;
				unsigned long fn = strtoul(q, &end, 10);
				if (end == q)
					break;
				q = end;
				gsm_fn2gsmtime(&t, (uint32_t) fn);
				rfch_get_params(&t, &arfcn, NULL, NULL);
				printf(first ? "%u" : " %u", arfcn);
				first = 0;
			}
			printf("\n");
		} else {
			printf("bad-op\n");
		}
	}
	return 0;
}
