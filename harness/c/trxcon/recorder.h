/* what the environment stubs of the trxcon harness record during one request line */
#pragma once
#include <stdint.h>

struct recorder {
	char ev[2048];		/* FSM / timer events in call order: S<n> state change, D<n> change
				 * denied by out_state_mask, T<cause> termination, ts<s>.<us> timer
				 * scheduled, td timer deleted */
	int ev_len;
	int elog;		/* number of log statements of level >= LOGL_ERROR */
	int terms;
	/* trxcon_phyif_handle_burst_ind */
	int n_ind;
	uint32_t ind_fn; uint8_t ind_tn; int16_t ind_toa256; int8_t ind_rssi;
	unsigned int ind_burst_len;
	int8_t ind_burst[1024];
	/* trxcon_phyif_handle_rts_ind */
	int n_rts;
	uint32_t rts_fn; uint8_t rts_tn;
	/* trxcon_phyif_handle_rsp */
	int n_rsp;
	int rsp_type; uint16_t rsp_arfcn; int rsp_dbm;
};

extern struct recorder rec;
void rec_reset(void);
void rec_event(const char *fmt, ...) __attribute__((format(printf, 1, 2)));
