/* what the environment stubs of the trxcon harness record during one request line */
#pragma once
#include <stdint.h>

struct recorder {
	char ev[2048];		/* FSM / timer events in call order: S<n> state change, D<n> change
				 * denied by out_state_mask, T<cause> termination, ts<s>.<us> timer
				 * scheduled, td timer deleted */
	int ev_len;
	int elog;		/* number of log statements of level >= LOGL_ERROR */
	int terms;
	/* trxcon_phyif_handle_burst_ind */
	int n_ind;
	/* wider than any declared field type: what the structure holds is recorded as it is, also if a field's type changes */
	long long ind_fn, ind_tn, ind_toa256, ind_rssi;
	unsigned int ind_burst_len;
	int8_t ind_burst[1024];
	/* trxcon_phyif_handle_rts_ind */
	int n_rts;
	long long rts_fn, rts_tn;
	/* trxcon_phyif_handle_rsp */
	int n_rsp;
	long long rsp_type, rsp_arfcn, rsp_dbm;
};

extern struct recorder rec;
void rec_reset(void);
void rec_event(const char *fmt, ...) __attribute__((format(printf, 1, 2)));
