/* trxcon harness: drives the REAL src/host/trxcon/src/trx_if.c (compiled unchanged: it is
 * #included below so that its static socket callbacks can be called) against the shim
 * headers of harness/c/shim_trxif, with the same line protocol as the Lean driver
 * (lean/OsmoVerif/Driver/TrxconIf.lean).  Stateless: every request line gets a fresh
 * trx_instance whose two descriptors are ends of socketpair(AF_UNIX, SOCK_DGRAM).
 *
 *   tc.rxd HEX [FN_ADVANCE]
 *        datagram -> data socket -> trx_data_rx_cb
 *        answer:  RC | -                                       nothing indicated
 *                 RC | ind TN FN RSSI TOA256 LEN SOFTHEX | rts FN TN
 *   tc.txd TN FN PWR BURST_LEN BITSHEX
 *        trx_if_handle_phyif_burst_req -> RC | HEX of the datagram passed to send()
 *   tc.cmd RESET | POWERON | POWEROFF | MEASURE arfcn | SETFREQ_H0 arfcn |
 *          SETFREQ_H1 hsn maio ma_len ma... | SETSLOT tn pchan | SETTA ta | RAW type
 *        trx_if_handle_phyif_cmd ->
 *                 RC | q CRIT:CMDLEN:HEX ... | sent HEX ... | ev EVENTS | st STATE PREV PU
 *   tc.rsp PENDINGHEX[,PENDINGHEX...]|- CRITICAL DATAGRAMHEX
 *        pending command(s) in trx_ctrl_list as trx_ctrl_cmd leaves them (state RSP_WAIT,
 *        prev_state IDLE), datagram -> control socket -> trx_ctrl_read_cb ->
 *                 RC | accepted|rejected|ignored | ev EVENTS | st STATE PREV PU QLEN ELOG |
 *                      rsp ARFCN DBM or - | sent HEX or -
 *   tc.consts    constants as the compiler sees them (translator gen/trxcon.py)
 *
 * A request that kills the process (sanitizer abort, SIGSEGV) is answered `CRASH`: the
 * parent keeps all request lines, a forked worker answers them in order; when the worker
 * dies the line it was working on gets `CRASH` and a new worker continues behind it.
 */
#define _GNU_SOURCE
#include <stdio.h>
#include <stdlib.h>
#include <string.h>
#include <stdint.h>
#include <unistd.h>
#include <errno.h>
#include <fcntl.h>
#include <sys/types.h>
#include <sys/socket.h>
#include <sys/wait.h>

#include "recorder.h"

#ifndef TRX_IF_C
#error "TRX_IF_C must name src/host/trxcon/src/trx_if.c of the repository under test"
#endif
#include TRX_IF_C
/* functions of the TRX interface that this tree keeps in other files of the same directory (props/trxcon_part.py finds them) */
#ifdef TRX_IF_EXTRA1
#include TRX_IF_EXTRA1
#endif
#ifdef TRX_IF_EXTRA2
#include TRX_IF_EXTRA2
#endif

const char *__asan_default_options(void) { return "detect_leaks=0:abort_on_error=0:exitcode=99:symbolize=0"; }
const char *__msan_default_options(void) { return "exitcode=99:symbolize=0"; }

struct osmo_fsm *shim_registered_fsm(void);

/* ---- stubs of the L1 side: record the arguments (copy the burst) ---- */
int trxcon_phyif_handle_burst_ind(void *priv, const struct trxcon_phyif_burst_ind *bi)
{
	unsigned int i;
	(void) priv;
	rec.n_ind++;
	rec.ind_fn = bi->fn; rec.ind_tn = bi->tn; rec.ind_toa256 = bi->toa256; rec.ind_rssi = bi->rssi;
	rec.ind_burst_len = bi->burst_len;
	for (i = 0; i < bi->burst_len && i < sizeof(rec.ind_burst); i++)
		rec.ind_burst[i] = bi->burst[i];
	return 0;
}

int trxcon_phyif_handle_rts_ind(void *priv, const struct trxcon_phyif_rts_ind *rts)
{
	(void) priv;
	rec.n_rts++;
	rec.rts_fn = rts->fn; rec.rts_tn = rts->tn;
	return 0;
}

int trxcon_phyif_handle_rsp(void *priv, const struct trxcon_phyif_rsp *rsp)
{
	(void) priv;
	rec.n_rsp++;
	rec.rsp_type = rsp->type;
	rec.rsp_arfcn = rsp->param.measure.band_arfcn;
	rec.rsp_dbm = rsp->param.measure.dbm;
	return 0;
}

/* ---- helpers ---- */
static FILE *out;

static int unhex(const char *s, uint8_t **res)
{
	size_t n = strlen(s), i;
	uint8_t *b;
	*res = NULL;
	if (!strcmp(s, "-"))
		return 0;
	if (n % 2)
		return -1;
	/* exactly n/2 octets on the heap: an over-read of the source is seen by ASan */
	b = malloc(n / 2 ? n / 2 : 1);
	for (i = 0; i < n / 2; i++) {
		unsigned int v;
		if (sscanf(s + 2 * i, "%2x", &v) != 1) { free(b); return -1; }
		b[i] = v;
	}
	if (n / 2 == 0) { free(b); b = NULL; }
	*res = b;
	return n / 2;
}

static void puthex(const uint8_t *b, size_t n)
{
	size_t i;
	if (n == 0) { fputc('-', out); return; }
	for (i = 0; i < n; i++)
		fprintf(out, "%02x", b[i]);
}

struct env {
	struct trx_instance *trx;
	struct osmo_fsm_inst *fi;
	int ctrl_peer, data_peer;
};

static void env_open(struct env *e, uint32_t state, uint32_t prev_state, uint32_t fn_advance)
{
	int sv[2];
	rec_reset();
	e->fi = osmo_fsm_inst_alloc_child(shim_registered_fsm(), NULL, 0);
	e->trx = calloc(1, sizeof(*e->trx));
	INIT_LLIST_HEAD(&e->trx->trx_ctrl_list);
	if (socketpair(AF_UNIX, SOCK_DGRAM, 0, sv) < 0) { perror("socketpair"); exit(3); }
	e->trx->trx_ofd_ctrl.fd = sv[0]; e->ctrl_peer = sv[1];
	e->trx->trx_ofd_ctrl.data = e->trx;
	if (socketpair(AF_UNIX, SOCK_DGRAM, 0, sv) < 0) { perror("socketpair"); exit(3); }
	e->trx->trx_ofd_data.fd = sv[0]; e->data_peer = sv[1];
	e->trx->trx_ofd_data.data = e->trx;
	fcntl(e->ctrl_peer, F_SETFL, O_NONBLOCK);
	fcntl(e->data_peer, F_SETFL, O_NONBLOCK);
	/* a read on an empty socket must not block the harness */
	fcntl(e->trx->trx_ofd_ctrl.fd, F_SETFL, O_NONBLOCK);
	fcntl(e->trx->trx_ofd_data.fd, F_SETFL, O_NONBLOCK);
	e->trx->fn_advance = fn_advance;
	e->trx->fi = e->fi;
	e->fi->priv = e->trx;
	e->fi->state = state;
	e->trx->prev_state = prev_state;
}

static void env_close(struct env *e)
{
	struct trx_ctrl_msg *tcm, *t2;
	llist_for_each_entry_safe(tcm, t2, &e->trx->trx_ctrl_list, list) {
		llist_del(&tcm->list);
		free(tcm);
	}
	close(e->trx->trx_ofd_ctrl.fd); close(e->trx->trx_ofd_data.fd);
	close(e->ctrl_peer); close(e->data_peer);
	free(e->trx);
	free(e->fi);
}

static void put_sent(int fd)
{
	static uint8_t dg[65536];
	int any = 0;
	fprintf(out, "sent");
	for (;;) {
		ssize_t n = recv(fd, dg, sizeof(dg), 0);
		if (n < 0)
			break;
		fputc(' ', out);
		puthex(dg, n);
		any = 1;
	}
	if (!any)
		fprintf(out, " -");
}

static int qlen(struct trx_instance *trx)
{
	struct llist_head *p;
	int n = 0;
	llist_for_each(p, &trx->trx_ctrl_list) n++;
	return n;
}

/* ---- verbs ---- */
static int do_rxd(char **tok, int ntok)
{
	struct env e;
	uint8_t *dg;
	int len, rc;
	unsigned int i;
	if (ntok < 2 || ntok > 3) return -1;
	len = unhex(tok[1], &dg);
	if (len < 0) return -1;
	env_open(&e, TRX_STATE_ACTIVE, TRX_STATE_IDLE, ntok == 3 ? (uint32_t) strtoul(tok[2], NULL, 10) : 2);
	if (send(e.data_peer, dg ? dg : (uint8_t *) "", len, 0) != len) { perror("send"); exit(3); }
	free(dg);
	rc = trx_data_rx_cb(&e.trx->trx_ofd_data, OSMO_FD_READ);
	fprintf(out, "%d |", rc);
	if (rec.n_ind == 0 && rec.n_rts == 0) {
		fprintf(out, " -");
	} else {
		fprintf(out, " ind");
		if (rec.n_ind != 1) fprintf(out, "*%d", rec.n_ind);
		fprintf(out, " %lld %lld %lld %lld %u ", rec.ind_tn, rec.ind_fn, rec.ind_rssi, rec.ind_toa256, rec.ind_burst_len);
		if (rec.ind_burst_len == 0) fputc('-', out);
		for (i = 0; i < rec.ind_burst_len && i < sizeof(rec.ind_burst); i++)
			fprintf(out, "%02x", (uint8_t) rec.ind_burst[i]);
		fprintf(out, " | rts");
		if (rec.n_rts != 1) fprintf(out, "*%d", rec.n_rts);
		fprintf(out, " %lld %lld", rec.rts_fn, rec.rts_tn);
	}
	fputc('\n', out);
	env_close(&e);
	return 0;
}

static int do_txd(char **tok, int ntok)
{
	struct env e;
	struct trxcon_phyif_burst_req br;
	uint8_t *bits;
	static uint8_t dg[65536];
	int len, rc;
	ssize_t n;
	if (ntok != 6) return -1;
	len = unhex(tok[5], &bits);
	if (len < 0) return -1;
	env_open(&e, TRX_STATE_ACTIVE, TRX_STATE_IDLE, 2);
	memset(&br, 0, sizeof(br));
	br.tn = (uint8_t) strtoul(tok[1], NULL, 10);
	br.fn = (uint32_t) strtoul(tok[2], NULL, 10);
	br.pwr = (uint8_t) strtoul(tok[3], NULL, 10);
	br.burst_len = (unsigned int) strtoul(tok[4], NULL, 10);
	br.burst = bits;
	rc = trx_if_handle_phyif_burst_req(e.trx, &br);
	fprintf(out, "%d | ", rc);
	n = recv(e.data_peer, dg, sizeof(dg), 0);
	if (n < 0) fprintf(out, "nothing");
	else puthex(dg, n);
	if (recv(e.data_peer, dg, sizeof(dg), 0) >= 0) fprintf(out, " more");
	fputc('\n', out);
	free(bits);
	env_close(&e);
	return 0;
}

static void put_queue(struct trx_instance *trx)
{
	struct trx_ctrl_msg *tcm;
	int any = 0;
	fprintf(out, "q");
	llist_for_each_entry(tcm, &trx->trx_ctrl_list, list) {
		fprintf(out, " %d:%d:", tcm->critical, tcm->cmd_len);
		puthex((uint8_t *) tcm->cmd, strnlen(tcm->cmd, sizeof(tcm->cmd)));
		any = 1;
	}
	if (!any) fprintf(out, " -");
}

static int do_cmd(char **tok, int ntok)
{
	struct env e;
	struct trxcon_phyif_cmd cmd;
	uint16_t *ma = NULL;
	int rc, i;
	if (ntok < 2) return -1;
	memset(&cmd, 0, sizeof(cmd));
	if (!strcmp(tok[1], "RESET") && ntok == 2) cmd.type = TRXCON_PHYIF_CMDT_RESET;
	else if (!strcmp(tok[1], "POWERON") && ntok == 2) cmd.type = TRXCON_PHYIF_CMDT_POWERON;
	else if (!strcmp(tok[1], "POWEROFF") && ntok == 2) cmd.type = TRXCON_PHYIF_CMDT_POWEROFF;
	else if (!strcmp(tok[1], "MEASURE") && ntok == 3) {
		cmd.type = TRXCON_PHYIF_CMDT_MEASURE;
		cmd.param.measure.band_arfcn = (uint16_t) strtoul(tok[2], NULL, 10);
	} else if (!strcmp(tok[1], "SETFREQ_H0") && ntok == 3) {
		cmd.type = TRXCON_PHYIF_CMDT_SETFREQ_H0;
		cmd.param.setfreq_h0.band_arfcn = (uint16_t) strtoul(tok[2], NULL, 10);
	} else if (!strcmp(tok[1], "SETFREQ_H1") && ntok >= 5) {
		int n = ntok - 5;
		cmd.type = TRXCON_PHYIF_CMDT_SETFREQ_H1;
		cmd.param.setfreq_h1.hsn = (uint8_t) strtoul(tok[2], NULL, 10);
		cmd.param.setfreq_h1.maio = (uint8_t) strtoul(tok[3], NULL, 10);
		cmd.param.setfreq_h1.ma_len = (unsigned int) strtoul(tok[4], NULL, 10);
		if (n > 0) {
			/* exactly n entries on the heap: ma_len > n is an over-read seen by ASan */
			ma = malloc(n * sizeof(uint16_t));
			for (i = 0; i < n; i++)
				ma[i] = (uint16_t) strtoul(tok[5 + i], NULL, 10);
		}
		cmd.param.setfreq_h1.ma = ma;
	} else if (!strcmp(tok[1], "SETSLOT") && ntok == 4) {
		cmd.type = TRXCON_PHYIF_CMDT_SETSLOT;
		cmd.param.setslot.tn = (uint8_t) strtoul(tok[2], NULL, 10);
		cmd.param.setslot.pchan = (uint8_t) strtoul(tok[3], NULL, 10);
	} else if (!strcmp(tok[1], "SETTA") && ntok == 3) {
		cmd.type = TRXCON_PHYIF_CMDT_SETTA;
		cmd.param.setta.ta = (int8_t) strtol(tok[2], NULL, 10);
	} else if (!strcmp(tok[1], "RAW") && ntok == 3) {
		cmd.type = (enum trxcon_phyif_cmd_type) strtoul(tok[2], NULL, 10);
	} else
		return -1;
	env_open(&e, TRX_STATE_IDLE, TRX_STATE_OFFLINE, 2);
	rc = trx_if_handle_phyif_cmd(e.trx, &cmd);
	fprintf(out, "%d | ", rc);
	put_queue(e.trx);
	fprintf(out, " | ");
	put_sent(e.ctrl_peer);
	fprintf(out, " | ev%s | st %u %u %d\n", rec.ev_len ? rec.ev : " -", e.fi->state, e.trx->prev_state, e.trx->powered_up);
	free(ma);
	env_close(&e);
	return 0;
}

static int do_rsp(char **tok, int ntok)
{
	struct env e;
	uint8_t *dg;
	int len, rc, q0, q1;
	char *p, *save = NULL;
	const char *cls;
	if (ntok != 4) return -1;
	len = unhex(tok[3], &dg);
	if (len < 0) return -1;
	env_open(&e, TRX_STATE_RSP_WAIT, TRX_STATE_IDLE, 2);
	e.trx->trx_ctrl_timer.active = 1;
	if (strcmp(tok[1], "-")) {
		for (p = strtok_r(tok[1], ",", &save); p; p = strtok_r(NULL, ",", &save)) {
			uint8_t *c;
			int clen = unhex(p, &c);
			struct trx_ctrl_msg *tcm;
			if (clen < 0 || clen > (int) sizeof(tcm->cmd) - 1) { free(dg); env_close(&e); return -1; }
			/* a well-formed pending command is queued by the REAL trx_ctrl_cmd() (whatever bookkeeping it does per
			 * message is then done); any other octet string is put into a zeroed message by hand */
			if (clen > 4 && !memcmp(c, "CMD ", 4) && !memchr(c, 0, clen)) {
				char verb[64], *args;
				char *txt = calloc(1, clen + 1);
				size_t vl;
				memcpy(txt, c, clen);
				args = strchr(txt + 4, ' ');
				vl = args ? (size_t) (args - (txt + 4)) : strlen(txt + 4);
				if (vl > 0 && vl < sizeof(verb)) {
					memcpy(verb, txt + 4, vl);
					verb[vl] = 0;
					if (args)
						trx_ctrl_cmd(e.trx, atoi(tok[2]), verb, "%s", args + 1);
					else
						trx_ctrl_cmd(e.trx, atoi(tok[2]), verb, "");
					tcm = llist_entry(e.trx->trx_ctrl_list.prev, struct trx_ctrl_msg, list);
					/* exactly the octets of the request (a trailing blank after the verb is kept) */
					memset(tcm->cmd, 0, sizeof(tcm->cmd));
					memcpy(tcm->cmd, c, clen);
					free(txt);
					free(c);
					continue;
				}
				free(txt);
			}
			tcm = calloc(1, sizeof(*tcm));
			if (clen) memcpy(tcm->cmd, c, clen);
			free(c);
			tcm->critical = atoi(tok[2]);
			llist_add_tail(&tcm->list, &e.trx->trx_ctrl_list);
		}
	}
	/* what queueing itself sent / recorded is not part of this request */
	{
		char drain[2048];
		while (recv(e.ctrl_peer, drain, sizeof(drain), MSG_DONTWAIT) > 0)
			;
	}
	rec_reset();
	e.trx->trx_ctrl_timer.active = 1;
	q0 = qlen(e.trx);
	if (send(e.ctrl_peer, dg ? dg : (uint8_t *) "", len, 0) != len) { perror("send"); exit(3); }
	free(dg);
	rc = trx_ctrl_read_cb(&e.trx->trx_ofd_ctrl, OSMO_FD_READ);
	q1 = qlen(e.trx);
	cls = (q1 < q0) ? "accepted" : (rec.terms ? "rejected" : "ignored");
	fprintf(out, "%d | %s | ev%s | st %u %u %d %d %d | ", rc, cls, rec.ev_len ? rec.ev : " -",
		e.fi->state, e.trx->prev_state, e.trx->powered_up, q1, rec.elog ? 1 : 0);
	if (rec.n_rsp) {
		fprintf(out, "rsp");
		if (rec.n_rsp != 1 || rec.rsp_type != TRXCON_PHYIF_CMDT_MEASURE) fprintf(out, "*%d/%lld", rec.n_rsp, rec.rsp_type);
		fprintf(out, " %lld %lld", rec.rsp_arfcn, rec.rsp_dbm);
	} else
		fprintf(out, "-");
	fprintf(out, " | ");
	put_sent(e.ctrl_peer);
	fputc('\n', out);
	env_close(&e);
	return 0;
}

/* the TRXDv0 header length the receive path works with: the private macro of trx_if.c where this tree has it, otherwise
 * MEASURED on the receive path itself (shortest accepted datagram minus the GMSK burst it then carries) */
static int measured_hdr_len(void)
{
#ifdef TRXDv0_HDR_LEN
	return TRXDv0_HDR_LEN;
#else
	static uint8_t dg[TRXD_BUF_SIZE];
	int len;
	for (len = 1; len <= (int) sizeof(dg); len++) {
		struct env e;
		int rc, got;
		memset(dg, 0, sizeof(dg));
		env_open(&e, TRX_STATE_ACTIVE, TRX_STATE_IDLE, 2);
		if (send(e.data_peer, dg, len, 0) != len) { perror("send"); exit(3); }
		rc = trx_data_rx_cb(&e.trx->trx_ofd_data, OSMO_FD_READ);
		got = (rc == 0 && rec.n_ind == 1) ? (int) rec.ind_burst_len : -1;
		env_close(&e);
		if (got > 0)
			return len - got;
	}
	return -1;
#endif
}

static int do_consts(void)
{
	const struct osmo_fsm *fsm = shim_registered_fsm();
	struct trx_ctrl_msg tcm;
	unsigned int i;
	fprintf(out, "TRXC_BUF_SIZE=%d TRXD_BUF_SIZE=%d TRXDv0_HDR_LEN=%d GSM_TDMA_HYPERFRAME=%d "
		"GSM_NBITS_NB_GMSK_BURST=%d GSM_NBITS_NB_8PSK_BURST=%d GSM_PCHAN_MAX=%d CMD_SIZE=%zu "
		"ENOMEM=%d EINVAL=%d ENOTSUP=%d ENOSPC=%d ENODEV=%d EIO=%d NUM_STATES=%u MASKS=",
		TRXC_BUF_SIZE, TRXD_BUF_SIZE, measured_hdr_len(), GSM_TDMA_HYPERFRAME,
		GSM_NBITS_NB_GMSK_BURST, GSM_NBITS_NB_8PSK_BURST, (int) _GSM_PCHAN_MAX, sizeof(tcm.cmd),
		ENOMEM, EINVAL, ENOTSUP, ENOSPC, ENODEV, EIO, fsm->num_states);
	for (i = 0; i < fsm->num_states; i++)
		fprintf(out, "%s%u", i ? "," : "", (unsigned) fsm->states[i].out_state_mask);
	fprintf(out, " STATES=%d,%d,%d,%d CMDT=%d,%d,%d,%d,%d,%d,%d,%d TERM_ERROR=%d\n",
		TRX_STATE_OFFLINE, TRX_STATE_IDLE, TRX_STATE_ACTIVE, TRX_STATE_RSP_WAIT,
		TRXCON_PHYIF_CMDT_RESET, TRXCON_PHYIF_CMDT_POWERON, TRXCON_PHYIF_CMDT_POWEROFF,
		TRXCON_PHYIF_CMDT_MEASURE, TRXCON_PHYIF_CMDT_SETFREQ_H0, TRXCON_PHYIF_CMDT_SETFREQ_H1,
		TRXCON_PHYIF_CMDT_SETSLOT, TRXCON_PHYIF_CMDT_SETTA, OSMO_FSM_TERM_ERROR);
	return 0;
}

static void handle_line(char *line)
{
	static char *tok[4096];
	int ntok = 0, rc = -1;
	char *p, *save = NULL;
	for (p = strtok_r(line, " \t\r\n", &save); p && ntok < 4096; p = strtok_r(NULL, " \t\r\n", &save))
		tok[ntok++] = p;
	if (ntok >= 1) {
		if (!strcmp(tok[0], "tc.rxd")) rc = do_rxd(tok, ntok);
		else if (!strcmp(tok[0], "tc.txd")) rc = do_txd(tok, ntok);
		else if (!strcmp(tok[0], "tc.cmd")) rc = do_cmd(tok, ntok);
		else if (!strcmp(tok[0], "tc.rsp")) rc = do_rsp(tok, ntok);
		else if (!strcmp(tok[0], "tc.consts") && ntok == 1) rc = do_consts();
	}
	if (rc < 0)
		fprintf(out, "bad-op\n");
	fflush(out);
}

int main(void)
{
	char **lines = NULL;
	size_t nlines = 0, cap = 0, next = 0;
	char *line = NULL;
	size_t lcap = 0;
	ssize_t n;

	while ((n = getline(&line, &lcap, stdin)) >= 0) {
		if (nlines == cap) { cap = cap ? 2 * cap : 1024; lines = realloc(lines, cap * sizeof(*lines)); }
		lines[nlines++] = strdup(line);
	}
	fflush(stdout);
	while (next < nlines) {
		int pfd[2];
		pid_t pid;
		size_t done = 0;
		char buf[65536];
		if (pipe(pfd) < 0) { perror("pipe"); return 3; }
		pid = fork();
		if (pid < 0) { perror("fork"); return 3; }
		if (pid == 0) {
			size_t i;
			close(pfd[0]);
			out = fdopen(pfd[1], "w");
			for (i = next; i < nlines; i++)
				handle_line(lines[i]);
			fflush(out);
			_exit(0);
		}
		close(pfd[1]);
		/* forward complete answer lines; count them */
		{
			size_t have = 0;
			while ((n = read(pfd[0], buf + have, sizeof(buf) - have)) > 0) {
				size_t i, start = 0;
				have += n;
				for (i = have - n; i < have; i++) {
					if (buf[i] == '\n') {
						fwrite(buf + start, 1, i + 1 - start, stdout);
						start = i + 1;
						done++;
					}
				}
				memmove(buf, buf + start, have - start);
				have -= start;
				if (have == sizeof(buf)) { /* over-long answer line: pass through */
					fwrite(buf, 1, have, stdout);
					have = 0;
				}
			}
			/* a partial line of a dead worker is dropped */
		}
		close(pfd[0]);
		waitpid(pid, NULL, 0);
		next += done;
		if (next < nlines) {
			printf("CRASH\n");
			next++;
		}
		fflush(stdout);
	}
	return 0;
}
