/* Implementations behind harness/c/shim_trxif: the ENVIRONMENT of trx_if.c
 * (logging sink, FSM/timer recorders, gsm_freq102arfcn).  Nothing of trx_if.c itself. */
#include <stdio.h>
#include <stdarg.h>
#include <string.h>
#include <errno.h>
#include <osmocom/core/fsm.h>
#include <osmocom/core/select.h>
#include <osmocom/core/socket.h>
#include <osmocom/gsm/gsm_utils.h>
#include "recorder.h"

struct recorder rec;

void rec_reset(void)
{
	memset(&rec, 0, sizeof(rec));
}

void rec_event(const char *fmt, ...)
{
	va_list ap;
	int n;
	if (rec.ev_len >= (int) sizeof(rec.ev) - 64)
		return;
	va_start(ap, fmt);
	n = vsnprintf(rec.ev + rec.ev_len, sizeof(rec.ev) - rec.ev_len, fmt, ap);
	va_end(ap);
	if (n > 0)
		rec.ev_len += n;
}

/* logging: format the message (all arguments are evaluated and dereferenced exactly as a
 * real log target would), remember only whether something of level >= ERROR was logged */
void shim_log_sink(int subsys, int level, const char *file, int line, const char *fmt, ...)
{
	static char scratch[8192];
	va_list ap;
	(void) subsys; (void) file; (void) line;
	va_start(ap, fmt);
	vsnprintf(scratch, sizeof(scratch), fmt, ap);
	va_end(ap);
	if (level >= LOGL_ERROR)
		rec.elog++;
}

const char *shim_fsm_inst_name(const struct osmo_fsm_inst *fi)
{
	return (fi && fi->name) ? fi->name : "(no-fsm)";
}

/* ---- FSM recorder ---- */
static struct osmo_fsm *registered_fsm;

int osmo_fsm_register(struct osmo_fsm *fsm)
{
	registered_fsm = fsm;
	return 0;
}

struct osmo_fsm *shim_registered_fsm(void)
{
	return registered_fsm;
}

struct osmo_fsm_inst *osmo_fsm_inst_alloc_child(struct osmo_fsm *fsm, struct osmo_fsm_inst *parent,
						uint32_t parent_term_event)
{
	struct osmo_fsm_inst *fi = calloc(1, sizeof(*fi));
	(void) parent_term_event;
	if (!fi)
		return NULL;
	fi->fsm = fsm;
	fi->name = fsm->name;
	fi->proc.parent = parent;
	return fi;
}

void osmo_fsm_inst_free(struct osmo_fsm_inst *fi)
{
	free(fi);
}

/* as libosmocore's state_chg(): permitted iff the bit of new_state is set in the
 * out_state_mask of the current state */
int _osmo_fsm_inst_state_chg(struct osmo_fsm_inst *fi, uint32_t new_state,
			     unsigned long timeout_secs, int T, const char *file, int line)
{
	const struct osmo_fsm *fsm = fi->fsm;
	const struct osmo_fsm_state *st = &fsm->states[fi->state];
	(void) timeout_secs; (void) T; (void) file; (void) line;
	if (new_state >= 32 || !((1U << new_state) & st->out_state_mask)) {
		rec_event(" D%u", (unsigned) new_state);
		return -EPERM;
	}
	fi->state = new_state;
	rec_event(" S%u", (unsigned) new_state);
	return 0;
}

void _osmo_fsm_inst_term(struct osmo_fsm_inst *fi, enum osmo_fsm_term_cause cause, void *data,
			 const char *file, int line)
{
	(void) fi; (void) data; (void) file; (void) line;
	rec_event(" T%d", (int) cause);
	rec.terms++;
}

/* ---- timer recorder ---- */
void osmo_timer_schedule(struct osmo_timer_list *timer, int seconds, int microseconds)
{
	timer->active = 1;
	rec_event(" ts%d.%d", seconds, microseconds);
}

void osmo_timer_del(struct osmo_timer_list *timer)
{
	timer->active = 0;
	rec_event(" td");
}

/* ---- select / socket ---- */
void osmo_fd_unregister(struct osmo_fd *fd)
{
	(void) fd;
	rec_event(" unreg");
}

int osmo_sock_init2_ofd(struct osmo_fd *ofd, int family, int type, int proto,
			const char *local_host, uint16_t local_port,
			const char *remote_host, uint16_t remote_port, unsigned int flags)
{
	(void) ofd; (void) family; (void) type; (void) proto; (void) local_host; (void) local_port;
	(void) remote_host; (void) remote_port; (void) flags;
	return -ENOTSUP; /* the harness provides the descriptors itself */
}

/* ---- gsm_freq102arfcn: transcribed from libosmocore src/gsm/gsm_utils.c (the in-tree
 * copy of libosmocore predates it) ---- */
struct gsm_freq_range {
	uint16_t arfcn_first;
	uint16_t arfcn_last;
	uint16_t freq_ul_first;
	uint16_t freq_dl_offset;
	uint16_t flags;
};

static struct gsm_freq_range gsm_ranges[] = {
	{ 512,  810, 18502, 800, ARFCN_PCS },	/* PCS 1900 */
	{   0,  124,  8900, 450, 0 },		/* P-GSM + E-GSM ARFCN 0 */
	{ 955, 1023,  8762, 450, 0 },		/* E-GSM + R-GSM */
	{ 128,  251,  8242, 450, 0 },		/* GSM 850  */
	{ 512,  885, 17102, 950, 0 },		/* DCS 1800 */
	{ 259,  293,  4506, 100, 0 },		/* GSM 450  */
	{ 306,  340,  4790, 100, 0 },		/* GSM 480  */
	{ 350,  425,  8060, 450, 0 },		/* GSM 810  */
	{ 438,  511,  7472, 300, 0 },		/* GSM 750  */
	{ /* Guard */ }
};

uint16_t gsm_freq102arfcn(uint16_t freq10, int uplink)
{
	struct gsm_freq_range *r;
	uint16_t freq10_lo, freq10_hi;
	uint16_t arfcn = 0xffff;

	for (r = gsm_ranges; r->freq_ul_first > 0; r++) {
		/* Generate frequency limits */
		freq10_lo = r->freq_ul_first;
		freq10_hi = freq10_lo + 2 * (r->arfcn_last - r->arfcn_first);
		if (!uplink) {
			freq10_lo += r->freq_dl_offset;
			freq10_hi += r->freq_dl_offset;
		}

		/* Check if this fits */
		if (freq10 >= freq10_lo && freq10 <= freq10_hi) {
			arfcn = r->arfcn_first + ((freq10 - freq10_lo) >> 1);
			arfcn |= r->flags;
			break;
		}
	}

	if (uplink)
		arfcn |= ARFCN_UPLINK;

	return arfcn;
}

/* libosmocore's hexdump helpers (diagnostics of the code under test may use them) */
static char shim_hexd_buff[4096];
static char *shim_hexdump(const unsigned char *buf, int len, const char *delim)
{
	int i;
	char *cur = shim_hexd_buff;
	shim_hexd_buff[0] = 0;
	for (i = 0; i < len; i++) {
		int room = (int) sizeof(shim_hexd_buff) - (int) (cur - shim_hexd_buff);
		int rc;
		if (room < 4)
			break;
		rc = snprintf(cur, room, "%02x%s", buf[i], delim);
		if (rc <= 0)
			break;
		cur += rc;
	}
	return shim_hexd_buff;
}
char *osmo_hexdump(const unsigned char *buf, int len) { return shim_hexdump(buf, len, " "); }
char *osmo_hexdump_nospc(const unsigned char *buf, int len) { return shim_hexdump(buf, len, ""); }
