/* C08 (gsmtime part) harness: drives the REAL GSM-time one-shot scheduler
 * (src/target/firmware/layer1/sched_gsmtime.c) on top of the REAL TDMA scheduler
 * (src/target/firmware/layer1/tdma_sched.c), both compiled unchanged from the repo under test, through the line
 * protocol of lean/OsmoVerif/Driver/SchedGsmtime.lean.
 *
 * Environment supplied here (never the code under test):
 *  - the global `l1s`, the console functions (as in c08_harness.c), a fixed table of recording callbacks;
 *  - sched_gsmtime.c is compiled with -Dtdma_schedule_set=c08g_tdma_schedule_set: the call it makes goes through a
 *    recording wrapper defined here, which notes (frame_offset, item_set, p3), forwards to the real
 *    tdma_schedule_set() of tdma_sched.c and notes its result;
 *  - every history runs in a forked child, so that the file-static lists of sched_gsmtime.c start from their
 *    link-time state (sched_gsmtime_init() is called once, first thing, in the child) without this harness ever
 *    touching them.  A child that dies (signal, sanitizer abort) is answered `crash <what>`.
 *
 *   sg.run CUR op ; op ; ...     one line = one history; l1s zeroed, cur_bucket = CUR
 *     gs FN P3 <elem>...           -> r<rc>       sched_gsmtime(set, FN, P3); elem: `i CB P1 P2 PRIO FLAGS` | F | E
 *     gx FN                        -> g<rc>[:off,p3,rc,<set>]...      sched_gsmtime_execute(FN) and the calls it made
 *     gz                           -> z           sched_gsmtime_reset()
 *     sched OFF CB P1 P2 P3 PRIO   -> r<rc>       set OFF P3 <elem>... -> r<rc>
 *     exec -> x<rc>[:id,p1,p2,p3,ret]...   adv -> a   reset -> z   flags -> f<flag_scan>   dump -> d<n0,n1,...>
 */
#include <stdio.h>
#include <stdint.h>
#include <stdlib.h>
#include <string.h>
#include <stdarg.h>
#include <unistd.h>
#include <signal.h>
#include <sys/types.h>
#include <sys/wait.h>

#include <layer1/tdma_sched.h>
#include <layer1/sched_gsmtime.h>
#include <layer1/sync.h>

struct l1s_state l1s;

/* console of the firmware: swallowed */
int fw_puts(const char *s) { (void) s; return 0; }
int fw_printf(const char *fmt, ...) { (void) fmt; return 0; }
int fw_putchar(int c) { return c; }

/* ---- output buffers ------------------------------------------------------------------------- */
struct buf { char *p; size_t len, cap; };
static struct buf out;      /* answer line under construction */
static struct buf calls;    /* callbacks / tdma_schedule_set calls of the running operation */

static void vemit(struct buf *b, const char *fmt, va_list ap)
{
	int n;
	if (b->cap - b->len < 256) {
		b->cap = b->cap * 2 + 1024;
		b->p = realloc(b->p, b->cap);
		if (!b->p)
			exit(3);
	}
	n = vsnprintf(b->p + b->len, b->cap - b->len, fmt, ap);
	b->len += n;
}

static void emit(const char *fmt, ...)
{
	va_list ap;
	va_start(ap, fmt);
	vemit(&out, fmt, ap);
	va_end(ap);
}

static void emit_call(const char *fmt, ...)
{
	va_list ap;
	va_start(ap, fmt);
	vemit(&calls, fmt, ap);
	va_end(ap);
}

static void flush_calls(void)
{
	size_t off;
	for (off = 0; off < calls.len; off += 200)
		emit("%.*s", (int) (calls.len - off > 200 ? 200 : calls.len - off), calls.p + off);
}

/* ---- recording callbacks (same table and return values as c08_harness.c) ------------------------- */
#define NUM_CALLBACKS 13

static int cb_ret(int id, uint8_t p1, uint8_t p2, uint16_t p3)
{
	if (id <= 7) return 0;
	if (id == 8) return 1;
	if (id == 9) return p1;
	if (id == 10) return -1;
	if (id == 11) return -(int) p2 - 1;
	if (id == 12) return (p3 & 1) ? -5 : 0;
	return 0;
}

static int record(int id, uint8_t p1, uint8_t p2, uint16_t p3)
{
	int rc = cb_ret(id, p1, p2, p3);
	emit_call(":%d,%u,%u,%u,%d", id, p1, p2, p3, rc);
	return rc;
}

#define CB(n) static int cb##n(uint8_t p1, uint8_t p2, uint16_t p3) { return record(n, p1, p2, p3); }
CB(0) CB(1) CB(2) CB(3) CB(4) CB(5) CB(6) CB(7) CB(8) CB(9) CB(10) CB(11) CB(12)
static tdma_sched_cb *const cb_table[NUM_CALLBACKS] = {
	cb0, cb1, cb2, cb3, cb4, cb5, cb6, cb7, cb8, cb9, cb10, cb11, cb12
};

static int id_of_cb(tdma_sched_cb *cb)
{
	int i;
	for (i = 0; i < NUM_CALLBACKS; i++)
		if (cb_table[i] == cb)
			return i;
	return -1;
}

/* ---- the recording wrapper around the real tdma_schedule_set() ----------------------------------- */
int c08g_tdma_schedule_set(uint8_t frame_offset, const struct tdma_sched_item *item_set, uint16_t p3)
{
	const struct tdma_sched_item *it;
	int rc, first = 1;

	rc = tdma_schedule_set(frame_offset, item_set, p3);
	emit_call(":%u,%u,%d,", (unsigned) frame_offset, (unsigned) p3, rc);
	for (it = item_set; ; it++) {
		if (!first)
			emit_call("/");
		first = 0;
		if (it->cb == &tdma_end_set) {
			emit_call("E");
			break;
		} else if (it->cb == NULL)
			emit_call("F");
		else
			emit_call("i%d.%u.%u.%u.%d.%u", id_of_cb(it->cb), it->p1, it->p2, it->p3, it->prio, it->flags);
	}
	return rc;
}

/* ---- parsing ---------------------------------------------------------------------------------- */
static int num(const char *s, long *v, int allow_neg)
{
	char *e;
	if (!s || !*s)
		return 0;
	if (!allow_neg && (*s < '0' || *s > '9'))
		return 0;
	*v = strtol(s, &e, 10);
	return *e == 0;
}

/* non-negative decimal of any length, reduced modulo 2^32 (the conversion to the uint32_t parameter) */
static int num_u32(const char *s, uint32_t *v)
{
	uint64_t acc = 0;
	if (!s || !*s)
		return 0;
	for (; *s; s++) {
		if (*s < '0' || *s > '9')
			return 0;
		acc = (acc * 10 + (uint64_t) (*s - '0')) & 0xffffffffULL;
	}
	*v = (uint32_t) acc;
	return 1;
}

static tdma_sched_cb *cb_of(const char *s)
{
	long v;
	if (!num(s, &v, 0) || v >= NUM_CALLBACKS)
		return NULL;
	return cb_table[v];
}

#define MAXTOK (1 << 18)
#define MAXSET 8192

/* item sets handed to sched_gsmtime() must stay valid until the event fires: arena, per history */
static struct tdma_sched_item *arena;
static size_t arena_len, arena_cap;

/* parse the elements tok[0..n) of an item set into `set`; returns the number of elements or -1 */
static int parse_set(char **tok, int n, struct tdma_sched_item *set, int max)
{
	static const struct tdma_sched_item end_frame = SCHED_END_FRAME();
	static const struct tdma_sched_item end_set = SCHED_END_SET();
	int i = 0, k = 0, have_end = 0;
	while (i < n) {
		if (k >= max)
			return -1;
		if (!strcmp(tok[i], "F")) {
			set[k++] = end_frame; i++;
		} else if (!strcmp(tok[i], "E")) {
			set[k++] = end_set; have_end = 1; i++;
		} else if (!strcmp(tok[i], "i") && i + 5 < n) {
			long p1, p2, prio, flags;
			tdma_sched_cb *cb = cb_of(tok[i + 1]);
			if (!cb || !num(tok[i + 2], &p1, 0) || !num(tok[i + 3], &p2, 0)
			    || !num(tok[i + 4], &prio, 1) || !num(tok[i + 5], &flags, 0))
				return -1;
			memset(&set[k], 0, sizeof(set[k]));
			set[k].cb = cb; set[k].p1 = (uint8_t) p1; set[k].p2 = (uint8_t) p2;
			set[k].prio = (int16_t) prio; set[k].flags = (uint16_t) flags;
			k++; i += 6;
		} else
			return -1;
	}
	return have_end ? k : -1;
}

/* one op: tok[0..n) ; returns 0 if malformed */
static int do_op(char **tok, int n)
{
	long a, b, c, d, e;
	uint32_t fn;
	if (n >= 3 && !strcmp(tok[0], "gs")) {
		static struct tdma_sched_item set[MAXSET];
		struct tdma_sched_item *si;
		int k;
		if (!num_u32(tok[1], &fn) || !num(tok[2], &b, 0))
			return 0;
		k = parse_set(tok + 3, n - 3, set, MAXSET);
		if (k < 0)
			return 0;
		if (arena_len + k > arena_cap)
			return 0;
		si = arena + arena_len;
		memcpy(si, set, k * sizeof(*si));
		arena_len += k;
		emit("r%d", sched_gsmtime(si, fn, (uint16_t) b));
		return 1;
	}
	if (n == 2 && !strcmp(tok[0], "gx")) {
		int rc;
		if (!num_u32(tok[1], &fn))
			return 0;
		calls.len = 0;
		rc = sched_gsmtime_execute(fn);
		emit("g%d", rc);
		flush_calls();
		return 1;
	}
	if (n == 1 && !strcmp(tok[0], "gz")) {
		sched_gsmtime_reset();
		emit("z");
		return 1;
	}
	if (n == 7 && !strcmp(tok[0], "sched")) {
		tdma_sched_cb *cb = !strcmp(tok[2], "E") ? &tdma_end_set : cb_of(tok[2]);
		if (!cb || !num(tok[1], &a, 0) || !num(tok[3], &b, 0) || !num(tok[4], &c, 0)
		    || !num(tok[5], &d, 0) || !num(tok[6], &e, 1))
			return 0;
		emit("r%d", tdma_schedule((uint8_t) a, cb, (uint8_t) b, (uint8_t) c, (uint16_t) d, (int16_t) e));
		return 1;
	}
	if (n >= 3 && !strcmp(tok[0], "set")) {
		static struct tdma_sched_item set[MAXSET];
		if (!num(tok[1], &a, 0) || !num(tok[2], &b, 0))
			return 0;
		if (parse_set(tok + 3, n - 3, set, MAXSET) < 0)
			return 0;
		emit("r%d", tdma_schedule_set((uint8_t) a, set, (uint16_t) b));
		return 1;
	}
	if (n == 1 && !strcmp(tok[0], "exec")) {
		int rc;
		calls.len = 0;
		rc = tdma_sched_execute();
		emit("x%d", rc);
		flush_calls();
		return 1;
	}
	if (n == 1 && !strcmp(tok[0], "adv")) {
		tdma_sched_advance();
		emit("a");
		return 1;
	}
	if (n == 1 && !strcmp(tok[0], "reset")) {
		tdma_sched_reset();
		emit("z");
		return 1;
	}
	if (n == 1 && !strcmp(tok[0], "flags")) {
		emit("f%u", (unsigned) tdma_sched_flag_scan());
		return 1;
	}
	if (n == 1 && !strcmp(tok[0], "dump")) {
		unsigned i, nb = sizeof(l1s.tdma_sched.bucket) / sizeof(l1s.tdma_sched.bucket[0]);
		emit("d");
		for (i = 0; i < nb; i++) {
			unsigned nr = (l1s.tdma_sched.cur_bucket + i) % nb;
			emit("%s%u", i ? "," : "", (unsigned) l1s.tdma_sched.bucket[nr].num_items);
		}
		return 1;
	}
	return 0;
}

/* the whole history, in the child */
static void run_history(char **tok, int n, long cur)
{
	int i, start, ok = 1, first = 1;

	arena_cap = n + 16;     /* every element of every set is at least one token */
	arena = calloc(arena_cap, sizeof(*arena));
	arena_len = 0;
	if (!arena)
		exit(3);
	memset(&l1s, 0, sizeof(l1s));
	l1s.tdma_sched.cur_bucket = (uint8_t) cur;
	sched_gsmtime_init();
	start = 2;
	for (i = 2; i <= n && ok; i++) {
		if (i == n || !strcmp(tok[i], ";")) {
			if (!first)
				emit(" ");
			first = 0;
			ok = do_op(tok + start, i - start);
			start = i + 1;
		}
	}
	if (!ok)
		fputs("bad-op\n", stdout);
	else {
		fwrite(out.p, 1, out.len, stdout);
		fputc('\n', stdout);
	}
	fflush(stdout);
}

int main(void)
{
	static char line[1 << 22];
	static char *tok[MAXTOK];
	while (fgets(line, sizeof(line), stdin)) {
		int n = 0, status;
		long cur;
		pid_t pid;
		char *p = strtok(line, " \t\r\n");
		while (p && n < MAXTOK) {
			tok[n++] = p;
			p = strtok(NULL, " \t\r\n");
		}
		out.len = 0;
		if (p || n < 3 || strcmp(tok[0], "sg.run") || !num(tok[1], &cur, 0)
		    || cur >= (long) (sizeof(l1s.tdma_sched.bucket) / sizeof(l1s.tdma_sched.bucket[0]))) {
			fputs("bad-op\n", stdout);
			continue;
		}
		fflush(stdout);
		pid = fork();
		if (pid < 0)
			return 4;
		if (pid == 0) {
			run_history(tok, n, cur);
			_exit(0);
		}
		if (waitpid(pid, &status, 0) != pid)
			return 4;
		if (WIFSIGNALED(status))
			printf("crash signal %d\n", WTERMSIG(status));
		else if (!WIFEXITED(status) || WEXITSTATUS(status) != 0)
			printf("crash exit %d\n", WIFEXITED(status) ? WEXITSTATUS(status) : -1);
	}
	return 0;
}
