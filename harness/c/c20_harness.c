/* C20 harness driver.  NOT compiled on its own: gen/mobile_alloc.py writes a C file into the
 * run's scratch directory that contains, unchanged, the current text of
 * gsm48_decode_mobile_alloc() (sysinfo.c), struct gsm_sysinfo_freq and the FREQ_TYPE_* defines
 * (headers), defines C20_FREQ_CAP / C20_HOPP_CAP (the callers' buffer sizes read from the tree)
 * and #includes this file at its end.  Built with clang -fsanitize=address,undefined
 * -fno-sanitize-recover=all: a sanitizer report aborts the process, the check attributes it to the
 * first unanswered request (every answer line is flushed) and answers `OOB` for it; with the
 * argument `fork` every request runs in its own child process instead.
 *
 *   ma.decode CA BITMAP LEN SI4 STALE BG
 *       CA     cell allocation: comma separated ARFCNs (FREQ_TYPE_SERV set) or `-`
 *       BITMAP Mobile Allocation octets in hex or `-`; the `ma` buffer has exactly that many octets
 *       LEN    the `len` argument
 *       SI4    the `si4` argument (0/1)
 *       STALE  ARFCNs whose FREQ_TYPE_HOPP bit is set beforehand (comma list or `-`)
 *       BG     octet whose bits other than SERV/HOPP are OR-ed into every mask beforehand
 *   ->  RC HOPP_LEN HOPPING | MASK-UPDATES
 *       HOPP_LEN  *hopp_len afterwards (pre-filled with the sentinel 170)
 *       HOPPING   hopping[0..k) where k-1 is the last entry that differs from the sentinel 65535, or `-`
 *       MASK-UPDATES  `arfcn:mask` for every freq[] entry that changed, or `-`
 * All buffers are exact-size heap objects so that ASan sees the first octet outside them.
 */
#define C20_SENT16 0xFFFF
#define C20_SENT8 0xAA

static int c20_list(const char *s, int *out, int max)
{
	int n = 0;
	if (!strcmp(s, "-"))
		return 0;
	while (*s) {
		char *e;
		long v = strtol(s, &e, 10);
		if (e == s || n >= max)
			return -1;
		out[n++] = (int) v;
		s = e;
		if (*s == ',')
			s++;
		else if (*s)
			return -1;
	}
	return n;
}

static int c20_hexval(int c)
{
	if (c >= '0' && c <= '9') return c - '0';
	if (c >= 'a' && c <= 'f') return c - 'a' + 10;
	if (c >= 'A' && c <= 'F') return c - 'A' + 10;
	return -1;
}

static char c20_line[1 << 16], c20_ca[1 << 15], c20_hex[1 << 12], c20_stale[1 << 15];
static int c20_tmp[4096];

static void c20_case(void)
{
	{
		long len, si4, bg;
		int n, i, nb, k, first;
		struct gsm_sysinfo_freq *freq;
		uint8_t *before, *ma, *hopp_len;
		uint16_t *hopping;
		int rc;

		if (sscanf(c20_line, "ma.decode %32767s %4095s %ld %ld %32767s %ld", c20_ca, c20_hex, &len, &si4,
			   c20_stale, &bg) != 6 || len < 0 || len > 255 || bg < 0 || bg > 255) {
			printf("bad-op\n");
			fflush(stdout);
			return;
		}
		freq = malloc(C20_FREQ_CAP * sizeof(*freq));
		before = malloc(C20_FREQ_CAP);
		for (i = 0; i < C20_FREQ_CAP; i++)
			freq[i].mask = bg & ~(FREQ_TYPE_SERV | FREQ_TYPE_HOPP);
		n = c20_list(c20_ca, c20_tmp, 4096);
		for (i = 0; i < n; i++) {
			if (c20_tmp[i] < 0 || c20_tmp[i] >= C20_FREQ_CAP) { n = -1; break; }
			freq[c20_tmp[i]].mask |= FREQ_TYPE_SERV;
		}
		if (n >= 0) {
			n = c20_list(c20_stale, c20_tmp, 4096);
			for (i = 0; i < n; i++) {
				if (c20_tmp[i] < 0 || c20_tmp[i] >= C20_FREQ_CAP) { n = -1; break; }
				freq[c20_tmp[i]].mask |= FREQ_TYPE_HOPP;
			}
		}
		nb = !strcmp(c20_hex, "-") ? 0 : (int) strlen(c20_hex);
		if (n < 0 || (nb & 1)) {
			printf("bad-op\n");
			fflush(stdout);
			free(freq); free(before);
			return;
		}
		nb /= 2;
		ma = malloc(nb);
		for (i = 0; i < nb; i++) {
			int a = c20_hexval(c20_hex[2 * i]), b = c20_hexval(c20_hex[2 * i + 1]);
			if (a < 0 || b < 0) { n = -1; break; }
			ma[i] = (uint8_t) (16 * a + b);
		}
		if (n < 0) {
			printf("bad-op\n");
			fflush(stdout);
			free(freq); free(before); free(ma);
			return;
		}
		for (i = 0; i < C20_FREQ_CAP; i++)
			before[i] = freq[i].mask;
		hopping = malloc(C20_HOPP_CAP * sizeof(uint16_t));
		for (i = 0; i < C20_HOPP_CAP; i++)
			hopping[i] = C20_SENT16;
		hopp_len = malloc(1);
		*hopp_len = C20_SENT8;

		rc = gsm48_decode_mobile_alloc(freq, ma, (uint8_t) len, hopping, hopp_len, (int) si4);

		printf("%d %u ", rc, (unsigned) *hopp_len);
		k = C20_HOPP_CAP;
		while (k > 0 && hopping[k - 1] == C20_SENT16)
			k--;
		if (!k)
			printf("-");
		for (i = 0; i < k; i++)
			printf("%s%u", i ? "," : "", (unsigned) hopping[i]);
		printf(" | ");
		first = 1;
		for (i = 0; i < C20_FREQ_CAP; i++) {
			if (freq[i].mask != before[i]) {
				printf("%s%d:%u", first ? "" : ",", i, (unsigned) freq[i].mask);
				first = 0;
			}
		}
		if (first)
			printf("-");
		printf("\n");
		fflush(stdout);
		free(freq); free(before); free(ma); free(hopping); free(hopp_len);
	}
}

#include <unistd.h>
#include <sys/wait.h>

/* default: all requests in this process (an abort ends the batch; the check re-runs the remainder).
 * `fork`: one child per request, so that an abort is attributed without leaving the batch: the
 * parent answers `OOB` and writes `@@C20-ABORT <request number>` behind the child's report on stderr. */
int main(int argc, char **argv)
{
	int forking = argc > 1 && !strcmp(argv[1], "fork");
	long n = 0;

	while (fgets(c20_line, sizeof(c20_line), stdin)) {
		if (!forking) {
			c20_case();
		} else {
			pid_t pid;
			int status = 0;
			fflush(stdout);
			fflush(stderr);
			pid = fork();
			if (pid == 0) {
				c20_case();
				fflush(stdout);
				_exit(0);
			}
			if (pid < 0 || waitpid(pid, &status, 0) < 0 || status != 0) {
				printf("OOB\n");
				fflush(stdout);
				fprintf(stderr, "\n@@C20-ABORT %ld\n", n);
				fflush(stderr);
			}
		}
		n++;
	}
	return 0;
}
