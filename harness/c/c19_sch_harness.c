/* C19 (part "sch") harness: drives the two Synchronisation-Burst decoders
 *   l1s_decode_sb()  (firmware, src/target/firmware/layer1/prim_fbsb.c)
 *   decode_sb()      (trxcon,   src/host/trxcon/src/sched_lchan_sch.c)
 * whose CURRENT text props/c19_sch_part.py extracts by name into two generated translation units (both functions are
 * static; each unit ends with a non-static wrapper), linked with the unchanged in-tree libosmocore gsm_utils.c
 * (gsm_gsmtime2fn).  Same line protocol as lean/OsmoVerif/Driver/SchDecode.lean:
 *   sch.fw SB            -> bsic fn t1 t2 t3 tc
 *   sch.trx O0 O1 O2 O3  -> bsic fn t1 t2 t3        (decode_sb does not write tc)
 * The extracted units are compiled with -fsanitize=undefined in trap mode where the compiler supports it: an operation
 * with undefined behaviour (e.g. a signed shift overflow) raises SIGILL, answered `UB`.
 * The struct handed in is pre-filled with 0xA5 (the callers pass uninitialised / stale memory).
 */
#include <stdio.h>
#include <stdint.h>
#include <string.h>
#include <stdlib.h>
#include <signal.h>
#include <setjmp.h>
#include <osmocom/gsm/gsm_utils.h>

uint8_t c19_fw_decode_sb(struct gsm_time *time, uint32_t sb);
void c19_trx_decode_sb(struct gsm_time *time, uint8_t *bsic, uint8_t *sb_info);

static sigjmp_buf trap_env;
static void on_trap(int sig) { (void) sig; siglongjmp(trap_env, 1); }

int main(void)
{
	char line[256];
	struct sigaction sa;
	memset(&sa, 0, sizeof(sa));
	sa.sa_handler = on_trap;
	sa.sa_flags = SA_NODEFER;
	sigaction(SIGILL, &sa, NULL);
	sigaction(SIGTRAP, &sa, NULL);
	while (fgets(line, sizeof(line), stdin)) {
		unsigned long a, b, c, d;
		char extra;
		struct gsm_time t;
		memset(&t, 0xA5, sizeof(t));
		if (sscanf(line, "sch.fw %lu %c", &a, &extra) == 1 && a <= 0xffffffffUL) {
			if (sigsetjmp(trap_env, 1)) { printf("UB\n"); continue; }
			uint8_t bsic = c19_fw_decode_sb(&t, (uint32_t) a);
			printf("%u %lu %u %u %u %u\n", bsic, (unsigned long) t.fn, t.t1, t.t2, t.t3, t.tc);
		} else if (sscanf(line, "sch.trx %lu %lu %lu %lu %c", &a, &b, &c, &d, &extra) == 4
			   && a < 256 && b < 256 && c < 256 && d < 256) {
			/* exact-size heap buffer: a read beyond sb_info[3] is visible to a memory checker */
			uint8_t *sb_info = malloc(4);
			uint8_t bsic = 0xA5;
			sb_info[0] = a; sb_info[1] = b; sb_info[2] = c; sb_info[3] = d;
			if (sigsetjmp(trap_env, 1)) { printf("UB\n"); free(sb_info); continue; }
			c19_trx_decode_sb(&t, &bsic, sb_info);
			printf("%u %lu %u %u %u\n", bsic, (unsigned long) t.fn, t.t1, t.t2, t.t3);
			free(sb_info);
		} else {
			printf("bad-op\n");
		}
	}
	return 0;
}
