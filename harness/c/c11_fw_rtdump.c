/* C11 translator, firmware side, BEHAVIOURAL variant: used when the task tables of mframe_sched.c cannot be read by name
 * (struct members / table layout renamed or restructured).  The tables are then reconstructed from what the code DOES:
 * every task of enum mframe_task is enabled alone (in a child process: a task without a table dereferences NULL), one
 * mframe_schedule() per frame over a full cycle of all periods in use, and every tdma_schedule_set() call is recorded as
 *     E <task> <fn> <set name> <p3> <frame_offset>
 * gen/mframe.py turns the events into canonical rows (set, period, residue, flags).
 */
#include <stdio.h>
#include <stdint.h>
#include <stddef.h>
#include <string.h>
#include <unistd.h>
#include <sys/wait.h>

#include C11_MFRAME_C

#include <layer1/sync.h>
struct l1s_state l1s;

#define SET(n) const struct tdma_sched_item n[1];
#define TABLE(n)
#define TASK(n)
#include "c11_fw_names.inc"
#undef SET
#undef TABLE
#undef TASK

static const struct { const char *name; const struct tdma_sched_item *p; } sets[] = {
#define SET(n) { #n, n },
#define TABLE(n)
#define TASK(n)
#include "c11_fw_names.inc"
#undef SET
#undef TABLE
#undef TASK
	{ NULL, NULL }
};

static const struct { const char *name; long val; } tasks[] = {
#define SET(n)
#define TABLE(n)
#define TASK(n) { #n, (long) n },
#include "c11_fw_names.inc"
#undef SET
#undef TABLE
#undef TASK
	{ NULL, 0 }
};

static long cur_task;
static uint32_t cur_fn;

int tdma_schedule_set(uint8_t frame_offset, const struct tdma_sched_item *item_set, uint16_t p3)
{
	int i;
	const char *nm = "?";
	for (i = 0; sets[i].name; i++)
		if (sets[i].p == item_set)
			nm = sets[i].name;
	printf("E %ld %u %s %u %u\n", cur_task, (unsigned) cur_fn, nm, (unsigned) p3, (unsigned) frame_offset);
	return 0;
}

#define CYCLE (51 * 26 * 8)

int main(void)
{
	int i;
	printf("C SCHEDULE_AHEAD %ld\nC SCHEDULE_LATENCY %ld\nC MF_F_SACCH %ld\nC MF_F_PTCCH %ld\nC GSM_MAX_FN %lu\nC CYCLE %d\n",
	       (long) (SCHEDULE_AHEAD), (long) (SCHEDULE_LATENCY), (long) MF_F_SACCH, (long) MF_F_PTCCH, (unsigned long) GSM_MAX_FN, CYCLE);
	for (i = 0; sets[i].name; i++)
		printf("S %s\n", sets[i].name);
	for (i = 0; tasks[i].name; i++)
		printf("T %s %ld\n", tasks[i].name, tasks[i].val);
	fflush(stdout);
	for (i = 0; tasks[i].name; i++) {
		pid_t pid;
		int st;
		if (tasks[i].val < 0 || tasks[i].val > 31)
			continue;
		pid = fork();
		if (pid == 0) {
			uint32_t fn;
			cur_task = tasks[i].val;
			memset(&l1s, 0, sizeof(l1s));
			mframe_reset();
			mframe_set(1u << tasks[i].val);
			for (fn = 0; fn < CYCLE; fn++) {
				cur_fn = fn;
				gsm_fn2gsmtime(&l1s.current_time, fn);
				mframe_schedule();
			}
			printf("D %ld\n", tasks[i].val);
			fflush(stdout);
			_exit(0);
		}
		waitpid(pid, &st, 0);
		if (!(WIFEXITED(st) && WEXITSTATUS(st) == 0))
			printf("X %ld\n", tasks[i].val);       /* no table behind this task id (the code crashed) */
		fflush(stdout);
	}
	return 0;
}
