/* verif shim: empty config.h for in-tree libosmocore */
