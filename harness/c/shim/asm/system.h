/* verif shim: host replacement for the ARM interrupt primitives of
 * src/target/firmware/include/asm/system.h (environment, not code under test) */
#ifndef __ASM_ARM_SYSTEM_H
#define __ASM_ARM_SYSTEM_H
#define local_irq_save(x)	do { (x) = 0; } while (0)
#define local_firq_save(x)	do { (x) = 0; } while (0)
#define local_irq_enable()	do { } while (0)
#define local_irq_disable()	do { } while (0)
#define local_fiq_enable()	do { } while (0)
#define local_fiq_disable()	do { } while (0)
#define local_save_flags(x)	do { (x) = 0; } while (0)
#define local_irq_restore(x)	do { (void)(x); } while (0)
#endif
