/* shim: talloc -> calloc/free (no hierarchy: the code under test frees every channel
 * state explicitly before it frees the timeslot; burst buffers are not observed) */
#pragma once
#include <stdlib.h>
#include <string.h>
void *verif_talloc(size_t n);
char *verif_talloc_strdup(const char *s);
#define talloc(ctx, type)		((type *) verif_talloc(sizeof(type)))
#define talloc_zero(ctx, type)		((type *) verif_talloc(sizeof(type)))
#define talloc_zero_size(ctx, size)	verif_talloc(size)
#define talloc_free(p)			free(p)
#define talloc_strdup(ctx, s)		verif_talloc_strdup(s)
#define talloc_asprintf(ctx, fmt, args...) verif_talloc_strdup("l1sched: ")
