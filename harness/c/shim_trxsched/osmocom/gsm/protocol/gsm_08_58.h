/* shim: RSL channel numbers (3GPP TS 48.058 9.3.1 + the Osmocom extensions of current
 * libosmocore's gsm_08_58.h) */
#pragma once
#define RSL_CHAN_NR_MASK	0xf8
#define RSL_CHAN_NR_1		0x08
#define RSL_CHAN_Bm_ACCHs	0x08
#define RSL_CHAN_Lm_ACCHs	0x10
#define RSL_CHAN_SDCCH4_ACCH	0x20
#define RSL_CHAN_SDCCH8_ACCH	0x40
#define RSL_CHAN_BCCH		0x80
#define RSL_CHAN_RACH		0x88
#define RSL_CHAN_PCH_AGCH	0x90
#define RSL_CHAN_OSMO_PDCH	0xc0
#define RSL_CHAN_OSMO_CBCH4	0xc8
#define RSL_CHAN_OSMO_CBCH8	0xd0
#define ABIS_RSL_CHAN_NR_CBITS_Bm_ACCHs		0x01
#define ABIS_RSL_CHAN_NR_CBITS_Lm_ACCHs(ss)	(0x02 + (ss))
#define ABIS_RSL_CHAN_NR_CBITS_SDCCH4_ACCH(ss)	(0x04 + (ss))
#define ABIS_RSL_CHAN_NR_CBITS_SDCCH8_ACCH(ss)	(0x08 + (ss))
#define ABIS_RSL_CHAN_NR_CBITS_BCCH		0x10
#define ABIS_RSL_CHAN_NR_CBITS_RACH		0x11
#define ABIS_RSL_CHAN_NR_CBITS_PCH_AGCH		0x12
#define ABIS_RSL_CHAN_NR_CBITS_OSMO_PDCH	0x18
#define ABIS_RSL_CHAN_NR_CBITS_OSMO_CBCH4	0x19
#define ABIS_RSL_CHAN_NR_CBITS_OSMO_CBCH8	0x1a
