/* shim: declaration only */
#pragma once
#include <stdint.h>
#include <osmocom/core/bits.h>
int osmo_a5(int n, const uint8_t *key, uint32_t fn, ubit_t *dl, ubit_t *ul);
