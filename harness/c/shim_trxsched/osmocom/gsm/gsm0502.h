/* shim: shim_trxcon's constants + the TDMA frame number helpers of current libosmocore */
#pragma once
#include_next <osmocom/gsm/gsm0502.h>
#define GSM_TDMA_FN_SUM(a, b) \
	((a + b) % GSM_TDMA_HYPERFRAME)
#define GSM_TDMA_FN_SUB(a, b) \
	((a + GSM_TDMA_HYPERFRAME - b) % GSM_TDMA_HYPERFRAME)
#define GSM_TDMA_FN_INC(fn) \
	((fn) = GSM_TDMA_FN_SUM((fn), 1))
#define GSM_TDMA_FN_DEC(fn) \
	((fn) = GSM_TDMA_FN_SUB((fn), 1))
/* 5.2.3: a normal burst carries 2 x 58 payload symbols */
#define GSM_NBITS_NB_GMSK_PAYLOAD	(2 * 58)
#define GSM_NBITS_NB_8PSK_PAYLOAD	(GSM_NBITS_NB_GMSK_PAYLOAD * 3)
