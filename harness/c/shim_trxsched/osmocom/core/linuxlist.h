/* shim: the list primitives of libosmocore's linuxlist.h that sched_trx.c uses */
#pragma once
#include <stddef.h>
struct llist_head {
	struct llist_head *next, *prev;
};
#define INIT_LLIST_HEAD(ptr) do { (ptr)->next = (ptr); (ptr)->prev = (ptr); } while (0)
#define llist_entry(ptr, type, member) \
	((type *)((char *)(ptr) - offsetof(type, member)))
static inline void __llist_add(struct llist_head *_new, struct llist_head *prev, struct llist_head *next)
{
	next->prev = _new;
	_new->next = next;
	_new->prev = prev;
	prev->next = _new;
}
static inline void llist_add_tail(struct llist_head *_new, struct llist_head *head)
{
	__llist_add(_new, head->prev, head);
}
static inline void llist_del(struct llist_head *entry)
{
	entry->next->prev = entry->prev;
	entry->prev->next = entry->next;
	entry->next = NULL;
	entry->prev = NULL;
}
static inline int llist_empty(const struct llist_head *head)
{
	return head->next == head;
}
#define llist_for_each_entry(pos, head, member)				\
	for (pos = llist_entry((head)->next, typeof(*pos), member);	\
	     &pos->member != (head);					\
	     pos = llist_entry(pos->member.next, typeof(*pos), member))
#define llist_for_each_entry_safe(pos, n, head, member)			\
	for (pos = llist_entry((head)->next, typeof(*pos), member),	\
		n = llist_entry(pos->member.next, typeof(*pos), member);	\
	     &pos->member != (head);					\
	     pos = n, n = llist_entry(n->member.next, typeof(*n), member))
#define llist_first_entry(ptr, type, member) \
	llist_entry((ptr)->next, type, member)
#define llist_first_entry_or_null(ptr, type, member) \
	(!llist_empty(ptr) ? llist_first_entry(ptr, type, member) : NULL)
