#pragma once
#include_next <osmocom/core/logging.h>
#define DLGLOBAL (-1)
