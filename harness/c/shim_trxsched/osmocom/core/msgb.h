/* shim: struct msgb of shim_trxcon + the queue functions sched_trx.c calls */
#pragma once
#include_next <osmocom/core/msgb.h>
struct msgb *msgb_dequeue(struct llist_head *queue);
void msgb_free(struct msgb *m);
const char *msgb_hexdump_l2(const struct msgb *msg);
