/* C20 chain part, glue harness driver.  NOT compiled on its own: gen/hop_chain.py writes the layer23
 * translation unit (unchanged text of gsm48_decode_mobile_alloc, gsm48_rr_render_ma, arfcn2index,
 * osmo_l1_alloc, l1ctl_tx_dm_est_req_h1 and struct gsm48_rr_cd, with their environment stubbed) and
 * #includes this file at its end; the trxcon unit (l1ctl_rx_dm_est_req, l1ctl_proc_est_req_h1,
 * handle_dch_est_req) and the firmware unit (l1ctl_rx_dm_est_req of layer1/l23_api.c) are linked to it and
 * reached through glue_trxcon() / glue_fw() with the OCTETS of the L1CTL message the layer23 code built.
 * clang -fsanitize=address,undefined -fno-sanitize-recover=all; real msgb.c / talloc.c of the tree.
 *
 *   glue.run CA IEHEX PCS HSN MAIO UNSUP
 *       CA     cell allocation: comma separated ARFCNs (FREQ_TYPE_SERV set in s->freq[]) or `-`
 *       IEHEX  value part of the Mobile Allocation IE, 0..8 octets (`-` = none): cd->mob_alloc_lv = len, octets, zero fill
 *       PCS    what gsm_refer_pcs() answers (0/1)
 *       UNSUP  indices (arfcn2index) cleared in set->freq_map (all others set), comma list or `-`
 *   ->  ms cause=<c>                                                       gsm48_rr_render_ma returned an RR cause
 *       ms 0 <ma[0..ma_len)> | l1ctl <hsn> <maio> <n> <hex of 2n octets>   the L1CTL_DM_EST_REQ hopping parameters
 *          | phy <rc> <called> <hsn> <maio> <ma_len> <ma[0..ma_len)>      what trxcon hands to trxcon_phyif_handle_cmd
 *          | fw <h> <hsn> <maio> <n> <ma[0..n)>                           what the firmware stores in l1s.dedicated
 * The caller's ma[] is an exact-size heap object (C20_HOPP_CAP entries) pre-filled with 0xFFFF.
 */
static int glue_list(const char *s, int *out, int max)
{
	int n = 0;
	if (!strcmp(s, "-"))
		return 0;
	while (*s) {
		char *e;
		long v = strtol(s, &e, 10);
		if (e == s || n >= max)
			return -1;
		out[n++] = (int) v;
		s = e;
		if (*s == ',')
			s++;
		else if (*s)
			return -1;
	}
	return n;
}

static int glue_hexval(int c)
{
	if (c >= '0' && c <= '9') return c - '0';
	if (c >= 'a' && c <= 'f') return c - 'a' + 10;
	if (c >= 'A' && c <= 'F') return c - 'A' + 10;
	return -1;
}

static void glue_put_list(const long long *v, long long n)
{
	long long i;
	if (n <= 0) { printf("-"); return; }
	for (i = 0; i < n && i < 256; i++)
		printf(i ? ",%lld" : "%lld", v[i]);
}

static char glue_line[1 << 16], glue_ca[1 << 15], glue_hex[64], glue_unsup[1 << 15];
static int glue_tmp[4096];

static void glue_case(void)
{
	long pcs, hsn, maio;
	int n, i, len;
	struct osmocom_ms *ms;
	struct gsm48_sysinfo *s;
	struct gsm48_rr_cd cd;
	uint16_t *ma;
	uint8_t *ma_len;
	int cause;

	if (sscanf(glue_line, "glue.run %32767s %63s %ld %ld %ld %32767s", glue_ca, glue_hex, &pcs, &hsn, &maio, glue_unsup) != 6) {
		printf("bad-op\n");
		return;
	}
	ms = calloc(1, sizeof(*ms));
	s = calloc(1, sizeof(*s));
	ms->cellsel.si = s;
	glue_pcs = pcs != 0;
	n = glue_list(glue_ca, glue_tmp, 4096);
	if (n < 0) { printf("bad-op\n"); return; }
	for (i = 0; i < n; i++) {
		if (glue_tmp[i] < 0 || glue_tmp[i] >= C20_FREQ_CAP) { printf("bad-op\n"); return; }
		s->freq[glue_tmp[i]].mask |= FREQ_TYPE_SERV;
	}
	memset(ms->settings.freq_map, 0xff, sizeof(ms->settings.freq_map));
	n = glue_list(glue_unsup, glue_tmp, 4096);
	if (n < 0) { printf("bad-op\n"); return; }
	for (i = 0; i < n; i++) {
		if (glue_tmp[i] < 0 || glue_tmp[i] >= 8 * (int) sizeof(ms->settings.freq_map)) { printf("bad-op\n"); return; }
		ms->settings.freq_map[glue_tmp[i] >> 3] &= ~(1 << (glue_tmp[i] & 7));
	}
	memset(&cd, 0, sizeof(cd));
	cd.h = 1;
	cd.hsn = hsn;
	cd.maio = maio;
	len = 0;
	if (strcmp(glue_hex, "-")) {
		size_t hl = strlen(glue_hex);
		if (hl % 2 || hl / 2 + 1 > sizeof(cd.mob_alloc_lv)) { printf("bad-op\n"); return; }
		for (i = 0; i < (int) (hl / 2); i++) {
			int a = glue_hexval(glue_hex[2 * i]), b = glue_hexval(glue_hex[2 * i + 1]);
			if (a < 0 || b < 0) { printf("bad-op\n"); return; }
			cd.mob_alloc_lv[1 + i] = a * 16 + b;
		}
		len = hl / 2;
	}
	cd.mob_alloc_lv[0] = len;
	ma = malloc(C20_HOPP_CAP * sizeof(uint16_t));
	memset(ma, 0xff, C20_HOPP_CAP * sizeof(uint16_t));
	ma_len = malloc(1);
	*ma_len = 0xAA;

	cause = gsm48_rr_render_ma(ms, &cd, ma, ma_len);
	if (cause != 0) {
		printf("ms cause=%d\n", cause);
	} else {
		/* gsm48_rr_activate_channel: if (cd->h) l1ctl_tx_dm_est_req_h1(ms, cd->maio, cd->hsn, ma, ma_len, cd->chan_nr, …) */
		struct l1ctl_dm_est_req *req;
		struct glue_h1 t, f;
		uint8_t *copy;
		unsigned int mlen;
		glue_sent = NULL;
		l1ctl_tx_dm_est_req_h1(ms, cd.maio, cd.hsn, ma, *ma_len, 0x41, 5, 0, 0, 0);
		if (!glue_sent) { printf("ms 0 - | nothing-sent\n"); goto out; }
		printf("ms 0 ");
		if (*ma_len == 0)
			printf("-");
		for (i = 0; i < *ma_len; i++)
			printf(i ? ",%u" : "%u", ma[i]);
		req = (struct l1ctl_dm_est_req *) (glue_sent->l1h + sizeof(struct l1ctl_hdr) + sizeof(struct l1ctl_info_ul));
		printf(" | l1ctl %u %u %u ", req->h1.hsn, req->h1.maio, req->h1.n);
		if (req->h1.n == 0)
			printf("-");
		for (i = 0; i < 2 * req->h1.n; i++)
			printf("%02x", ((uint8_t *) req->h1.ma)[i]);
		/* the octets of the message, as they cross the L1CTL socket */
		mlen = glue_sent->len;
		copy = malloc(mlen);
		memcpy(copy, glue_sent->data, mlen);
		glue_trxcon(copy, mlen, &t);
		printf(" | phy %lld %d ", t.rc, t.called);
		if (t.called) {
			printf("%lld %lld %lld ", t.hsn, t.maio, t.n);
			glue_put_list(t.ma, t.n);
		} else {
			printf("- - - -");
		}
		glue_fw(copy, mlen, &f);
		printf(" | fw %d %lld %lld %lld ", f.called, f.hsn, f.maio, f.n);
		glue_put_list(f.ma, f.n);
		printf("\n");
		free(copy);
		msgb_free(glue_sent);
	}
out:
	free(ma_len);
	free(ma);
	free(s);
	free(ms);
}

const char *__asan_default_options(void) { return "detect_leaks=0:abort_on_error=0:exitcode=77:symbolize=0"; }

int main(void)
{
	while (fgets(glue_line, sizeof(glue_line), stdin)) {
		glue_case();
		fflush(stdout);
	}
	return 0;
}
