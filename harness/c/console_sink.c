/* Diagnostics of the code under test (printf / puts / putchar in firmware and library sources) must not reach the
 * protocol stream of a harness, which is its stdout: objects compiled with cbuild.CONSOLE_FLAGS call these sinks
 * instead.  The arguments are evaluated by the caller as usual. */
#include <stdarg.h>
int vf_console_puts(const char *s) { (void) s; return 0; }
int vf_console_putchar(int c) { return c; }
int vf_console_printf(const char *fmt, ...) { (void) fmt; return 0; }
