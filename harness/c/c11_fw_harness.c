/* C11 harness, firmware side: drives the REAL mframe_reset()/mframe_set()/
 * mframe_schedule() of src/target/firmware/layer1/mframe_sched.c (compiled unchanged
 * as its own object) with a recording tdma_schedule_set() stub, through the same line
 * protocol as the Lean driver.
 *   mf.fw TASKS FN0 N  -> for fn = FN0 .. FN0+N-1 (l1s.current_time.fn = fn, then
 *                         mframe_schedule()): every tdma_schedule_set() call as
 *                         "fn:frame_offset:set-name:p3", space separated; "-" if none;
 *                         "crash:null-table" / "crash:div-by-zero" if the real code faults
 * The sched sets are only identified by address (c11_fw_names.inc is generated from
 * the extern declarations of layer1/prim.h).
 */
#include <stdio.h>
#include <stdint.h>
#include <stdlib.h>
#include <string.h>
#include <signal.h>
#include <setjmp.h>

#include <layer1/sync.h>
#include <layer1/tdma_sched.h>
#include <layer1/mframe_sched.h>

struct l1s_state l1s;

#define SET(n) const struct tdma_sched_item n[1];
#define TABLE(n)
#define TASK(n)
#include "c11_fw_names.inc"
#undef SET
static const struct { const char *name; const struct tdma_sched_item *p; } sets[] = {
#define SET(n) { #n, n },
#include "c11_fw_names.inc"
#undef SET
	{ NULL, NULL }
};

static char *out;
static size_t out_len, out_cap;
static uint32_t cur_fn;

static void emit(const char *s)
{
	size_t n = strlen(s);
	if (out_len + n + 2 > out_cap) {
		out_cap = (out_cap + n + 2) * 2;
		out = realloc(out, out_cap);
	}
	if (out_len)
		out[out_len++] = ' ';
	memcpy(out + out_len, s, n + 1);
	out_len += n;
}

int tdma_schedule_set(uint8_t frame_offset, const struct tdma_sched_item *item_set, uint16_t p3)
{
	char buf[160];
	const char *nm = "?";
	int i;
	for (i = 0; sets[i].name; i++)
		if (sets[i].p == item_set)
			nm = sets[i].name;
	snprintf(buf, sizeof(buf), "%lu:%u:%s:%u", (unsigned long) cur_fn, (unsigned) frame_offset, nm, (unsigned) p3);
	emit(buf);
	return 6;	/* number of frames the set spans (only feeds safe_fn) */
}

static sigjmp_buf jb;
static void on_fault(int sig)
{
	siglongjmp(jb, sig);
}

int main(void)
{
	char line[256];
	signal(SIGSEGV, on_fault);
	signal(SIGFPE, on_fault);
	signal(SIGBUS, on_fault);
	while (fgets(line, sizeof(line), stdin)) {
		unsigned long tasks, fn0, n, k;
		int sig;
		if (sscanf(line, "mf.fw %lu %lu %lu", &tasks, &fn0, &n) != 3) {
			printf("bad-op\n");
			continue;
		}
		out_len = 0;
		if (out)
			out[0] = 0;
		sig = sigsetjmp(jb, 1);
		if (sig == 0) {
			memset(&l1s, 0, sizeof(l1s));
			mframe_reset();
			mframe_set((uint32_t) tasks);
			for (k = 0; k < n; k++) {
				cur_fn = (uint32_t) (fn0 + k);
				l1s.current_time.fn = cur_fn;
				mframe_schedule();
			}
			printf("%s\n", out_len ? out : "-");
		} else {
			printf("%s\n", sig == SIGFPE ? "crash:div-by-zero" : "crash:null-table");
		}
	}
	return 0;
}
