/* C11 harness, firmware side: drives the REAL mframe_reset()/mframe_set()/
 * mframe_schedule() of src/target/firmware/layer1/mframe_sched.c (compiled unchanged
 * as its own object) with a recording tdma_schedule_set() stub, through the same line
 * protocol as the Lean driver.
 *   mf.fw TASKS FN0 N  -> for fn = FN0 .. FN0+N-1 (l1s.current_time.fn = fn, then
 *                         mframe_schedule()): every tdma_schedule_set() call as
 *                         "fn:frame_offset:set-name:p3", space separated; "-" if none;
 *                         "crash:null-table" / "crash:div-by-zero" if the real code faults
 *   mf.run RVS T,G,S OP OP ...
 *                      the enable/disable/set/reset state machine and mframe_schedule() on one
 *                      struct mframe_scheduler, initially {tasks = T, tasks_tgt = G, safe_fn = S};
 *                      RVS = value returned by the tdma_schedule_set() stub per sched set
 *                      (comma separated, order of c11_fw_names.inc).  OP = r (mframe_reset) |
 *                      s<mask> (mframe_set) | e<id> (mframe_enable) | d<id> (mframe_disable) |
 *                      p (nothing) -> "tasks,tasks_tgt,safe_fn" after the op;
 *                      t<fn0>,<n> -> for fn = FN0 .. FN0+N-1 one token
 *                      "<calls or ->@tasks.safe_fn" (calls "fn:frame_offset:set-name:p3" joined
 *                      by ','), tokens joined by ' '.  Op outputs joined by '|';
 *                      "crash:<kind>@<k>" (k = ops completed) if the real code faults;
 *                      e / d with an id >= 32 are reported as "crash:shift-out-of-range@k"
 *                      without being executed (undefined shift).
 * The sched sets are only identified by address (c11_fw_names.inc is generated from
 * the extern declarations of layer1/prim.h).
 */
#include <stdio.h>
#include <stdint.h>
#include <stdlib.h>
#include <string.h>
#include <signal.h>
#include <setjmp.h>

#include <layer1/sync.h>
#include <layer1/tdma_sched.h>
#include <layer1/mframe_sched.h>

struct l1s_state l1s;

#define SET(n) const struct tdma_sched_item n[1];
#define TABLE(n)
#define TASK(n)
#include "c11_fw_names.inc"
#undef SET
static const struct { const char *name; const struct tdma_sched_item *p; } sets[] = {
#define SET(n) { #n, n },
#include "c11_fw_names.inc"
#undef SET
	{ NULL, NULL }
};

static char *out;
static size_t out_len, out_cap;
static uint32_t cur_fn;

static char sep = ' ';
static int sep_pending;

static void emit_raw(const char *s)
{
	size_t n = strlen(s);
	if (out_len + n + 2 > out_cap) {
		out_cap = (out_cap + n + 2) * 2;
		out = realloc(out, out_cap);
	}
	memcpy(out + out_len, s, n + 1);
	out_len += n;
}

static void emit(const char *s)
{
	if (sep == ' ' ? out_len != 0 : sep_pending) {
		char b[2] = { sep, 0 };
		emit_raw(b);
	}
	emit_raw(s);
	sep_pending = 1;
}

#define MAX_SETS 64
static int rvs[MAX_SETS];
static int use_rvs;

int tdma_schedule_set(uint8_t frame_offset, const struct tdma_sched_item *item_set, uint16_t p3)
{
	char buf[160];
	const char *nm = "?";
	int i;
	int rv = 6;	/* number of frames the set spans (only feeds safe_fn) */
	for (i = 0; sets[i].name; i++)
		if (sets[i].p == item_set) {
			nm = sets[i].name;
			if (use_rvs)
				rv = rvs[i];
		}
	snprintf(buf, sizeof(buf), "%lu:%u:%s:%u", (unsigned long) cur_fn, (unsigned) frame_offset, nm, (unsigned) p3);
	emit(buf);
	return rv;
}

static void state(char *buf, size_t n)
{
	snprintf(buf, n, "%lu,%lu,%lu", (unsigned long) l1s.mframe_sched.tasks,
		 (unsigned long) l1s.mframe_sched.tasks_tgt, (unsigned long) l1s.mframe_sched.safe_fn);
}

static volatile int ops_done;

/* "mf.run RVS T,G,S OP ..." (the line is modified) -> 0 ok, 1 malformed, 2 undefined shift */
static int do_run(char *line)
{
	char *save = NULL, *tok, *p;
	unsigned long t, g, sf, a, b, k;
	char buf[128];
	int nsets = 0, i;
	for (i = 0; sets[i].name; i++)
		nsets++;
	tok = strtok_r(line, " \t\r\n", &save);		/* mf.run */
	tok = strtok_r(NULL, " \t\r\n", &save);		/* RVS */
	if (!tok)
		return 1;
	for (i = 0, p = tok; i < nsets; i++) {
		char *end;
		long v = strtol(p, &end, 10);
		if (end == p || (i + 1 < nsets ? *end != ',' : *end != 0))
			return 1;
		rvs[i] = (int) v;
		p = end + 1;
	}
	tok = strtok_r(NULL, " \t\r\n", &save);
	if (!tok || sscanf(tok, "%lu,%lu,%lu", &t, &g, &sf) != 3)
		return 1;
	memset(&l1s, 0, sizeof(l1s));
	l1s.mframe_sched.tasks = (uint32_t) t;
	l1s.mframe_sched.tasks_tgt = (uint32_t) g;
	l1s.mframe_sched.safe_fn = (uint32_t) sf;
	use_rvs = 1;
	ops_done = 0;
	while ((tok = strtok_r(NULL, " \t\r\n", &save))) {
		size_t start;
		if (ops_done)
			emit_raw("|");
		if (!strcmp(tok, "r")) {
			mframe_reset();
		} else if (!strcmp(tok, "p")) {
		} else if (tok[0] == 's' && sscanf(tok + 1, "%lu", &a) == 1) {
			mframe_set((uint32_t) a);
		} else if ((tok[0] == 'e' || tok[0] == 'd') && sscanf(tok + 1, "%lu", &a) == 1) {
			if (a >= 32)
				return 2;
			if (tok[0] == 'e')
				mframe_enable((enum mframe_task) a);
			else
				mframe_disable((enum mframe_task) a);
		} else if (tok[0] == 't' && sscanf(tok + 1, "%lu,%lu", &a, &b) == 2) {
			for (k = 0; k < b; k++) {
				cur_fn = (uint32_t) (a + k);
				l1s.current_time.fn = cur_fn;
				if (k)
					emit_raw(" ");
				start = out_len;
				sep = ',';
				sep_pending = 0;
				mframe_schedule();
				sep = ' ';
				if (out_len == start)
					emit_raw("-");
				snprintf(buf, sizeof(buf), "@%lu.%lu", (unsigned long) l1s.mframe_sched.tasks,
					 (unsigned long) l1s.mframe_sched.safe_fn);
				emit_raw(buf);
			}
			if (b == 0)
				emit_raw("-");
			ops_done++;
			continue;
		} else {
			return 1;
		}
		state(buf, sizeof(buf));
		emit_raw(buf);
		ops_done++;
	}
	if (!ops_done)
		emit_raw("-");
	return 0;
}

static sigjmp_buf jb;
static void on_fault(int sig)
{
	siglongjmp(jb, sig);
}

int main(void)
{
	static char line[1 << 16];
	signal(SIGSEGV, on_fault);
	signal(SIGFPE, on_fault);
	signal(SIGBUS, on_fault);
	while (fgets(line, sizeof(line), stdin)) {
		unsigned long tasks, fn0, n, k;
		int sig;
		if (!strncmp(line, "mf.run ", 7)) {
			int rc;
			out_len = 0;
			if (out)
				out[0] = 0;
			sig = sigsetjmp(jb, 1);
			if (sig == 0) {
				rc = do_run(line);
				if (rc == 1)
					printf("bad-op\n");
				else if (rc == 2)
					printf("crash:shift-out-of-range@%d\n", ops_done);
				else
					printf("%s\n", out);
			} else {
				printf("%s@%d\n", sig == SIGFPE ? "crash:div-by-zero" : "crash:null-table", ops_done);
			}
			sep = ' ';
			use_rvs = 0;
			continue;
		}
		if (sscanf(line, "mf.fw %lu %lu %lu", &tasks, &fn0, &n) != 3) {
			printf("bad-op\n");
			continue;
		}
		out_len = 0;
		if (out)
			out[0] = 0;
		sig = sigsetjmp(jb, 1);
		if (sig == 0) {
			memset(&l1s, 0, sizeof(l1s));
			mframe_reset();
			mframe_set((uint32_t) tasks);
			for (k = 0; k < n; k++) {
				cur_fn = (uint32_t) (fn0 + k);
				l1s.current_time.fn = cur_fn;
				mframe_schedule();
			}
			printf("%s\n", out_len ? out : "-");
		} else {
			printf("%s\n", sig == SIGFPE ? "crash:div-by-zero" : "crash:null-table");
		}
	}
	return 0;
}
