/* C11 harness, trxcon side: calls the REAL l1sched_mframe_layout() of
 * src/host/trxcon/src/sched_mframe.c (compiled unchanged as its own object, shim
 * headers of harness/c/shim_trxcon for the libosmocore environment) and performs the
 * frame lookup of sched_trx.c (`frames[fn % period]`) on what it returns.
 *   mf.layout CONFIG TN         -> "none" | "config period slotmask lchan_mask has-frames"
 *   mf.frames CONFIG TN FN0 N   -> "none" | for fn = FN0 .. FN0+N-1 the looked-up frame as
 *                                  "dl_chan.dl_bid/ul_chan.ul_bid"; the caller guards are
 *                                  not part of the lookup: period 0 is reported as
 *                                  "crash:period-zero", frames == NULL as "crash:null-frames"
 */
#include <stdio.h>
#include <stdint.h>
#include <stdlib.h>
#include <string.h>

#include <osmocom/bb/l1sched/l1sched.h>

int main(void)
{
	static char line[256];
	while (fgets(line, sizeof(line), stdin)) {
		unsigned long cfg, tn, fn0, n, k;
		const struct l1sched_tdma_multiframe *L;
		if (sscanf(line, "mf.layout %lu %lu", &cfg, &tn) == 2) {
			L = l1sched_mframe_layout((enum gsm_phys_chan_config) cfg, (uint8_t) tn);
			if (!L)
				printf("none\n");
			else
				printf("%ld %u %u %llu %d\n", (long) L->chan_config, (unsigned) L->period,
				       (unsigned) L->slotmask, (unsigned long long) L->lchan_mask, L->frames != NULL);
		} else if (sscanf(line, "mf.frames %lu %lu %lu %lu", &cfg, &tn, &fn0, &n) == 4) {
			L = l1sched_mframe_layout((enum gsm_phys_chan_config) cfg, (uint8_t) tn);
			if (!L) {
				printf("none\n");
			} else if (L->period == 0) {
				printf("crash:period-zero\n");
			} else if (L->frames == NULL) {
				printf("crash:null-frames\n");
			} else {
				for (k = 0; k < n; k++) {
					uint32_t fn = (uint32_t) (fn0 + k);
					unsigned int offset = fn % L->period;
					const struct l1sched_tdma_frame *f = &L->frames[offset];
					printf("%s%ld.%u/%ld.%u", k ? " " : "", (long) f->dl_chan, (unsigned) f->dl_bid,
					       (long) f->ul_chan, (unsigned) f->ul_bid);
				}
				printf("\n");
			}
		} else {
			printf("bad-op\n");
		}
	}
	return 0;
}
