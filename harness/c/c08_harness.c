/* C08 harness: drives the REAL firmware TDMA scheduler (src/target/firmware/layer1/tdma_sched.c,
 * compiled unchanged from the repo under test) through the line protocol of
 * lean/OsmoVerif/Driver/TdmaSched.lean.
 *
 * Environment supplied here (never the code under test): the global `l1s` (struct l1s_state from
 * the firmware's own layer1/sync.h), the console functions (tdma_sched.c is compiled with
 * -Dputs=fw_puts -Dprintf=fw_printf -Dputchar=fw_putchar so its diagnostics do not reach the
 * protocol stream), and a fixed table of recording callbacks.
 *
 *   ts.run CUR [def ... ;]* op ; op ; ...   one line = one history on a zeroed scheduler with cur_bucket = CUR
 *     def ID call | call | ...     -> k   script of callback ID: the calls it makes on the REAL scheduler from
 *                                         inside, when tdma_sched_execute() invokes it (call = sched ... | set ...);
 *                                         scripts come first, one per id, <= 16 calls, <= 64 set elements
 *     sched OFF CB P1 P2 P3 PRIO   -> r<rc>            (CB = 0..24, or E = &tdma_end_set)
 *     set OFF P3 <elem>...         -> r<rc>            (elem: `i CB P1 P2 PRIO FLAGS` | F | E)
 *     exec                         -> x<rc>[:id,p1,p2,p3,ret[/rc]...]...   (/rc: what each scripted call returned)
 *     adv -> a   reset -> z   flags -> f<flag_scan>   dump -> d<num_items of bucket wrap(i)>,...
 */
#include <stdio.h>
#include <stdint.h>
#include <stdlib.h>
#include <string.h>
#include <stdarg.h>

#include <layer1/tdma_sched.h>
#include <layer1/sync.h>

struct l1s_state l1s;

/* console of the firmware: swallowed */
int fw_puts(const char *s) { (void) s; return 0; }
int fw_printf(const char *fmt, ...) { (void) fmt; return 0; }
int fw_putchar(int c) { return c; }

/* ---- recording callbacks ---------------------------------------------------------------- */
#define NUM_CALLBACKS 25
#define MAX_SCRIPT_CALLS 16
#define MAX_SCRIPT_SET 64
struct buf { char *p; size_t len, cap; };
static struct buf out;      /* answer line under construction */
static struct buf calls;    /* callbacks invoked by the running tdma_sched_execute() */

static void vemit(struct buf *b, const char *fmt, va_list ap)
{
	int n;
	if (b->cap - b->len < 256) {
		b->cap = b->cap * 2 + 1024;
		b->p = realloc(b->p, b->cap);
		if (!b->p)
			exit(3);
	}
	n = vsnprintf(b->p + b->len, b->cap - b->len, fmt, ap);
	b->len += n;
}

static void emit(const char *fmt, ...)
{
	va_list ap;
	va_start(ap, fmt);
	vemit(&out, fmt, ap);
	va_end(ap);
}

static void emit_call(const char *fmt, ...)
{
	va_list ap;
	va_start(ap, fmt);
	vemit(&calls, fmt, ap);
	va_end(ap);
}

static int cb_ret(int id, uint8_t p1, uint8_t p2, uint16_t p3)
{
	if (id <= 7) return 0;
	if (id == 8) return 1;
	if (id == 9) return p1;
	if (id == 10) return -1;
	if (id == 11) return -(int) p2 - 1;
	if (id == 12) return (p3 & 1) ? -5 : 0;
	return 0;
}

/* a scheduler call: as an op of the history, or made by a scripted callback from inside */
struct call {
	int is_set;
	long off, p1, p2, p3, prio;
	tdma_sched_cb *cb;
	int nset;
	struct tdma_sched_item *set;		/* is_set: the caller's item_set[] (with END_SET) */
};
struct script {
	int n;
	struct call c[MAX_SCRIPT_CALLS];
	struct tdma_sched_item set[MAX_SCRIPT_CALLS][MAX_SCRIPT_SET];
};
static struct script scripts[NUM_CALLBACKS];
static int script_defined[NUM_CALLBACKS];

static int do_call(const struct call *c)
{
	if (c->is_set)
		return tdma_schedule_set((uint8_t) c->off, c->set, (uint16_t) c->p3);
	return tdma_schedule((uint8_t) c->off, c->cb, (uint8_t) c->p1, (uint8_t) c->p2, (uint16_t) c->p3,
			     (int16_t) c->prio);
}

/* the body of every callback: record the invocation, make the scripted calls on the real scheduler
 * (we are inside tdma_sched_execute()), record what they returned, report the fixed result */
static int record(int id, uint8_t p1, uint8_t p2, uint16_t p3)
{
	int rc = cb_ret(id, p1, p2, p3), k;
	emit_call(":%d,%u,%u,%u,%d", id, p1, p2, p3, rc);
	for (k = 0; k < scripts[id].n; k++)
		emit_call("/%d", do_call(&scripts[id].c[k]));
	return rc;
}

#define CB(n) static int cb##n(uint8_t p1, uint8_t p2, uint16_t p3) { return record(n, p1, p2, p3); }
CB(0) CB(1) CB(2) CB(3) CB(4) CB(5) CB(6) CB(7) CB(8) CB(9) CB(10) CB(11) CB(12)
CB(13) CB(14) CB(15) CB(16) CB(17) CB(18) CB(19) CB(20) CB(21) CB(22) CB(23) CB(24)
static tdma_sched_cb *const cb_table[NUM_CALLBACKS] = {
	cb0, cb1, cb2, cb3, cb4, cb5, cb6, cb7, cb8, cb9, cb10, cb11, cb12,
	cb13, cb14, cb15, cb16, cb17, cb18, cb19, cb20, cb21, cb22, cb23, cb24
};

/* ---- parsing ------------------------------------------------------------------------------ */
static int num(const char *s, long *v, int allow_neg)
{
	char *e;
	if (!s || !*s)
		return 0;
	if (!allow_neg && (*s < '0' || *s > '9'))
		return 0;
	*v = strtol(s, &e, 10);
	return *e == 0;
}

static tdma_sched_cb *cb_of(const char *s)
{
	long v;
	if (!num(s, &v, 0) || v >= NUM_CALLBACKS)
		return NULL;
	return cb_table[v];
}

#define MAXTOK (1 << 18)
#define MAXSET 8192

/* `sched ...` / `set ...` : tok[0..n) -> *c ; set elements go to setbuf[0..maxset) ; 0 if malformed */
static int parse_call(char **tok, int n, struct call *c, struct tdma_sched_item *setbuf, int maxset)
{
	static const struct tdma_sched_item end_frame = SCHED_END_FRAME();
	static const struct tdma_sched_item end_set = SCHED_END_SET();
	memset(c, 0, sizeof(*c));
	if (n == 7 && !strcmp(tok[0], "sched")) {
		c->cb = !strcmp(tok[2], "E") ? &tdma_end_set : cb_of(tok[2]);
		if (!c->cb || !num(tok[1], &c->off, 0) || !num(tok[3], &c->p1, 0) || !num(tok[4], &c->p2, 0)
		    || !num(tok[5], &c->p3, 0) || !num(tok[6], &c->prio, 1))
			return 0;
		return 1;
	}
	if (n >= 3 && !strcmp(tok[0], "set")) {
		int i = 3, k = 0, have_end = 0;
		if (!num(tok[1], &c->off, 0) || !num(tok[2], &c->p3, 0))
			return 0;
		while (i < n) {
			if (k >= maxset)
				return 0;
			if (!strcmp(tok[i], "F")) {
				setbuf[k++] = end_frame; i++;
			} else if (!strcmp(tok[i], "E")) {
				setbuf[k++] = end_set; have_end = 1; i++;
			} else if (!strcmp(tok[i], "i") && i + 5 < n) {
				long p1, p2, prio, flags;
				tdma_sched_cb *cb = cb_of(tok[i + 1]);
				if (!cb || !num(tok[i + 2], &p1, 0) || !num(tok[i + 3], &p2, 0)
				    || !num(tok[i + 4], &prio, 1) || !num(tok[i + 5], &flags, 0))
					return 0;
				memset(&setbuf[k], 0, sizeof(setbuf[k]));
				setbuf[k].cb = cb; setbuf[k].p1 = (uint8_t) p1; setbuf[k].p2 = (uint8_t) p2;
				setbuf[k].prio = (int16_t) prio; setbuf[k].flags = (uint16_t) flags;
				k++; i += 6;
			} else
				return 0;
		}
		if (!have_end)
			return 0;
		c->is_set = 1;
		c->nset = k;
		c->set = setbuf;
		return 1;
	}
	return 0;
}

static int ops_started;		/* scripts must come before the first op */

/* one op: tok[0..n) ; returns 0 if malformed */
static int do_op(char **tok, int n)
{
	if (n >= 2 && !strcmp(tok[0], "def")) {
		long id;
		int start = 2, i;
		struct script *sc;
		if (ops_started || !num(tok[1], &id, 0) || id >= NUM_CALLBACKS || script_defined[id])
			return 0;
		sc = &scripts[id];
		sc->n = 0;
		script_defined[id] = 1;
		if (n > 2) {
			for (i = 2; i <= n; i++) {
				if (i == n || !strcmp(tok[i], "|")) {
					if (sc->n >= MAX_SCRIPT_CALLS
					    || !parse_call(tok + start, i - start, &sc->c[sc->n], sc->set[sc->n], MAX_SCRIPT_SET))
						return 0;
					sc->n++;
					start = i + 1;
				}
			}
		}
		emit("k");
		return 1;
	}
	ops_started = 1;
	if (n >= 1 && (!strcmp(tok[0], "sched") || !strcmp(tok[0], "set"))) {
		static struct tdma_sched_item set[MAXSET];
		struct call c;
		if (!parse_call(tok, n, &c, set, MAXSET))
			return 0;
		emit("r%d", do_call(&c));
		return 1;
	}
	if (n == 1 && !strcmp(tok[0], "exec")) {
		size_t off;
		int rc;
		calls.len = 0;
		rc = tdma_sched_execute();
		emit("x%d", rc);
		for (off = 0; off < calls.len; off += 200)
			emit("%.*s", (int) (calls.len - off > 200 ? 200 : calls.len - off), calls.p + off);
		return 1;
	}
	if (n == 1 && !strcmp(tok[0], "adv")) {
		tdma_sched_advance();
		emit("a");
		return 1;
	}
	if (n == 1 && !strcmp(tok[0], "reset")) {
		tdma_sched_reset();
		emit("z");
		return 1;
	}
	if (n == 1 && !strcmp(tok[0], "flags")) {
		emit("f%u", (unsigned) tdma_sched_flag_scan());
		return 1;
	}
	if (n == 1 && !strcmp(tok[0], "dump")) {
		unsigned i, nb = sizeof(l1s.tdma_sched.bucket) / sizeof(l1s.tdma_sched.bucket[0]);
		emit("d");
		for (i = 0; i < nb; i++) {
			unsigned nr = (l1s.tdma_sched.cur_bucket + i) % nb;
			emit("%s%u", i ? "," : "", (unsigned) l1s.tdma_sched.bucket[nr].num_items);
		}
		return 1;
	}
	return 0;
}

int main(void)
{
	static char line[1 << 22];
	static char *tok[MAXTOK];
	while (fgets(line, sizeof(line), stdin)) {
		int n = 0, i, start, ok = 1, first = 1;
		long cur;
		char *p = strtok(line, " \t\r\n");
		while (p && n < MAXTOK) {
			tok[n++] = p;
			p = strtok(NULL, " \t\r\n");
		}
		out.len = 0;
		if (p || n < 3 || strcmp(tok[0], "ts.run") || !num(tok[1], &cur, 0)
		    || cur >= (long) (sizeof(l1s.tdma_sched.bucket) / sizeof(l1s.tdma_sched.bucket[0]))) {
			fputs("bad-op\n", stdout);
			continue;
		}
		/* syntax check of the whole line happens while running; a malformed op voids the line */
		memset(&l1s, 0, sizeof(l1s));
		memset(script_defined, 0, sizeof(script_defined));
		for (i = 0; i < NUM_CALLBACKS; i++)
			scripts[i].n = 0;
		ops_started = 0;
		l1s.tdma_sched.cur_bucket = (uint8_t) cur;
		start = 2;
		for (i = 2; i <= n && ok; i++) {
			if (i == n || !strcmp(tok[i], ";")) {
				if (!first)
					emit(" ");
				first = 0;
				ok = do_op(tok + start, i - start);
				start = i + 1;
			}
		}
		if (!ok)
			fputs("bad-op\n", stdout);
		else {
			fwrite(out.p, 1, out.len, stdout);
			fputc('\n', stdout);
		}
	}
	return 0;
}
