/* shim for the C06 osmocon harness: osmocon.c is written against a newer libosmocore select API than the
 * copy in src/shared/libosmocore (OSMO_FD_* names, osmo_fd_update_when / osmo_fd_write_enable / _disable).
 * The file-descriptor event loop is the ENVIRONMENT of the functions under test; this header only adds
 * the missing names on top of the in-tree header, the functions themselves are recording stubs in
 * harness/c/c06_osmocon_harness.c. */
#pragma once
#include_next <osmocom/core/select.h>
#ifndef OSMO_FD_READ
#define OSMO_FD_READ	BSC_FD_READ
#define OSMO_FD_WRITE	BSC_FD_WRITE
#define OSMO_FD_EXCEPT	BSC_FD_EXCEPT
#endif
struct osmo_fd;
void osmo_fd_update_when(struct osmo_fd *ofd, unsigned int when_mask, unsigned int when);
void osmo_fd_write_enable(struct osmo_fd *ofd);
void osmo_fd_write_disable(struct osmo_fd *ofd);
void osmo_fd_setup(struct osmo_fd *ofd, int fd, unsigned int when,
		   int (*cb)(struct osmo_fd *fd, unsigned int what), void *data, unsigned int priv_nr);
