/* C06 (osmocon part) harness: drives the REAL host side of the serial link -- handle_sercomm_write(),
 * hdlc_send_to_phone(), handle_buffer() / handle_read() / serial_read() of src/host/osmocon/osmocon.c,
 * compiled unchanged (the file is #included below so that its static functions can be called) together
 * with the real sercomm.c (-DHOST_BUILD), msgb.c and talloc.c, under ASan/UBSan -- through the same line
 * protocol as lean/OsmoVerif/Driver/Osmocon.lean.
 *
 * The ENVIRONMENT is replaced here and only here: read()/write() on the serial fd are scripted (macro
 * renaming inside osmocon.c), the select loop / timers / serial port setup of libosmocore are recording
 * stubs, exit() is caught, stdout of osmocon's printf goes to /dev/null (the answers use a duplicate of
 * the original stdout).
 *
 *   oc.run OP OP ...            one history on a fresh process (forked child)
 *     reg D        sercomm_register_rx_cb(D, recorder)                       -> g:<rc>
 *     hdlc B       dnload.expect_hdlc = B
 *     send D LEN HEX   hdlc_send_to_phone(D, <octets of HEX in an exact-size heap buffer>, LEN)
 *                                                       -> s:<tx queue depth of D afterwards>:<1 if osmo_fd_write_enable was called>
 *     wr RC        handle_sercomm_write() with the next write() scripted: RC = f (accept everything) |
 *                  k >= 0 (accept min(k, count) octets) | -1 (fail, EAGAIN)
 *                                                       -> w:<hex offered to write() or ->:<rc of write(), n = not called>:<1 if osmo_fd_write_disable was called>
 *     in HEX       octets become readable on the serial fd
 *     chunk K      read() returns at most K octets per call from now on (0 = no limit)
 *     eof          after the readable octets: read() returns 0 instead of -1/EAGAIN
 *     rd           handle_read() once                   -> callbacks c:<dlci>:<hex> as they happen, then
 *                                                          r:<rc>:<bufptr-buffer>:<expect_hdlc>:<dnload.state>:<when & WRITE>:<hex of buffer>
 *     srd          serial_read(&dnload.serial_fd, OSMO_FD_READ)   -> callbacks, then R:<bufptr-buffer>:<expect_hdlc>:<state>:<when & WRITE>:<hex of buffer>
 *                  (`EXIT<n>` and nothing more when the code calls exit(n))
 *   `ABORT` (and nothing more) when osmo_panic was reached (MSGB_ABORT); the parent appends `CRASH` when
 *   the child died (sanitizer report, signal).
 *
 *   oc.dump        the constants the translator needs (gen/osmocon.py)
 */
#include <ctype.h>
#include <stdio.h>
#include <stdlib.h>
#include <string.h>
#include <unistd.h>
#include <stdint.h>
#include <stdarg.h>
#include <fcntl.h>
#include <errno.h>
#include <termios.h>
#include <sys/ioctl.h>
#include <sys/types.h>
#include <sys/socket.h>
#include <sys/stat.h>
#include <sys/un.h>
#include <sys/wait.h>
#include <arpa/inet.h>

#include <sercomm.h>
#include <osmocom/core/linuxlist.h>
#include <osmocom/core/select.h>
#include <osmocom/core/serial.h>
#include <osmocom/core/talloc.h>
#include <osmocom/core/timer.h>
#include <osmocom/core/application.h>
#include <osmocom/core/socket.h>

/* ---- answer channel ------------------------------------------------------------------------------ */
static int ans_fd = 1;
static int first = 1;

static void tok(const char *s)
{
	size_t n = strlen(s);
	if (!first && write(ans_fd, " ", 1) != 1)
		_exit(5);
	first = 0;
	while (n) {
		ssize_t w = write(ans_fd, s, n);
		if (w <= 0)
			_exit(5);
		s += w;
		n -= w;
	}
}

static char *hexs(const uint8_t *d, size_t n)
{
	static const char hx[] = "0123456789abcdef";
	char *b = malloc(2 * n + 2);
	size_t i;
	if (!n) {
		strcpy(b, "-");
		return b;
	}
	for (i = 0; i < n; i++) {
		b[2 * i] = hx[d[i] >> 4];
		b[2 * i + 1] = hx[d[i] & 15];
	}
	b[2 * n] = 0;
	return b;
}

/* ---- scripted serial fd ---------------------------------------------------------------------------- */
#define SERIAL_FD 777
static uint8_t *in_q;
static size_t in_len, in_pos, in_chunk;
static int in_eof;

static int wr_script;		/* -2 = accept everything, -1 = fail, k >= 0 = accept min(k, count) */
static int wr_called;
static long wr_rc;
static uint8_t *wr_buf;
static size_t wr_count;

static ssize_t c06_read(int fd, void *buf, size_t n)
{
	size_t k;
	if (fd != SERIAL_FD) {
		errno = EBADF;
		return -1;
	}
	k = in_len - in_pos;
	if (k == 0) {
		if (in_eof)
			return 0;
		errno = EAGAIN;
		return -1;
	}
	if (k > n)
		k = n;
	if (in_chunk && k > in_chunk)
		k = in_chunk;
	memcpy(buf, in_q + in_pos, k);	/* ASan checks the destination range */
	in_pos += k;
	return k;
}

static ssize_t c06_write(int fd, const void *buf, size_t n)
{
	if (fd != SERIAL_FD)
		return n;	/* console output of hdlc_console_cb etc. */
	wr_called = 1;
	wr_count = n;
	wr_buf = malloc(n + 1);
	memcpy(wr_buf, buf, n);
	if (wr_script == -1) {
		errno = EAGAIN;
		wr_rc = -1;
	} else if (wr_script == -2 || (size_t) wr_script > n)
		wr_rc = n;
	else
		wr_rc = wr_script;
	return wr_rc;
}

static void c06_exit(int code)
{
	char b[32];
	snprintf(b, sizeof(b), "EXIT%d", code);
	tok(b);
	_exit(0);
}

/* ---- environment stubs ------------------------------------------------------------------------------ */
static int ev_we, ev_wd;

void osmo_panic(const char *fmt, ...)
{
	tok("ABORT");
	_exit(0);
}
void OSMO_ASSERT(int x)
{
	if (!x) {
		tok("ASSERT");
		_exit(0);
	}
}
void osmo_fd_update_when(struct osmo_fd *ofd, unsigned int when_mask, unsigned int when)
{
	ofd->when = (ofd->when & when_mask) | when;
}
void osmo_fd_write_enable(struct osmo_fd *ofd)
{
	ev_we = 1;
	ofd->when |= OSMO_FD_WRITE;
}
void osmo_fd_write_disable(struct osmo_fd *ofd)
{
	ev_wd = 1;
	ofd->when &= ~OSMO_FD_WRITE;
}
void osmo_fd_setup(struct osmo_fd *ofd, int fd, unsigned int when,
		   int (*cb)(struct osmo_fd *fd, unsigned int what), void *data, unsigned int priv_nr)
{
	ofd->fd = fd;
	ofd->when = when;
	ofd->cb = cb;
	ofd->data = data;
	ofd->priv_nr = priv_nr;
}
int osmo_fd_register(struct osmo_fd *fd) { return 0; }
void osmo_fd_unregister(struct osmo_fd *fd) { }
int osmo_select_main(int polling) { return 0; }
void osmo_init_ignore_signals(void) { }
int osmo_serial_init(const char *dev, speed_t baudrate) { return SERIAL_FD; }
int osmo_serial_set_baudrate(int fd, speed_t baudrate) { return 0; }
int osmo_sock_unix_init_ofd(struct osmo_fd *ofd, uint16_t type, uint8_t proto, const char *path, unsigned int flags) { return 0; }
void osmo_timer_schedule(struct osmo_timer_list *timer, int seconds, int microseconds) { }
void hdlc_tpudbg_cb(uint8_t dlci, struct msgb *msg) { msgb_free(msg); }

/* ---- the code under test ------------------------------------------------------------------------------ */
#define read c06_read
#define write c06_write
#define exit c06_exit
#define main osmocon_main
#ifndef PACKAGE_VERSION
#define PACKAGE_VERSION "verif"
#endif
#include OSMOCON_C
#undef read
#undef write
#undef exit
#undef main

/* ---- driver ------------------------------------------------------------------------------------------ */
static void recorder(uint8_t dlci, struct msgb *msg)
{
	char b[32], *h = hexs(msg->data, msgb_length(msg)), *o;
	snprintf(b, sizeof(b), "c:%u:", dlci);
	o = malloc(strlen(b) + strlen(h) + 1);
	strcpy(o, b);
	strcat(o, h);
	tok(o);
	free(o);
	free(h);
	msgb_free(msg);
}

static int hexval(int c)
{
	if (c >= '0' && c <= '9') return c - '0';
	if (c >= 'a' && c <= 'f') return c - 'a' + 10;
	if (c >= 'A' && c <= 'F') return c - 'A' + 10;
	return -1;
}

static long unhex(const char *s, uint8_t **res)
{
	size_t n = strlen(s), i;
	uint8_t *b;
	*res = NULL;
	if (!strcmp(s, "-")) {
		*res = malloc(0);	/* zero octets usable: ASan flags any read */
		if (!*res)
			*res = malloc(1);
		return 0;
	}
	if (n % 2)
		return -1;
	b = malloc(n / 2);
	for (i = 0; i < n / 2; i++) {
		int h = hexval(s[2 * i]), l = hexval(s[2 * i + 1]);
		if (h < 0 || l < 0)
			return -1;
		b[i] = 16 * h + l;
	}
	*res = b;
	return n / 2;
}

static int parse_ll(const char *s, long long *v)
{
	char *end;
	if (!s || !*s)
		return -1;
	*v = strtoll(s, &end, 10);
	return *end ? -1 : 0;
}

static void emit_read_state(const char *tag, int with_rc, int rc)
{
	char b[200], *h = hexs(buffer, sizeof(buffer));
	if (with_rc)
		snprintf(b, sizeof(b), "%s:%d:%ld:%d:%d:%d:%s", tag, rc, (long) (bufptr - buffer), dnload.expect_hdlc,
			 (int) dnload.state, !!(dnload.serial_fd.when & OSMO_FD_WRITE), h);
	else
		snprintf(b, sizeof(b), "%s:%ld:%d:%d:%d:%s", tag, (long) (bufptr - buffer), dnload.expect_hdlc,
			 (int) dnload.state, !!(dnload.serial_fd.when & OSMO_FD_WRITE), h);
	tok(b);
	free(h);
}

static int run_ops(char **t, int n)
{
	int i = 0;
	long long a, b;

	dnload.serial_fd.fd = SERIAL_FD;
	dnload.serial_fd.when = OSMO_FD_READ;
	sercomm_init();
	while (i < n) {
		if (!strcmp(t[i], "rd")) {
			int rc = handle_read();
			emit_read_state("r", 1, rc);
			i += 1;
		} else if (!strcmp(t[i], "srd")) {
			serial_read(&dnload.serial_fd, OSMO_FD_READ);
			emit_read_state("R", 0, 0);
			i += 1;
		} else if (!strcmp(t[i], "eof")) {
			in_eof = 1;
			i += 1;
		} else if (i + 1 >= n) {
			return -1;
		} else if (!strcmp(t[i], "reg")) {
			char o[32];
			if (parse_ll(t[i + 1], &a) || a < 0 || a > 255)
				return -1;
			snprintf(o, sizeof(o), "g:%d", sercomm_register_rx_cb((uint8_t) a, recorder));
			tok(o);
			i += 2;
		} else if (!strcmp(t[i], "hdlc")) {
			if (parse_ll(t[i + 1], &a))
				return -1;
			dnload.expect_hdlc = (int) a;
			i += 2;
		} else if (!strcmp(t[i], "chunk")) {
			if (parse_ll(t[i + 1], &a) || a < 0)
				return -1;
			in_chunk = (size_t) a;
			i += 2;
		} else if (!strcmp(t[i], "in")) {
			uint8_t *d;
			long k = unhex(t[i + 1], &d);
			if (k < 0)
				return -1;
			in_q = realloc(in_q, in_len + k + 1);
			memcpy(in_q + in_len, d, k);
			in_len += k;
			free(d);
			i += 2;
		} else if (!strcmp(t[i], "wr")) {
			char *h, *o;
			if (!strcmp(t[i + 1], "f"))
				wr_script = -2;
			else if (parse_ll(t[i + 1], &a) || a < -1 || a > 100000)
				return -1;
			else
				wr_script = (int) a;
			wr_called = 0;
			ev_wd = 0;
			handle_sercomm_write();
			if (wr_called) {
				h = hexs(wr_buf, wr_count);
				o = malloc(strlen(h) + 64);
				sprintf(o, "w:%s:%ld:%d", h, wr_rc, ev_wd);
				free(h);
				free(wr_buf);
			} else {
				o = malloc(64);
				sprintf(o, "w:-:n:%d", ev_wd);
			}
			tok(o);
			free(o);
			i += 2;
		} else if (!strcmp(t[i], "send") && i + 3 < n) {
			uint8_t *d;
			long k;
			char o[64];
			if (parse_ll(t[i + 1], &a) || a < 0 || a > 255 || parse_ll(t[i + 2], &b))
				return -1;
			k = unhex(t[i + 3], &d);
			if (k < 0)
				return -1;
			ev_we = 0;
			hdlc_send_to_phone((uint8_t) a, d, (int) b);
			snprintf(o, sizeof(o), "s:%u:%d", a < _SC_DLCI_MAX ? sercomm_tx_queue_depth((uint8_t) a) : 0, ev_we);
			tok(o);
			free(d);
			i += 4;
		} else
			return -1;
	}
	return 0;
}

static void dump(void)
{
	char b[256], *h;
	int len, lo;
	uint8_t big[1024];
	/* one token per constant, written as soon as it is known: a probe that dies leaves the rest readable */
#define P(name, arr) do { h = hexs(arr, sizeof(arr)); snprintf(b, sizeof(b), "%s=%s", name, h); tok(b); free(h); } while (0)
#define N(name, val) do { snprintf(b, sizeof(b), "%s=%d", name, (int) (val)); tok(b); } while (0)
	N("window", sizeof(buffer));
	P("prompt1", phone_prompt1);
	P("prompt2", phone_prompt2);
	P("ack", phone_ack);
	P("nack_magic", phone_nack_magic);
	P("nack", phone_nack);
	P("ftmtool", ftmtool);
	P("dnload_cmd", dnload_cmd);
	N("st_prompt1", WAITING_PROMPT1);
	N("st_prompt2", WAITING_PROMPT2);
	N("st_downloading", DOWNLOADING);
	dnload.serial_fd.fd = SERIAL_FD;
	sercomm_init();
	memset(big, 0x41, sizeof(big));
	/* observed: how many octets handle_sercomm_write() offers to one write() at most */
	for (len = 0; len < 60; len++)		/* far more than any plausible chunk: 60 messages of 200 octets */
		hdlc_send_to_phone(5, big, 200);
	wr_script = -2;
	wr_called = 0;
	handle_sercomm_write();
	N("write_buf", wr_called && wr_count < 60 * 200 ? (int) wr_count : -1);
	/* observed: the largest LEN hdlc_send_to_phone() queues */
	lo = -1;
	for (len = 0; len <= 1000; len++) {
		unsigned int before = sercomm_tx_queue_depth(5);
		hdlc_send_to_phone(5, big, len);
		if (sercomm_tx_queue_depth(5) == before)
			break;
		lo = len;
	}
	N("send_max", lo);
}

int main(void)
{
	char *line = NULL;
	size_t cap = 0;
	ssize_t len;
	int devnull;

	/* osmocon's own printf/perror output must not mix with the answers */
	ans_fd = dup(1);
	devnull = open("/dev/null", O_WRONLY);
	if (ans_fd < 0 || devnull < 0)
		return 9;
	dup2(devnull, 1);
	dup2(devnull, 2);

	while ((len = getline(&line, &cap, stdin)) > 0) {
		pid_t pid;
		int status = 0;

		pid = fork();
		if (pid < 0)
			return 6;
		if (pid == 0) {
			char **t = malloc(sizeof(char *) * (len / 2 + 2));
			int n = 0, rc = -1;
			char *p = strtok(line, " \t\r\n");
			while (p) {
				t[n++] = p;
				p = strtok(NULL, " \t\r\n");
			}
			if (n >= 1 && !strcmp(t[0], "oc.run"))
				rc = run_ops(t + 1, n - 1);
			else if (n == 1 && !strcmp(t[0], "oc.dump")) {
				dump();
				rc = 0;
			}
			if (rc < 0)
				tok(first ? "bad-op" : "BAD");
			if (first)
				tok("ok");
			_exit(0);
		}
		if (waitpid(pid, &status, 0) < 0)
			return 7;
		if (!WIFEXITED(status) || WEXITSTATUS(status) != 0) {
			if (write(ans_fd, " CRASH\n", 7) != 7)
				return 8;
		} else if (write(ans_fd, "\n", 1) != 1)
			return 8;
	}
	free(line);
	return 0;
}
