#pragma once
#include <stdint.h>
#include <osmocom/core/msgb.h>
enum osmo_prim_operation {
	PRIM_OP_REQUEST,
	PRIM_OP_RESPONSE,
	PRIM_OP_INDICATION,
	PRIM_OP_CONFIRM,
};
struct osmo_prim_hdr {
	unsigned int sap;
	unsigned int primitive;
	enum osmo_prim_operation operation;
	struct msgb *msg;
};
const char *osmo_prim_operation_name(enum osmo_prim_operation val);
