#pragma once
#include <sys/time.h>
#include <osmocom/core/linuxlist.h>
struct osmo_timer_list {
	struct llist_head list;
	struct timeval timeout;
	unsigned int active : 1;
	void (*cb)(void *);
	void *data;
};
