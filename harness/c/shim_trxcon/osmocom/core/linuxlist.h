<<<<<<< HEAD
#pragma once
struct llist_head {
	struct llist_head *next, *prev;
};
=======
/* shim: the in-tree linuxlist.h is used as is */
#pragma once
#include_next <osmocom/core/linuxlist.h>
>>>>>>> 290d82d36de733d6cf0d7509f16f5a44d8446d2e
