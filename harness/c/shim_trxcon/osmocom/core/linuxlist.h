#pragma once
struct llist_head {
	struct llist_head *next, *prev;
};
