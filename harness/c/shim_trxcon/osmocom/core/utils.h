#pragma once
#include <stdint.h>
#include <stddef.h>
#include <stdbool.h>
#define ARRAY_SIZE(x) (sizeof(x) / sizeof((x)[0]))
#define OSMO_MAX(a, b) ((a) >= (b) ? (a) : (b))
#define OSMO_MIN(a, b) ((a) >= (b) ? (b) : (a))
struct value_string {
	uint32_t value;
	const char *str;
};
const char *get_value_string(const struct value_string *vs, uint32_t val);
#define OSMO_ASSERT(exp) do { if (!(exp)) osmo_panic("Assert failed %s %s:%d\n", #exp, __FILE__, __LINE__); } while (0)
void osmo_panic(const char *fmt, ...);
