#pragma once
#include <stdint.h>
#include <osmocom/core/linuxlist.h>
struct msgb {
	struct llist_head list;
	unsigned char *l1h;
	unsigned char *l2h;
	unsigned char *l3h;
	unsigned char *l4h;
	uint16_t data_len;
	uint16_t len;
	unsigned char *head;
	unsigned char *tail;
	unsigned char *data;
};
#define msgb_l1(m) ((void *)((m)->l1h))
#define msgb_l2(m) ((void *)((m)->l2h))
