#pragma once
#include <stdint.h>
#include <stddef.h>
typedef int8_t  sbit_t;
typedef uint8_t ubit_t;
typedef uint8_t pbit_t;

/* libosmocore's generated bit16gen.h / bit32gen.h / bit64gen.h API (load/store of 16, 32 and 64 bit values in either
 * byte order, with and without explicit octet count), written out so that code using any of them compiles */
#define OSMO_SHIM_BITGEN(N, T) \
static inline T osmo_load##N##le_ext(const void *p, uint8_t n) \
{ uint8_t i; T r = 0; const uint8_t *q = (const uint8_t *)p; \
  for (i = 0; i < n; i++) r |= ((T)q[i] << (8 * i)); return r; } \
static inline T osmo_load##N##be_ext(const void *p, uint8_t n) \
{ uint8_t i; T r = 0; const uint8_t *q = (const uint8_t *)p; \
  for (i = 0; i < n; i++) r |= ((T)q[i] << (N - 8 * (1 + i))); return r; } \
static inline void osmo_store##N##le_ext(T x, void *p, uint8_t n) \
{ uint8_t i; uint8_t *q = (uint8_t *)p; for (i = 0; i < n; i++) q[i] = (x >> (i * 8)) & 0xFF; } \
static inline void osmo_store##N##be_ext(T x, void *p, uint8_t n) \
{ uint8_t i; uint8_t *q = (uint8_t *)p; for (i = 0; i < n; i++) q[i] = (x >> ((n - 1 - i) * 8)) & 0xFF; } \
static inline T osmo_load##N##le(const void *p) { return osmo_load##N##le_ext(p, N / 8); } \
static inline T osmo_load##N##be(const void *p) { return osmo_load##N##be_ext(p, N / 8); } \
static inline void osmo_store##N##le(T x, void *p) { osmo_store##N##le_ext(x, p, N / 8); } \
static inline void osmo_store##N##be(T x, void *p) { osmo_store##N##be_ext(x, p, N / 8); }
OSMO_SHIM_BITGEN(16, uint16_t)
OSMO_SHIM_BITGEN(32, uint32_t)
OSMO_SHIM_BITGEN(64, uint64_t)
