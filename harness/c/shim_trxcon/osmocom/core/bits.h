#pragma once
#include <stdint.h>
#include <stddef.h>
typedef int8_t  sbit_t;
typedef uint8_t ubit_t;
typedef uint8_t pbit_t;
