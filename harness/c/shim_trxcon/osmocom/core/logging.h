#pragma once
#define LOGL_DEBUG  1
#define LOGL_INFO   3
#define LOGL_NOTICE 5
#define LOGL_ERROR  7
#define LOGL_FATAL  8
void verif_logp_sink(int cat, int level, const char *fmt, ...);
#define LOGP(cat, level, fmt, args...) verif_logp_sink(cat, level, fmt, ## args)
