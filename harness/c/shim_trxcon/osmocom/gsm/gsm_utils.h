<<<<<<< HEAD
#pragma once
#include <stdint.h>
#include <osmocom/core/utils.h>
#define GSM_MAX_FN	(26*51*2048)
struct gsm_time {
	uint32_t fn;
	uint16_t t1;
	uint8_t t2;
	uint8_t t3;
	uint8_t tc;
};
/* upstream libosmocore ordering (osmocom/gsm/gsm_utils.h); kept as an X-list so
 * that the dumpers can print the NAME of every value */
#define VERIF_GSM_PCHAN_LIST(X) \
	X(GSM_PCHAN_NONE) \
	X(GSM_PCHAN_CCCH) \
	X(GSM_PCHAN_CCCH_SDCCH4) \
	X(GSM_PCHAN_TCH_F) \
	X(GSM_PCHAN_TCH_H) \
	X(GSM_PCHAN_SDCCH8_SACCH8C) \
	X(GSM_PCHAN_PDCH) \
	X(GSM_PCHAN_TCH_F_PDCH) \
	X(GSM_PCHAN_UNKNOWN) \
	X(GSM_PCHAN_CCCH_SDCCH4_CBCH) \
	X(GSM_PCHAN_SDCCH8_SACCH8C_CBCH) \
	X(GSM_PCHAN_OSMO_DYN)
#define VERIF_X_ENUM(n) n,
enum gsm_phys_chan_config {
	VERIF_GSM_PCHAN_LIST(VERIF_X_ENUM)
	_GSM_PCHAN_MAX
};
#define GSM_PCHAN_TCH_F_TCH_H_PDCH GSM_PCHAN_OSMO_DYN
=======
/* shim: the subset of <osmocom/gsm/gsm_utils.h> trx_if.c needs, with the declarations of
 * current libosmocore (the in-tree copy predates gsm_freq102arfcn and the *_CBCH channel
 * configurations).  gsm_arfcn2freq10() is linked from the in-tree
 * src/shared/libosmocore/src/gsm/gsm_utils.c; gsm_freq102arfcn() is provided by
 * harness/c/trxcon/shim_impl.c (transcribed from libosmocore). */
#pragma once
#include <stdint.h>

#define GSM_MAX_FN	(26*51*2048)

#define	ARFCN_PCS	0x8000
#define	ARFCN_UPLINK	0x4000
#define	ARFCN_FLAG_MASK	0xf000	/* Reserve the upper 5 bits for flags */

uint16_t gsm_arfcn2freq10(uint16_t arfcn, int uplink);
uint16_t gsm_freq102arfcn(uint16_t freq10, int uplink);

/* Osmocom internal, not part of any gsm spec (order as in libosmocore) */
enum gsm_phys_chan_config {
	GSM_PCHAN_NONE,
	GSM_PCHAN_CCCH,
	GSM_PCHAN_CCCH_SDCCH4,
	GSM_PCHAN_TCH_F,
	GSM_PCHAN_TCH_H,
	GSM_PCHAN_SDCCH8_SACCH8C,
	GSM_PCHAN_PDCH,		/* GPRS PDCH */
	GSM_PCHAN_TCH_F_PDCH,	/* TCH/F if used, PDCH otherwise */
	GSM_PCHAN_UNKNOWN,
	GSM_PCHAN_CCCH_SDCCH4_CBCH,
	GSM_PCHAN_SDCCH8_SACCH8C_CBCH,
	GSM_PCHAN_OSMO_DYN,
	_GSM_PCHAN_MAX
};
>>>>>>> 290d82d36de733d6cf0d7509f16f5a44d8446d2e
