#pragma once
#include <stdint.h>
#include <osmocom/core/utils.h>
#define GSM_MAX_FN	(26*51*2048)
struct gsm_time {
	uint32_t fn;
	uint16_t t1;
	uint8_t t2;
	uint8_t t3;
	uint8_t tc;
};
/* upstream libosmocore ordering (osmocom/gsm/gsm_utils.h); kept as an X-list so
 * that the dumpers can print the NAME of every value */
#define VERIF_GSM_PCHAN_LIST(X) \
	X(GSM_PCHAN_NONE) \
	X(GSM_PCHAN_CCCH) \
	X(GSM_PCHAN_CCCH_SDCCH4) \
	X(GSM_PCHAN_TCH_F) \
	X(GSM_PCHAN_TCH_H) \
	X(GSM_PCHAN_SDCCH8_SACCH8C) \
	X(GSM_PCHAN_PDCH) \
	X(GSM_PCHAN_TCH_F_PDCH) \
	X(GSM_PCHAN_UNKNOWN) \
	X(GSM_PCHAN_CCCH_SDCCH4_CBCH) \
	X(GSM_PCHAN_SDCCH8_SACCH8C_CBCH) \
	X(GSM_PCHAN_OSMO_DYN)
#define VERIF_X_ENUM(n) n,
enum gsm_phys_chan_config {
	VERIF_GSM_PCHAN_LIST(VERIF_X_ENUM)
	_GSM_PCHAN_MAX
};
#define GSM_PCHAN_TCH_F_TCH_H_PDCH GSM_PCHAN_OSMO_DYN
