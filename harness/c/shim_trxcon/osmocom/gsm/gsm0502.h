#pragma once
#include <osmocom/gsm/gsm_utils.h>
#define GSM_TDMA_SUPERFRAME	(26 * 51)
#define GSM_TDMA_HYPERFRAME	(2048 * GSM_TDMA_SUPERFRAME)
#define GSM_NBITS_NB_GMSK_BURST	148
#define GSM_NBITS_NB_8PSK_BURST	(GSM_NBITS_NB_GMSK_BURST * 3)
