# Reads, with `ast`, the literal wiring that fake_trx.Application.__init__ and the receive
# paths contain, so that neither the world harness nor the Lean model hard-codes them:
#   FakePM(...) arguments, keyword arguments of the two append_trx() calls (BTS, MS),
#   recvfrom(N) sizes of ctrl_if.CTRLInterface.handle_rx and data_if.DATAInterface.recv_raw_data
import ast, os

def _find_calls(tree, pred):
    return [n for n in ast.walk(tree) if isinstance(n, ast.Call) and pred(n)]

def _name(f):
    if isinstance(f, ast.Attribute):
        return f.attr
    if isinstance(f, ast.Name):
        return f.id
    return None

def extract(trx_dir):
    out = {}
    t = ast.parse(open(os.path.join(trx_dir, "fake_trx.py")).read())
    app = [n for n in ast.walk(t) if isinstance(n, ast.ClassDef) and n.name == "Application"][0]
    init = [n for n in app.body if isinstance(n, ast.FunctionDef) and n.name == "__init__"][0]
    pm = _find_calls(init, lambda c: _name(c.func) == "FakePM")[0]
    out["fake_pm_args"] = [ast.literal_eval(a) for a in pm.args]
    calls = _find_calls(init, lambda c: _name(c.func) == "append_trx")
    calls.sort(key=lambda c: c.lineno)
    out["append_trx_kwargs"] = [dict((k.arg, ast.literal_eval(k.value)) for k in c.keywords) for c in calls]
    for mod, cls, fn, key in (("ctrl_if.py", "CTRLInterface", "handle_rx", "ctrl_recv"),
                              ("data_if.py", "DATAInterface", "recv_raw_data", "data_recv")):
        t = ast.parse(open(os.path.join(trx_dir, mod)).read())
        c = [n for n in ast.walk(t) if isinstance(n, ast.ClassDef) and n.name == cls][0]
        f = [n for n in c.body if isinstance(n, ast.FunctionDef) and n.name == fn][0]
        r = _find_calls(f, lambda c: _name(c.func) == "recvfrom")[0]
        out[key] = ast.literal_eval(r.args[0])
    return out
