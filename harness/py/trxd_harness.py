# Drives the REAL TxMsg / RxMsg / DATAInterface classes of /repo's trx_toolkit with the line
# protocol of lean/OsmoVerif/Driver/Trxd.lean (see there for the text encoding) and prints the
# same canonical answers.  argv[1] = toolkit directory.  Nothing is written into the repo, no
# network: DATAInterface gets an in-memory socket object from outside.
from excname import exc_name
import sys
sys.dont_write_bytecode = True
sys.path.insert(0, sys.argv[1])
import logging
logging.disable(logging.CRITICAL)
from array import array
import data_msg
from data_msg import TxMsg, RxMsg, Modulation
import data_if
import data_dump
import io
import os


class MemSock:
    """stands in for the UDP socket of UDPLink: records what is handed to sendto()"""
    def __init__(self):
        self.sent = []
    def sendto(self, data, remote):
        self.sent.append(bytes(data))
    def getsockname(self):
        return ("127.0.0.1", 0)
    def close(self):
        pass


def make_if():
    """the interface object as the REAL constructors build it (every attribute the methods read is the one they set), over an
    in-memory socket"""
    return make_real_if()


def hdr_ver_of(dif):
    """the header version the interface holds, under the attribute name of the unchanged code or whatever it is called now"""
    if hasattr(dif, "_hdr_ver"):
        return dif._hdr_ver
    c = [k for k in vars(dif) if "hdr_ver" in k or k.strip("_") in ("ver", "version")]
    return getattr(dif, c[0]) if len(c) == 1 else None


class QueueSock(MemSock):
    """in-memory UDP socket: recvfrom(n) hands out the next queued datagram cut to n octets (what a UDP
    socket does with a longer datagram)"""
    def __init__(self):
        MemSock.__init__(self)
        self.queue = []
    def recvfrom(self, n):
        data = self.queue.pop(0)
        return bytes(data[:n]), ("127.0.0.1", 5702)
    def setsockopt(self, *a):
        pass
    def bind(self, *a):
        pass
    def setblocking(self, *a):
        pass


def make_real_if():
    """a DATAInterface built by the real DATAInterface.__init__ / UDPLink.__init__; only socket.socket()
    is answered with an in-memory socket while the constructor runs"""
    import udp_link
    real = udp_link.socket.socket
    udp_link.socket.socket = lambda *a, **k: QueueSock()
    try:
        return data_if.DATAInterface("127.0.0.1", 5702, "127.0.0.1", 0)
    finally:
        udp_link.socket.socket = real


def show_recv(tag, r):
    if r is None:
        return tag + " None"
    if isinstance(r, TxMsg):
        return tag + " " + show_tx(r)
    if isinstance(r, RxMsg):
        return tag + " " + show_rx(r)
    return tag + " " + repr(r).replace(" ", "_")


def handle_if(tok):
    verb = tok[0]
    if verb == "trxdif.hist":
        dif = make_real_if()
        out, i = [], 1
        while i < len(tok):
            op = tok[i]
            if op == "V":
                out.append("s " + repr(dif.set_hdr_ver(int(tok[i + 1]))).replace(" ", "_"))
            elif op in ("T", "R"):
                dif.sock.queue.append(octets(tok[i + 1]))
                try:
                    out.append(show_recv("t", dif.recv_tx_msg()) if op == "T" else show_recv("r", dif.recv_rx_msg()))
                except Exception as e:
                    out.append("E " + exc_name(e))
            else:
                raise AssertionError("bad interface operation")
            i += 2
        return "ok " + " ; ".join(out) + " | " + repr(hdr_ver_of(dif)).replace(" ", "_")
    if verb == "trxdif.parses":
        out, i = [], 1
        while i < len(tok):
            try:
                if tok[i] == "T":
                    m = TxMsg()
                    m.parse_msg(octets(tok[i + 1]))
                    out.append("T " + show_tx(m))
                elif tok[i] == "R":
                    m = RxMsg()
                    m.parse_msg(bytearray(octets(tok[i + 1])))
                    out.append("R " + show_rx(m))
                else:
                    raise AssertionError("bad item")
            except AssertionError:
                raise
            except Exception as e:
                out.append("E " + exc_name(e))
            i += 2
        return "ok " + " ; ".join(out)
    return "bad-op"


def opt_int(s):
    return None if s == "-" else int(s)


def octets(s):
    if s == ".":
        return b""
    out = b""
    for seg in s.split(","):
        if seg.startswith("*"):
            n, x = seg[1:].split(":")
            assert len(x) == 2
            out += bytes([int(x, 16)]) * int(n)
        else:
            assert seg not in ("", "-")
            out += bytes.fromhex(seg)
    return out


def burst_octets(s):
    return None if s == "-" else octets(s)


def mk_tx(t):
    ver, fn, tn, pwr, burst = t
    m = TxMsg(fn=opt_int(fn), tn=opt_int(tn), ver=int(ver))
    m.pwr = opt_int(pwr)
    b = burst_octets(burst)
    m.burst = None if b is None else bytearray(b)
    return m


def set_tx(m, t, inplace=False):
    """give an EXISTING TxMsg object the fields of record t (attribute assignment, as a caller that re-uses a message object
    does); inplace: a burst of equal length is overwritten element by element instead of being replaced"""
    ver, fn, tn, pwr, burst = t
    m.ver, m.fn, m.tn, m.pwr = int(ver), opt_int(fn), opt_int(tn), opt_int(pwr)
    b = burst_octets(burst)
    if inplace and b is not None and m.burst is not None and len(m.burst) == len(b):
        for i, x in enumerate(b):
            m.burst[i] = x
    else:
        m.burst = None if b is None else bytearray(b)


def set_rx(m, t, inplace=False):
    ver, fn, tn, rssi, toa, mod, nope, tset, tsc, ci, burst = t
    m.ver, m.fn, m.tn = int(ver), opt_int(fn), opt_int(tn)
    m.rssi = opt_int(rssi)
    m.toa256 = opt_int(toa)
    m.mod_type = None if mod == "-" else Modulation[mod]
    m.nope_ind = (nope == "1")
    m.tsc_set = opt_int(tset)
    m.tsc = opt_int(tsc)
    m.ci = opt_int(ci)
    b = burst_octets(burst)
    if inplace and b is not None and m.burst is not None and len(m.burst) == len(b):
        nb = array('b', b)
        for i in range(len(nb)):
            m.burst[i] = nb[i]
    else:
        m.burst = None if b is None else array('b', b)


def second_use(m, kind, legacy):
    """what the SECOND use of one message object yields: gen_msg() octets or the exception, and what send_msg() emits"""
    try:
        g = "ok " + show_octets(m.gen_msg(legacy))
    except Exception as e:
        g = exc_name(e)
    dif = make_if()
    try:
        dif.send_msg(m, legacy)
        sn = "ok " + " ".join([str(len(dif.sock.sent))] + [show_octets(d) for d in dif.sock.sent])
    except Exception as e:
        sn = exc_name(e)
    return g + " | " + sn


def mk_rx(t):
    ver, fn, tn, rssi, toa, mod, nope, tset, tsc, ci, burst = t
    m = RxMsg(fn=opt_int(fn), tn=opt_int(tn), ver=int(ver))
    m.rssi = opt_int(rssi)
    m.toa256 = opt_int(toa)
    m.mod_type = None if mod == "-" else Modulation[mod]
    m.nope_ind = (nope == "1")
    m.tsc_set = opt_int(tset)
    m.tsc = opt_int(tsc)
    m.ci = opt_int(ci)
    b = burst_octets(burst)
    m.burst = None if b is None else array('b', b)
    return m


def show_opt(v):
    return "-" if v is None else "%d" % v


def show_octets(b):
    b = bytes(b)
    if len(b) == 0:
        return "."
    segs, cur, i, n = [], bytearray(), 0, len(b)
    while i < n:
        j = i
        while j < n and b[j] == b[i]:
            j += 1
        if j - i >= 8:
            if cur:
                segs.append(cur.hex())
                cur = bytearray()
            segs.append("*%d:%02x" % (j - i, b[i]))
        else:
            cur += b[i:j]
        i = j
    if cur:
        segs.append(cur.hex())
    return ",".join(segs)


def show_burst(b):
    if b is None:
        return "-"
    if isinstance(b, array):
        b = b.tobytes()
    return show_octets(b)


def show_tx(m):
    return " ".join([show_opt(m.ver), show_opt(m.fn), show_opt(m.tn), show_opt(m.pwr), show_burst(m.burst)])


def show_rx(m):
    return " ".join([show_opt(m.ver), show_opt(m.fn), show_opt(m.tn), show_opt(m.rssi), show_opt(m.toa256),
                     "-" if m.mod_type is None else m.mod_type.name, "1" if m.nope_ind else "0",
                     show_opt(m.tsc_set), show_opt(m.tsc), show_opt(m.ci), show_burst(m.burst)])


def ok(s=""):
    return "ok" if s == "" else "ok " + s


def mk_msgs(tok):
    out, i = [], 0
    while i < len(tok):
        if tok[i] == "T":
            out.append(mk_tx(tok[i + 1:i + 6]))
            i += 6
        elif tok[i] == "R":
            out.append(mk_rx(tok[i + 1:i + 12]))
            i += 12
        else:
            raise AssertionError("bad message list")
    return out


def show_msg(m):
    return ("T " + show_tx(m)) if isinstance(m, TxMsg) else ("R " + show_rx(m))


def show_all(r):
    if r is False:
        return "False"
    return " ".join([str(len(r))] + [show_msg(m) for m in r])


def opt_nat(s):
    return None if s == "-" else int(s)


def dump_file(data):
    ddf = data_dump.DATADumpFile(io.BytesIO(bytes(data)))
    return ddf


class HistObj:
    """ONE DATADumpFile object kept alive across a history, made in one of the three ways the class can
    be used: on an io.BytesIO ("b"), on a file object opened "w+b" by the caller ("w", as the toolkit's own
    test does), or from a path ("p": the class itself opens it "a+b", as burst_gen/burst_send/trx_sniff do).
    Files live under $VERIF_SCRATCH only."""
    seq = 0

    def __init__(self, mode, data):
        self.mode = mode
        self.path = None
        if mode != "b":
            d = os.environ["VERIF_SCRATCH"]
            HistObj.seq += 1
            self.path = os.path.join(d, "capture.%d.%d.bin" % (os.getpid(), HistObj.seq))
        self.open(bytes(data))

    def open(self, data):
        if self.mode == "b":
            self.ddf = data_dump.DATADumpFile(io.BytesIO(data))
        elif self.mode == "w":
            f = open(self.path, "w+b")
            f.write(data)
            f.seek(0)
            self.ddf = data_dump.DATADumpFile(f)
        elif self.mode == "p":
            with open(self.path, "wb") as f:
                f.write(data)
            self.ddf = data_dump.DATADumpFile(self.path)
        else:
            raise AssertionError("bad mode")

    def content(self):
        """the stored octets, read WITHOUT the object under test (file modes: from the disk)"""
        if self.mode == "b":
            return self.ddf.f.getvalue()
        self.ddf.f.flush()
        with open(self.path, "rb") as f:
            return f.read()

    def close(self):
        f = self.ddf.f
        self.ddf = None          # DATADumpFile.__del__ closes the file
        if not f.closed:
            f.close()
        if self.path is not None and os.path.exists(self.path):
            os.unlink(self.path)

    def crash(self, n):
        """the file is cut at octet n and opened again (a new object)"""
        data = self.content()[:n]
        self.close()
        self.open(data)


def show_res(r):
    return "None" if r is None else ("False" if r is False else show_msg(r))


def run_hist(mode, data, tok):
    h = HistObj(mode, data)
    out = []
    try:
        i = 0
        while i < len(tok):
            op = tok[i]
            if op == "A":
                n = 6 if tok[i + 1] == "T" else 12
                msgs = mk_msgs(tok[i + 1:i + 1 + n])
                assert len(msgs) == 1
                i += 1 + n
                try:
                    h.ddf.append_msg(msgs[0])
                    out.append("D")
                except Exception as e:
                    out.append("E " + exc_name(e))
            elif op == "L":
                cnt = int(tok[i + 1])
                j = i + 2
                for _ in range(cnt):
                    j += 6 if tok[j] == "T" else 12
                msgs = mk_msgs(tok[i + 2:j])
                assert len(msgs) == cnt
                i = j
                try:
                    h.ddf.append_all(msgs)
                    out.append("D")
                except Exception as e:
                    out.append("E " + exc_name(e))
            elif op == "M":
                idx = int(tok[i + 1])
                i += 2
                try:
                    out.append("m " + show_res(h.ddf.parse_msg(idx)))
                except Exception as e:
                    out.append("E " + exc_name(e))
                    return " ; ".join(out) + " | ?"
            elif op == "P":
                skip, count = opt_nat(tok[i + 1]), opt_nat(tok[i + 2])
                i += 3
                try:
                    out.append("a " + show_all(h.ddf.parse_all(skip, count)))
                except Exception as e:
                    out.append("E " + exc_name(e))
                    return " ; ".join(out) + " | ?"
            elif op == "X":
                h.crash(int(tok[i + 1]))
                i += 2
                out.append("X")
            else:
                raise AssertionError("bad history operation")
        return " ; ".join(out) + " | " + show_octets(h.content())
    finally:
        h.close()


def handle_dump(tok):
    verb = tok[0]
    if verb == "dump.hist":
        if tok[1] not in ("b", "w", "p"):
            return "bad-op"
        return ok(run_hist(tok[1], octets(tok[2]), tok[3:]))
    if verb == "dump.write":
        ddf = dump_file(b"")
        ddf.append_all(mk_msgs(tok[1:]))
        return ok(show_octets(ddf.f.getvalue()))
    if verb == "dump.parseall":
        ddf = dump_file(octets(tok[3]))
        return ok(show_all(ddf.parse_all(opt_nat(tok[1]), opt_nat(tok[2]))))
    if verb == "dump.parsemsg":
        ddf = dump_file(octets(tok[2]))
        r = ddf.parse_msg(int(tok[1]))
        return ok("None" if r is None else ("False" if r is False else show_msg(r)))
    if verb == "dump.cutscan":
        data = octets(tok[3])
        skip, count = opt_nat(tok[1]), opt_nat(tok[2])
        full = dump_file(data).parse_all(skip, count)
        full_s = None if full is False else [show_msg(m) for m in full]
        cells = []
        for c in range(len(data) + 1):
            r = dump_file(data[:c]).parse_all(skip, count)
            if r is False:
                cells.append("F")
            else:
                rs = [show_msg(m) for m in r]
                okp = full_s is not None and rs == full_s[:len(rs)]
                cells.append("%d%s" % (len(rs), "" if okp else "!"))
        return ok(" ".join(cells))
    return "bad-op"


def handle(tok):
    verb = tok[0]
    if verb.startswith("dump."):
        return handle_dump(tok)
    if verb.startswith("trxdif."):
        return handle_if(tok)
    if verb in ("trxd.tx.validate", "trxd.rx.validate"):
        m = mk_tx(tok[1:]) if ".tx." in verb else mk_rx(tok[1:])
        m.validate()
        return ok()
    if verb in ("trxd.tx.gen", "trxd.rx.gen"):
        m = mk_tx(tok[2:]) if ".tx." in verb else mk_rx(tok[2:])
        return ok(show_octets(m.gen_msg(tok[1] == "1")))
    if verb in ("trxd.tx.send", "trxd.rx.send"):
        m = mk_tx(tok[2:]) if ".tx." in verb else mk_rx(tok[2:])
        dif = make_if()
        dif.send_msg(m, tok[1] == "1")
        return ok(" ".join([str(len(dif.sock.sent))] + [show_octets(d) for d in dif.sock.sent]))
    if verb == "trxd.tx.parse":
        m = TxMsg()
        m.parse_msg(octets(tok[1]))
        return ok(show_tx(m))
    if verb == "trxd.rx.parse":
        m = RxMsg()
        m.parse_msg(bytearray(octets(tok[1])))
        return ok(show_rx(m))
    if verb == "trxd.rx.reparse":
        m = mk_rx(tok[1:12])
        m.parse_msg(bytearray(octets(tok[12])))
        return ok(show_rx(m))
    if verb == "trxd.tx.rt":
        m = TxMsg()
        m.parse_msg(mk_tx(tok[2:]).gen_msg(tok[1] == "1"))
        return ok(show_tx(m))
    if verb == "trxd.rx.rt":
        m = RxMsg()
        m.parse_msg(mk_rx(tok[2:]).gen_msg(tok[1] == "1"))
        return ok(show_rx(m))
    # oracle only: ONE decoder object decodes the encoding of a first message, then of a second one
    if verb == "trxd.tx.rt2":
        m = TxMsg()
        m.parse_msg(mk_tx(tok[2:7]).gen_msg(tok[1] == "1"))
        m.parse_msg(mk_tx(tok[8:13]).gen_msg(tok[7] == "1"))
        return ok(show_tx(m))
    if verb == "trxd.rx.rt2":
        m = RxMsg()
        m.parse_msg(mk_rx(tok[2:13]).gen_msg(tok[1] == "1"))
        m.parse_msg(mk_rx(tok[14:25]).gen_msg(tok[13] == "1"))
        return ok(show_rx(m))
    # oracle only: ONE message object is encoded (and sent) with the fields of a first record, then given the fields of a
    # second record (mode a: attributes assigned; mode i: burst overwritten in place where the length allows) and used again
    if verb in ("trxd.tx.gen2", "trxd.rx.gen2"):
        tx = ".tx." in verb
        n = 5 if tx else 11
        mode = tok[1]
        l1, r1, l2, r2 = tok[2] == "1", tok[3:3 + n], tok[3 + n] == "1", tok[4 + n:4 + 2 * n]
        m = mk_tx(r1) if tx else mk_rx(r1)
        try:
            m.gen_msg(l1)
        except Exception:
            pass
        try:
            make_if().send_msg(m, l1)
        except Exception:
            pass
        (set_tx if tx else set_rx)(m, r2, inplace=(mode == "i"))
        return second_use(m, "tx" if tx else "rx", l2)
    if verb in ("trxd.tx.gen1", "trxd.rx.gen1"):
        # the reference: a fresh object with the fields of the record
        tx = ".tx." in verb
        m = mk_tx(tok[2:]) if tx else mk_rx(tok[2:])
        return second_use(m, "tx" if tx else "rx", tok[1] == "1")
    if verb == "trxd.tx.trans":
        return ok(show_rx(mk_tx(tok[2:]).trans(opt_int(tok[1]))))
    if verb == "trxd.rx.trans":
        return ok(show_tx(mk_rx(tok[2:]).trans(opt_int(tok[1]))))
    return "bad-op"


def main():
    out = []
    for line in sys.stdin:
        tok = line.split()
        if not tok:
            continue
        try:
            out.append(handle(tok))
        except Exception as e:
            out.append(exc_name(e))
        if len(out) >= 4096:
            sys.stdout.write("\n".join(out) + "\n")
            out = []
    if out:
        sys.stdout.write("\n".join(out) + "\n")


if __name__ == "__main__":
    main()
