# C20 chain part: the REAL FakeTRX (MS-side transceiver of the REAL Application, environment as in
# world_harness.py, which is imported for it) receives one TRXC datagram on its control socket and is then
# asked for its per-frame frequencies.
#
#   chain.trx <datagram hex | -> <fn,fn,... | ->
#       the datagram (if any) is delivered to transceiver 1 (the MS side: 127.0.0.2, base port 6700) from its L1
#       peer (control port + 100) and handled by the real CTRLInterface.handle_rx()
#   ->  trx <reply hex or -> fh=<N | hsn/maio/rx:tx,rx:tx,...> | <fn>:<rx>/<tx> ...
#       reply = every datagram the transceiver sent (hex, blank separated); fh = Transceiver.fh as stored
#       (HoppingParams.hsn, .maio, .ma in list order); rx/tx = get_rx_freq(fn) / get_tx_freq(fn): a number, None,
#       or EXC:<class>
from excname import exc_name
import sys
sys.dont_write_bytecode = True
sys.path.insert(0, sys.argv[1])
sys.path.insert(0, __file__.rsplit("/", 1)[0])

import world_harness as wh


def show(f, fn):
    try:
        v = f(fn)
    except Exception as e:
        return "EXC:" + exc_name(e)
    return "None" if v is None else str(v)


def run_line(line):
    t = line.split()
    if len(t) != 3 or t[0] != "chain.trx":
        return "bad-op"
    wh.Draw.seed = 0
    wh.Draw.k = 0
    wh.Net.log.clear()
    app = wh.build([])
    trx = app.trx_list.trx_list[1]
    exc = None
    if t[1] != "-":
        data = bytes.fromhex(t[1])
        trx.ctrl_if.sock.deliver(data, (trx.remote_addr, trx.ctrl_if.remote_port))
        try:
            trx.ctrl_if.handle_rx()
        except Exception as e:
            exc = e
    sent = [d.hex() if d else "-" for (_lp, _ra, _rp, d) in wh.Net.log]
    wh.Net.log.clear()
    reply = " ".join(sent) if sent else "-"
    if exc is not None:
        reply += " EXC:" + exc_name(exc)
    fhp = wh.hopping_of(trx) if "wh" in globals() else trx.fh
    if fhp is None:
        fh = "N"
    else:
        fh = "%s/%s/%s" % (fhp.hsn, fhp.maio, ",".join("%s:%s" % (p[0], p[1]) for p in fhp.ma))
    out = "trx %s fh=%s" % (reply, fh)
    if t[2] != "-":
        fns = [int(x) for x in t[2].split(",")]
        out += " | " + " ".join("%d:%s/%s" % (fn, show(trx.get_rx_freq, fn), show(trx.get_tx_freq, fn)) for fn in fns)
    return out


def main():
    for line in sys.stdin:
        line = line.strip()
        try:
            print(run_line(line))
        except Exception as e:
            print("HARNESS-EXC %s %s" % (exc_name(e), e))
        sys.stdout.flush()


if __name__ == "__main__":
    main()
