# drives HoppingParams.fn2gsm_time of the real gsm_shared.py:  gt.py FN -> t1 t2 t3 tc
from excname import exc_name
import sys
sys.path.insert(0, sys.argv[1])
import gsm_shared
for line in sys.stdin:
    tok = line.split()
    try:
        if tok[0] == "gt.py":
            print(" ".join(str(x) for x in gsm_shared.HoppingParams.fn2gsm_time(int(tok[1]))))
        else:
            print("bad-op")
    except Exception as e:
        print("EXC %s" % exc_name(e))
