# C07 harness: drives the REAL gsm_shared.HoppingParams and the real
# Transceiver.enable_fh / get_rx_freq / get_tx_freq (on a Transceiver built by its REAL constructor over in-memory
# sockets: every attribute the methods read is the one the constructor sets) with the line protocol of the Lean driver.
#   hop.py    HSN MAIO FN MA            -> ok RX TX | EXC <class>
#   hop.pypnm N                         -> PNM | EXC <class>
#   hop.freq  FH HSN MAIO FN MA RX0 TX0 -> init=<ok|EXC:c|-> rx=<v|None|EXC:c> tx=<…>   (FH: 0 none, 1 enable_fh, 2 enable_fh + disable_fh)
#   hop.seq   RX0 TX0 | op ; op ; …     -> one answer token per op, space separated: ONE Transceiver object lives through the
#                                          whole sequence   E HSN MAIO MA -> ok|EXC:c (enable_fh)   D -> - (disable_fh)
#                                          Q FN -> rx/tx (get_rx_freq / get_tx_freq, each v|None|EXC:c)
# oracle verbs (stateful, not mirrored by the Lean driver):
#   o.setfh HSN MAIO MA                 -> ok | EXC <class>      keeps the HoppingParams object
#   o.range FN COUNT                    -> COUNT results "rx" (space separated) of resolve(fn..fn+count-1)
#   o.res FN...                         -> one "rx" per FN
# MA: "-" = empty, else comma separated "rx:tx" pairs.
from excname import exc_name
import sys
import logging
sys.path.insert(0, sys.argv[1])
logging.disable(logging.CRITICAL)
import types
import gsm_shared
import udp_link
import transceiver


class FakeSocket:
    """in-memory socket: the constructor's interfaces bind and send nowhere"""
    def __init__(self, *a): self.bound = None
    def setsockopt(self, *a): pass
    def setblocking(self, *a): pass
    def bind(self, addr): self.bound = addr
    def close(self): pass
    def getsockname(self): return self.bound
    def sendto(self, data, remote): pass
    def recvfrom(self, n): raise BlockingIOError()


udp_link.socket = types.SimpleNamespace(socket=FakeSocket, AF_INET=2, SOCK_DGRAM=2, SOL_SOCKET=1, SO_REUSEADDR=2)


def set_named(obj, prefer, part, value):
    """the attribute `prefer` of the unchanged code, or the one attribute the constructor created whose name contains `part`"""
    if prefer in vars(obj):
        setattr(obj, prefer, value)
        return
    cands = [k for k in vars(obj) if part in k]
    setattr(obj, cands[0] if len(cands) == 1 else prefer, value)


def parse_ma(s):
    if s == "-":
        return []
    out = []
    for p in s.split(","):
        a, b = p.split(":")
        out.append((int(a), int(b)))
    return out


def opt(s):
    return None if s == "None" else int(s)


def new_trx(rx0, tx0):
    trx = transceiver.Transceiver("0.0.0.0", "127.0.0.1", 5700)
    # what RXTUNE / TXTUNE store (kHz * 1000), or nothing yet
    set_named(trx, "_rx_freq", "rx_freq", rx0)
    set_named(trx, "_tx_freq", "tx_freq", tx0)
    return trx


def call(f):
    try:
        v = f()
        return "None" if v is None else str(v)
    except Exception as e:
        return "EXC:%s" % exc_name(e)


cur = None
for line in sys.stdin:
    tok = line.split()
    try:
        if tok[0] == "hop.py":
            hp = gsm_shared.HoppingParams(int(tok[1]), int(tok[2]), parse_ma(tok[4]))
            rx, tx = hp.resolve(int(tok[3]))
            print("ok %d %d" % (rx, tx))
        elif tok[0] == "hop.pypnm":
            hp = gsm_shared.HoppingParams(1, 0, [(0, 0)] * int(tok[1]))
            # the precomputed 2^NBIN - 1 mask is a private attribute: where this tree has no such attribute the question
            # cannot be put (the mask's effect is still compared through resolve())
            print(hp._pnm if hasattr(hp, "_pnm") else "skip")
        elif tok[0] == "hop.freq":
            trx = new_trx(opt(tok[6]), opt(tok[7]))
            ini = "-"
            if int(tok[1]):
                try:
                    trx.enable_fh(int(tok[2]), int(tok[3]), parse_ma(tok[5]))
                    ini = "ok"
                except Exception as e:
                    ini = "EXC:%s" % exc_name(e)
                if int(tok[1]) == 2:
                    trx.disable_fh()
            fn = int(tok[4])
            print("init=%s rx=%s tx=%s" % (ini,
                  call(lambda: trx.get_rx_freq(fn)),
                  call(lambda: trx.get_tx_freq(fn))))
        elif tok[0] == "hop.seq":
            trx = new_trx(opt(tok[1]), opt(tok[2]))
            res = []
            for op in " ".join(tok[4:]).split(";"):
                o = op.split()
                if o[0] == "E":
                    try:
                        trx.enable_fh(int(o[1]), int(o[2]), parse_ma(o[3]))
                        res.append("ok")
                    except Exception as e:
                        res.append("EXC:%s" % exc_name(e))
                elif o[0] == "D":
                    trx.disable_fh()
                    res.append("-")
                elif o[0] == "Q":
                    fn = int(o[1])
                    res.append("%s/%s" % (call(lambda: trx.get_rx_freq(fn)),
                                          call(lambda: trx.get_tx_freq(fn))))
                else:
                    res.append("bad-op")
            print(" ".join(res))
        elif tok[0] == "o.setfh":
            cur = None
            cur = gsm_shared.HoppingParams(int(tok[1]), int(tok[2]), parse_ma(tok[3]))
            print("ok")
        elif tok[0] == "o.range":
            fn0, cnt = int(tok[1]), int(tok[2])
            print(" ".join(str(cur.resolve(fn)[0]) for fn in range(fn0, fn0 + cnt)))
        elif tok[0] == "o.res":
            print(" ".join(str(cur.resolve(int(f))[0]) for f in tok[1:]))
        else:
            print("bad-op")
    except Exception as e:
        print("EXC %s" % exc_name(e))
