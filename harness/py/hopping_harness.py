# C07 harness: drives the REAL gsm_shared.HoppingParams and the real
# Transceiver.enable_fh / get_rx_freq / get_tx_freq (plain functions applied to a bare
# Transceiver instance: no sockets are opened) with the line protocol of the Lean driver.
#   hop.py    HSN MAIO FN MA            -> ok RX TX | EXC <class>
#   hop.pypnm N                         -> PNM | EXC <class>
#   hop.freq  FH HSN MAIO FN MA RX0 TX0 -> init=<ok|EXC:c|-> rx=<v|None|EXC:c> tx=<…>   (FH: 0 none, 1 enable_fh, 2 enable_fh + disable_fh)
#   hop.seq   RX0 TX0 | op ; op ; …     -> one answer token per op, space separated: ONE Transceiver object lives through the
#                                          whole sequence   E HSN MAIO MA -> ok|EXC:c (enable_fh)   D -> - (disable_fh)
#                                          Q FN -> rx/tx (get_rx_freq / get_tx_freq, each v|None|EXC:c)
# oracle verbs (stateful, not mirrored by the Lean driver):
#   o.setfh HSN MAIO MA                 -> ok | EXC <class>      keeps the HoppingParams object
#   o.range FN COUNT                    -> COUNT results "rx" (space separated) of resolve(fn..fn+count-1)
#   o.res FN...                         -> one "rx" per FN
# MA: "-" = empty, else comma separated "rx:tx" pairs.
import sys
import logging
sys.path.insert(0, sys.argv[1])
logging.disable(logging.CRITICAL)
import gsm_shared
import transceiver


def parse_ma(s):
    if s == "-":
        return []
    out = []
    for p in s.split(","):
        a, b = p.split(":")
        out.append((int(a), int(b)))
    return out


def opt(s):
    return None if s == "None" else int(s)


def new_trx(rx0, tx0):
    trx = object.__new__(transceiver.Transceiver)   # no __init__: no sockets
    trx.remote_addr, trx.base_port, trx.child_idx, trx.name = "harness", 0, 0, None
    trx._rx_freq, trx._tx_freq, trx.fh = rx0, tx0, None
    return trx


def call(f):
    try:
        v = f()
        return "None" if v is None else str(v)
    except Exception as e:
        return "EXC:%s" % type(e).__name__


cur = None
for line in sys.stdin:
    tok = line.split()
    try:
        if tok[0] == "hop.py":
            hp = gsm_shared.HoppingParams(int(tok[1]), int(tok[2]), parse_ma(tok[4]))
            rx, tx = hp.resolve(int(tok[3]))
            print("ok %d %d" % (rx, tx))
        elif tok[0] == "hop.pypnm":
            print(gsm_shared.HoppingParams(1, 0, [(0, 0)] * int(tok[1]))._pnm)
        elif tok[0] == "hop.freq":
            trx = new_trx(opt(tok[6]), opt(tok[7]))
            ini = "-"
            if int(tok[1]):
                try:
                    transceiver.Transceiver.enable_fh(trx, int(tok[2]), int(tok[3]), parse_ma(tok[5]))
                    ini = "ok"
                except Exception as e:
                    ini = "EXC:%s" % type(e).__name__
                if int(tok[1]) == 2:
                    transceiver.Transceiver.disable_fh(trx)
            fn = int(tok[4])
            print("init=%s rx=%s tx=%s" % (ini,
                  call(lambda: transceiver.Transceiver.get_rx_freq(trx, fn)),
                  call(lambda: transceiver.Transceiver.get_tx_freq(trx, fn))))
        elif tok[0] == "hop.seq":
            trx = new_trx(opt(tok[1]), opt(tok[2]))
            res = []
            for op in " ".join(tok[4:]).split(";"):
                o = op.split()
                if o[0] == "E":
                    try:
                        transceiver.Transceiver.enable_fh(trx, int(o[1]), int(o[2]), parse_ma(o[3]))
                        res.append("ok")
                    except Exception as e:
                        res.append("EXC:%s" % type(e).__name__)
                elif o[0] == "D":
                    transceiver.Transceiver.disable_fh(trx)
                    res.append("-")
                elif o[0] == "Q":
                    fn = int(o[1])
                    res.append("%s/%s" % (call(lambda: transceiver.Transceiver.get_rx_freq(trx, fn)),
                                          call(lambda: transceiver.Transceiver.get_tx_freq(trx, fn))))
                else:
                    res.append("bad-op")
            print(" ".join(res))
        elif tok[0] == "o.setfh":
            cur = None
            cur = gsm_shared.HoppingParams(int(tok[1]), int(tok[2]), parse_ma(tok[3]))
            print("ok")
        elif tok[0] == "o.range":
            fn0, cnt = int(tok[1]), int(tok[2])
            print(" ".join(str(cur.resolve(fn)[0]) for fn in range(fn0, fn0 + cnt)))
        elif tok[0] == "o.res":
            print(" ".join(str(cur.resolve(int(f))[0]) for f in tok[1:]))
        else:
            print("bad-op")
    except Exception as e:
        print("EXC %s" % type(e).__name__)
