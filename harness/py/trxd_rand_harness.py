# Drives the REAL message generators of data_msg.py (Msg/TxMsg/RxMsg.rand_*) with the line protocol of
# lean/OsmoVerif/Driver/TrxdRand.lean (verbs `tr.*`).  argv[1] = toolkit directory.
#
# The random source.  CPython's random front end reduces every integer draw to `_randbelow(n)`:
#     randint(a, b) = randrange(a, b + 1) = a + _randbelow(b - a + 1)      choice(seq) = seq[_randbelow(len(seq))]
# ONE object SRC (a random.Random whose `_randbelow` is scripted; CPython's own randint / randrange / choice / shuffle /
# sample with their real argument checks run on top of it) is installed in place of `data_msg.random` right after the
# import, BEFORE any message object exists, and stays the same object; a request only refills it.  Modes:
#     script   _randbelow(n) pops the next value of the request's stream and returns it AS IT IS (also when >= n);
#              an exhausted stream raises Dry -> answer `dry`
#     select   the answer is chosen relative to the n the REAL code asks: L = 0, H = n - 1, M = n // 2, a number = itself;
#              when the selectors are used up the fill rule applies: L, H, A (alternating L/H) or R<seed> (uniform below n,
#              ends with probability 0.3, from a private generator)            -> conforming streams by construction
#     real     the Mersenne twister: CPython's own rejection sampling over the parent's getrandbits, seeded by the request
# Every call is recorded as (n, k).
#
# Model side (compared):   tr.tx OPS STREAM <TxMsg> | tr.rx OPS STREAM <RxMsg> -> ok <msg> | REST | NS     or  <Fail> | REST | NS
#                          tr.val FUNC MIN MAX STREAM                           -> ok V | REST | NS          or  <Fail> | REST | NS
#     OPS = comma separated H (rand_hdr()), B (rand_burst()), B<int> (rand_burst(<int>)) applied in order to ONE object
#     FUNC = fn | tn | pwr | rssi | toa; MIN/MAX = integer or `-` (argument not given)
#     STREAM = comma separated naturals or `-`; REST = answers left unused; NS = the n's asked, run-length coded (`2x148`)
# Oracle side (real code only): tr.sel.tx|rx OPS SELECTORS LEGACY <msg>, tr.real.tx|rx VER SEED COUNT ORDER LEGACY WANT
#     -> per message: <msg> | validate() outcome | TxMsg()/RxMsg().parse_msg(msg.gen_msg(legacy)) | draws n:k,...
from excname import exc_name
import sys, os
sys.dont_write_bytecode = True
sys.path.insert(0, os.path.dirname(os.path.abspath(__file__)))
import random as _random
import trxd_harness as H            # text encoding of messages; imports the live data_msg (argv[1])
import data_msg
from data_msg import TxMsg, RxMsg


class Dry(Exception):
    pass


class Unsupported(Exception):
    pass


class Source(_random.Random):
    def __init__(self):
        _random.Random.__init__(self, 0)
        self.mode = "script"
        self.stream = []
        self.pos = 0
        self.sel = []
        self.fill = "L"
        self.alt = 0
        self.priv = None
        self.log = []

    # -- refill ---------------------------------------------------------------------------------
    def script(self, stream):
        self.mode, self.stream, self.pos, self.log = "script", stream, 0, []

    def select(self, sel, fill):
        self.mode, self.sel, self.pos, self.fill, self.alt, self.log = "select", sel, 0, fill, 0, []
        self.priv = _random.Random(int(fill[1:])) if fill.startswith("R") else None

    def real(self, seed):
        self.mode, self.log = "real", []
        _random.Random.seed(self, seed)

    def rest(self):
        return len(self.stream) - self.pos

    # -- the primitive ----------------------------------------------------------------------------
    def _randbelow(self, n):
        if self.mode == "script":
            if self.pos >= len(self.stream):
                raise Dry()
            k = self.stream[self.pos]
            self.pos += 1
        elif self.mode == "select":
            if self.pos < len(self.sel):
                c = self.sel[self.pos]
                self.pos += 1
            elif self.fill == "A":
                c = "LH"[self.alt]
                self.alt ^= 1
            elif self.priv is not None:
                c = self.priv.randrange(n) if self.priv.random() >= 0.3 else self.priv.choice("LH")
            else:
                c = self.fill
            k = {"L": 0, "H": n - 1, "M": n // 2}[c] if isinstance(c, str) else c
        else:
            bits = n.bit_length()
            k = _random.Random.getrandbits(self, bits)
            while k >= n:
                k = _random.Random.getrandbits(self, bits)
        self.log.append((n, k))
        return k

    def getrandbits(self, k):
        return self._randbelow(1 << k)

    def random(self):
        if self.mode == "real":
            self.log.append((0, 0))
            return _random.Random.random(self)
        raise Unsupported("float draw")


SRC = Source()
# self-test: this interpreter's front end must go through the scripted primitive
SRC.script([2, 1])
if SRC.randint(5, 9) != 7 or SRC.choice("abc") != "b" or SRC.log != [(5, 2), (3, 1)]:
    sys.exit("trxd_rand_harness: the scripted _randbelow is not honoured by this interpreter's random module")

# install: the module object `random` as data_msg sees it, and every name bound to a method of the hidden module-level
# generator (`from random import randint`), in the module and in its classes
data_msg.random = SRC
for holder in [data_msg] + [v for v in vars(data_msg).values() if isinstance(v, type) and v.__module__ == "data_msg"]:
    for name, val in list(vars(holder).items()):
        if getattr(val, "__self__", None) is getattr(_random, "_inst", None) and hasattr(SRC, getattr(val, "__name__", "")):
            setattr(holder, name, getattr(SRC, val.__name__))


def ns(log):
    """the n's asked, run-length coded"""
    if not log:
        return "-"
    out, i = [], 0
    while i < len(log):
        j = i
        while j < len(log) and log[j][0] == log[i][0]:
            j += 1
        out.append(str(log[i][0]) if j - i == 1 else "%dx%d" % (log[i][0], j - i))
        i = j
    return ",".join(out)


def stream(tok):
    return [] if tok == "-" else [int(x) for x in tok.split(",")]


def ops(tok):
    out = []
    for o in tok.split(","):
        if o == "H":
            out.append(("H", None))
        elif o == "B":
            out.append(("B", None))
        elif o.startswith("B"):
            out.append(("B", int(o[1:])))
        else:
            raise AssertionError("bad op")
    return out


def apply_ops(m, oplist):
    for o, arg in oplist:
        if o == "H":
            m.rand_hdr()
        elif arg is None:
            m.rand_burst()
        else:
            m.rand_burst(arg)


def outcome(f):
    try:
        return "ok", f()
    except Dry:
        return "dry", None
    except AssertionError:
        raise
    except Exception as e:
        return exc_name(e), None


def show(m):
    return H.show_tx(m) if isinstance(m, TxMsg) else H.show_rx(m)


def handle_model(tok):
    verb = tok[0]
    if verb in ("tr.tx", "tr.rx"):
        oplist, st = ops(tok[1]), stream(tok[2])
        SRC.script(st)
        m = H.mk_tx(tok[3:]) if verb == "tr.tx" else H.mk_rx(tok[3:])     # created after the source was installed
        o, _ = outcome(lambda: apply_ops(m, oplist))
        return "%s | %d | %s" % ("ok " + show(m) if o == "ok" else o, SRC.rest(), ns(SRC.log))
    if verb == "tr.val":
        f, lo, hi, st = tok[1], H.opt_int(tok[2]), H.opt_int(tok[3]), stream(tok[4])
        SRC.script(st)
        kw = {}
        if lo is not None:
            kw["min"] = lo
        if hi is not None:
            kw["max"] = hi
        if f in ("fn", "tn"):
            if kw:
                return "bad-op"
            obj = TxMsg()
            call = obj.rand_fn if f == "fn" else obj.rand_tn
        elif f == "pwr":
            call = TxMsg().rand_pwr
        elif f == "rssi":
            call = RxMsg().rand_rssi
        elif f == "toa":
            call = RxMsg().rand_toa256
        else:
            return "bad-op"
        o, v = outcome(lambda: call(**kw))
        return "%s | %d | %s" % ("ok %d" % v if o == "ok" else o, SRC.rest(), ns(SRC.log))
    return "bad-op"


# ---- oracle side: the REAL validate() / gen_msg() / parse_msg() on what the REAL generators produced -------------------
def judge_record(m, legacy):
    """<msg> | validate() | parse_msg(gen_msg(legacy)) on a fresh decoder"""
    v, _ = outcome(m.validate)

    def rt():
        d = m.__class__()
        d.parse_msg(m.gen_msg(legacy))
        return d
    r, d = outcome(rt)
    return "%s | %s | %s" % (show(m), v, "ok " + show(d) if r == "ok" else r)


def draws(log):
    return ",".join("%d:%d" % d for d in log) or "-"


def handle_oracle(tok):
    verb = tok[0]
    if verb in ("tr.sel.tx", "tr.sel.rx"):
        oplist = ops(tok[1])
        sel, fill = tok[2].split(";")
        sel = [] if sel == "-" else [c if c in ("L", "H", "M") else int(c) for c in sel.split(",")]
        legacy = tok[3] == "1"
        SRC.select(sel, fill)
        m = H.mk_tx(tok[4:]) if verb == "tr.sel.tx" else H.mk_rx(tok[4:])
        o, _ = outcome(lambda: apply_ops(m, oplist))
        log = list(SRC.log)
        if o != "ok":
            return "%s | %s" % (o, draws(log))
        return "ok | %s | %s" % (judge_record(m, legacy), draws(log))
    if verb in ("tr.real.tx", "tr.real.rx"):
        ver, seed, count, order, legacy = int(tok[1]), int(tok[2]), int(tok[3]), ops(tok[4]), tok[5] == "1"
        want = None if tok[6] == "-" else int(tok[6])
        SRC.real(seed)
        m = (TxMsg if verb == "tr.real.tx" else RxMsg)(ver=ver)      # ONE object, as the tests and burst_gen use it
        out = []
        for i in range(count):
            SRC.log = []
            o, _ = outcome(lambda: apply_ops(m, order))
            if want is not None and i != want:
                continue
            rec = ("ok | " + judge_record(m, legacy)) if o == "ok" else o
            if want is not None:
                return rec + " | " + draws(SRC.log)
            out.append(rec)
        return " ;; ".join(out)
    return "bad-op"


def main():
    out = []
    for line in sys.stdin:
        tok = line.split()
        if not tok:
            continue
        try:
            out.append(handle_oracle(tok) if (tok[0].startswith("tr.sel.") or tok[0].startswith("tr.real.")) else handle_model(tok))
        except Exception as e:
            out.append("EXC " + exc_name(e))
        if len(out) >= 512:
            sys.stdout.write("\n".join(out) + "\n")
            out = []
    if out:
        sys.stdout.write("\n".join(out) + "\n")


if __name__ == "__main__":
    main()
