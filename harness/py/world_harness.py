# World harness: drives the REAL fake_trx objects (FakeTRX, BurstForwarder, TRXList,
# FakePM, CTRLInterfaceTRX, DATAInterface, CLCKGen.send_clck_ind) in-process, wired by the
# real Application.append_trx / append_child_trx, with the environment replaced from outside:
#   * udp_link.socket  -> in-memory sockets (record every sendto, serve injected datagrams)
#   * clck_gen.threading.Thread -> inert thread object (start()/stop() logic runs, no OS thread);
#     ticks are delivered by calling the real CLCKGen.send_clck_ind()
#   * fake_trx.random.randint / fake_pm.randint -> deterministic draw function shared with the model
#   * ctrl_if.time.sleep -> no-op
# Line protocol (one whole history per line, stateless):
#   world.run <seed> <extra-trx-list or -> | <op> ; <op> ; ...
#     extra trx:  a:5700/1,b:6700/0,...   (addr letter : base port / child index)
#     ops:  C <i> <srcport> <hex>   control datagram to transceiver i from 127.0.0.<x>:<srcport>
#           D <i> <hex>             data datagram to transceiver i
#           T                       one clock tick (only if the generator is running)
#           J <fn>                  clock jumps to frame fn (= idle ticks)
# Answer: cfgerr:<Exc>  or  per-op observations joined by " ; " then " | " and the final state.
import sys, types, logging

sys.path.insert(0, sys.argv[1])
sys.dont_write_bytecode = True

import udp_link, clck_gen, ctrl_if, fake_pm, fake_trx, threading
from fake_trx import Application, FakeTRX
from burst_fwd import BurstForwarder
from trx_list import TRXList
from clck_gen import CLCKGen
from fake_pm import FakePM

BIND = "0.0.0.0"
ADDR = {"a": "127.0.0.1", "b": "127.0.0.2", "c": "127.0.0.3"}

# ---------------------------------------------------------------- environment
class Net:
    log = []

class FakeSocket:
    def __init__(self, *a):
        self.bound = None
        self.inq = []
    def setsockopt(self, *a): pass
    def setblocking(self, *a): pass
    def bind(self, addr): self.bound = addr
    def close(self): pass
    def getsockname(self): return self.bound
    def sendto(self, data, remote):
        Net.log.append((self.bound[1], remote[0], remote[1], bytes(data)))
    def recvfrom(self, n):
        data, remote = self.inq.pop(0)
        return data[:n], remote

fake_socket_mod = types.SimpleNamespace(socket=FakeSocket, AF_INET=2, SOCK_DGRAM=2,
                                        SOL_SOCKET=1, SO_REUSEADDR=2)
udp_link.socket = fake_socket_mod

class FakeThread:
    def __init__(self, target=None): self.alive = False; self.daemon = False
    def start(self): self.alive = True
    def join(self): self.alive = False
    def is_alive(self): return self.alive

clck_gen.threading = types.SimpleNamespace(Thread=FakeThread, Event=threading.Event)
ctrl_if.time = types.SimpleNamespace(sleep=lambda s: None)

class Draw:
    """deterministic stand-in for random.randint, shared with the Lean driver:
       k-th draw in [lo, hi] = lo + (seed + 7919*k) % (hi - lo + 1); empty range -> ValueError"""
    seed = 0
    k = 0
    @staticmethod
    def randint(lo, hi):
        if hi < lo:
            raise ValueError("empty range for randrange() (%d, %d, %d)" % (lo, hi + 1, hi + 1 - lo))
        v = lo + (Draw.seed + 7919 * Draw.k) % (hi - lo + 1)
        Draw.k += 1
        return v

fake_trx.random = types.SimpleNamespace(randint=Draw.randint)
fake_pm.randint = Draw.randint

class StaleCounter(logging.Handler):
    n = 0
    def emit(self, rec):
        try:
            if "Stale TRXD message" in rec.getMessage():
                StaleCounter.n += 1
        except Exception:
            pass

root = logging.getLogger()
root.handlers[:] = [StaleCounter()]
root.setLevel(logging.WARNING)

# ---------------------------------------------------------------- world
def build(extra):
    app = Application.__new__(Application)
    app.argv = types.SimpleNamespace(trx_bind_addr=BIND, bts_addr=ADDR["a"], bb_addr=ADDR["b"],
                                     bts_base_port=5700, bb_base_port=6700, sched_rr_prio=None)
    # mirrors Application.__init__ (fake_trx.py) without argv/signal/logging set-up
    app.trx_list = TRXList()
    app.clck_gen = CLCKGen([], sched_rr_prio=None)
    app.clck_gen.clck_handler = app.clck_handler
    app.fake_pm = FakePM(-120, -105, -75, -50)
    app.fake_pm.trx_list = app.trx_list
    app.append_trx(app.argv.bts_addr, app.argv.bts_base_port, name="BTS")
    app.append_trx(app.argv.bb_addr, app.argv.bb_base_port, name="MS", child_mgt=False)
    for (addr, port, idx) in extra:
        app.append_child_trx(ADDR[addr], port, name=None, child_idx=idx)
    app.burst_fwd = BurstForwarder(app.trx_list.trx_list)
    return app

def hexs(b):
    return b.hex() if len(b) else "-"

def drain():
    out = ["%d>%s:%d:%s" % (lp, ra.split(".")[-1], rp, hexs(d)) for (lp, ra, rp, d) in Net.log]
    Net.log.clear()
    return out

def obs(exc):
    o = drain()
    if StaleCounter.n:
        o.append("stale:%d" % StaleCounter.n)
        StaleCounter.n = 0
    if exc is not None:
        o.append("EXC:" + type(exc).__name__)
    return ",".join(o) if o else "."

def fmt_opt(v):
    return "N" if v is None else str(v)

def state(app):
    parts = []
    trxs = app.trx_list.trx_list
    for t in trxs:
        fh = "N" if t.fh is None else "%s/%s/%d" % (t.fh.hsn, t.fh.maio, len(t.fh.ma))
        q = "/".join(str(m.fn) for m in t._tx_queue) or "-"
        parts.append(" ".join([
            "R%d" % int(t.running), fmt_opt(t._rx_freq), fmt_opt(t._tx_freq), fh,
            "v%d" % t.data_if._hdr_ver, "m%d" % int(t.rf_muted), "ta%s" % t.ta,
            "p%s/%s" % (t.tx_power_base, t.tx_att_base),
            "toa%s/%s" % (t.toa256_base, t.toa256_rand_threshold),
            "rssi%s/%s/%d" % (t.rssi_base, t.rssi_rand_threshold, int(t.fake_rssi_enabled)),
            "ci%s/%s" % (t.ci_base, t.ci_rand_threshold),
            "drop%s/%s" % (t.burst_drop_amount, t.burst_drop_period),
            "dly%s" % t.ctrl_if.rsp_delay_ms, "q" + q]))
    links = []
    for l in app.clck_gen.clck_links:
        idx = [i for i, t in enumerate(trxs) if getattr(t, "clck_if", None) is l]
        links.append(str(idx[0]) if idx else "?")
    parts.append("clk%d %s src%s" % (int(app.clck_gen.running), "/".join(links) or "-",
                                     getattr(app.clck_gen, "clck_src", "N")))
    return " # ".join(parts)

def ports(app):
    out = []
    for t in app.trx_list.trx_list:
        c = t.ctrl_if; d = t.data_if
        k = getattr(t, "clck_if", None)
        out.append("%d>%d/%d>%d/%s" % (c.sock.bound[1], c.remote_port, d.sock.bound[1], d.remote_port,
                   "N" if k is None else "%d>%d" % (k.sock.bound[1], k.remote_port)))
    return ",".join(out)

def run_line(line):
    head, _, opstr = line.partition("|")
    tok = head.split()
    Draw.seed = int(tok[1]); Draw.k = 0
    Net.log.clear(); StaleCounter.n = 0
    extra = []
    if tok[2] != "-":
        for e in tok[2].split(","):
            addr, rest = e.split(":")
            port, idx = rest.split("/")
            extra.append((addr, int(port), int(idx)))
    try:
        app = build(extra)
    except Exception as e:
        return "cfgerr:" + type(e).__name__
    trxs = app.trx_list.trx_list
    res = []
    for op in opstr.split(";"):
        t = op.split()
        if not t:
            continue
        exc = None
        try:
            if t[0] == "C":
                trx = trxs[int(t[1])]
                data = bytes.fromhex(t[3]) if t[3] != "-" else b""
                trx.ctrl_if.sock.inq.append((data, (trx.remote_addr, int(t[2]))))
                trx.ctrl_if.handle_rx()
            elif t[0] == "D":
                trx = trxs[int(t[1])]
                data = bytes.fromhex(t[2]) if t[2] != "-" else b""
                trx.data_if.sock.inq.append((data, (trx.remote_addr, trx.data_if.remote_port)))
                trx.recv_data_msg()
            elif t[0] == "T":
                if app.clck_gen.running:
                    app.clck_gen.send_clck_ind()
            elif t[0] == "J":
                if app.clck_gen.running:
                    app.clck_gen.clck_src = int(t[1])
            else:
                res.append("bad-op")
                continue
        except Exception as e:
            exc = e
        res.append(obs(exc))
    return " ; ".join(res) + " | " + ports(app) + " | " + state(app)

def main():
    for line in sys.stdin:
        line = line.strip()
        if not line.startswith("world.run"):
            print("bad-op")
            continue
        try:
            print(run_line(line))
        except Exception as e:
            print("HARNESS-EXC %s %s" % (type(e).__name__, e))
        sys.stdout.flush()

if __name__ == "__main__":
    main()
