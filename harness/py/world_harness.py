# World harness: drives the REAL fake_trx objects (FakeTRX, BurstForwarder, TRXList,
# FakePM, CTRLInterfaceTRX, DATAInterface, CLCKGen) in-process, created and wired by the REAL
# Application.__init__ from a command line (-R/-r/-P/-p/--trx), with the environment replaced from outside:
#   * udp_link.socket  -> in-memory sockets (record every sendto, serve injected datagrams)
#   * clck_gen.threading -> the REAL CLCKGen._worker loop runs in its own OS thread, in lock step with the harness
#     (StepEvent/StepThread below): op `T` releases exactly one iteration of the loop; clck_gen.time -> constant clock
#   * fake_trx.random.randint / fake_pm.randint -> deterministic draw function shared with the model
#   * ctrl_if.time.sleep -> no-op
# Line protocol (one whole history per line, stateless):
#   world.run <seed> <extra-trx-list or -> | <op> ; <op> ; ...
#     extra trx:  a:5700/1,b:6700/0,...   (addr letter : base port / child index)
#     ops:  C <i> <srcport> <hex>   control datagram to transceiver i from 127.0.0.<x>:<srcport>
#           D <i> <hex>             data datagram to transceiver i
#           T                       one clock tick (only if the generator is running)
#           J <fn>                  clock jumps to frame fn (= idle ticks)
# Answer: cfgerr:<Exc>  or  per-op observations joined by " ; " then " | " and the final state.
from excname import exc_name
import os
import sys, types, logging

sys.path.insert(0, sys.argv[1])
sys.path.insert(0, __file__.rsplit("/", 1)[0])
sys.dont_write_bytecode = True

import udp_link, clck_gen, ctrl_if, fake_pm, fake_trx, threading
from fake_trx import Application, FakeTRX
from burst_fwd import BurstForwarder
from trx_list import TRXList
from clck_gen import CLCKGen
from fake_pm import FakePM

BIND = "0.0.0.0"
ADDR = {"a": "127.0.0.1", "b": "127.0.0.2", "c": "127.0.0.3"}

# ---------------------------------------------------------------- environment
class Net:
    log = []
    # peers that do not listen (the L1 side need not open its clock port): a datagram sent there is answered by ICMP
    # port-unreachable, which Linux reports - on a CONNECTED UDP socket only - as ConnectionRefusedError at the next
    # send()/recv(); an unconnected socket (sendto) never sees it.  Decided per history from its seed.
    unreachable = set()

class FakeSocket:
    def __init__(self, *a):
        self.bound = None
        self.inq = []
    def setsockopt(self, *a): pass
    def setblocking(self, *a): pass
    def bind(self, addr): self.bound = addr
    def close(self): pass
    def getsockname(self): return self.bound
    def sendto(self, data, remote):
        Net.log.append((self.bound[1], remote[0], remote[1], bytes(data)))
        if getattr(self, "peer", None) is not None and (remote[0], remote[1]) in Net.unreachable:
            self.icmp_error = True
    # a connected UDP socket: send() goes to the peer, and the kernel hands over only datagrams that come FROM the peer
    def connect(self, remote):
        self.peer = (remote[0], remote[1])
    def send(self, data):
        if getattr(self, "peer", None) is None:
            raise OSError(89, "Destination address required")
        if getattr(self, "icmp_error", False):
            self.icmp_error = False
            raise ConnectionRefusedError(111, "Connection refused")
        self.sendto(data, self.peer)
    def deliver(self, data, remote):
        """a datagram arrives from `remote`: queued (True) unless the socket is connected to somebody else"""
        peer = getattr(self, "peer", None)
        if peer is not None and (ADDR.get(peer[0], peer[0]), peer[1]) != (ADDR.get(remote[0], remote[0]), remote[1]):
            return False
        self.inq.append((data, remote))
        return True
    def recvfrom(self, n):
        data, remote = self.inq.pop(0)
        return data[:n], remote

fake_socket_mod = types.SimpleNamespace(socket=FakeSocket, AF_INET=2, SOCK_DGRAM=2,
                                        SOL_SOCKET=1, SO_REUSEADDR=2)
udp_link.socket = fake_socket_mod

class FakeThread:
    """inert thread (USE_WORKER = False): start()/stop() logic runs, no OS thread; ticks = direct send_clck_ind() calls"""
    def __init__(self, target=None): self.alive = False; self.daemon = False
    def start(self): self.alive = True
    def join(self): self.alive = False
    def is_alive(self): return self.alive

# USE_WORKER = True: the REAL CLCKGen._worker loop runs in an OS thread of its own, in lock step with the harness:
# the generator's breaker (threading.Event inside clck_gen) is replaced by StepEvent, whose wait() parks the worker
# until the harness releases exactly one iteration (op `T`) or stop() sets it.  Harness and worker never run at the
# same time, so a history is deterministic; what the worker caches across iterations is what the real thread caches.
USE_WORKER = True

class StepEvent:
    def __init__(self):
        self.flag = False
        self.go = threading.Semaphore(0)
        self.parked = threading.Semaphore(0)
    def wait(self, timeout=None):
        if timeout is not None and timeout > 0:
            VClock.now += int(round(timeout / 1e-9))       # the wait lasts exactly as long as asked
        self.parked.release()
        self.go.acquire()
        return self.flag
    def set(self):
        self.flag = True
        self.go.release()
    def clear(self): self.flag = False
    def is_set(self): return self.flag

def attr_of_type(obj, cls, prefer):
    """(name, value) of the attribute of `obj` holding an instance of `cls`: under the name the unchanged code uses, or under
    whatever name it has now (private names of the code under test are not part of what the harness relies on)"""
    v = getattr(obj, prefer, None)
    if isinstance(v, cls):
        return prefer, v
    for k, v in vars(obj).items():
        if isinstance(v, cls):
            return k, v
    return prefer, None

def gen_breaker(gen):
    return attr_of_type(gen, StepEvent, "_breaker")[1]

def gen_thread(gen):
    return attr_of_type(gen, (StepThread, FakeThread), "_thread")[1]

class StepThread:
    def __init__(self, target=None):
        self.daemon = False
        self.exc = None
        self.target = target
        self.owner = target.__self__
        self.t = threading.Thread(target=self._run, daemon=True)
    @property
    def breaker(self):
        return gen_breaker(self.owner)
    def _run(self):
        try:
            self.target()
        except BaseException as e:      # the clock thread dies: remembered, reported by the op that caused it
            self.exc = e
        finally:
            self.parked_or_dead()
    def parked_or_dead(self):
        self.breaker.parked.release()
    def start(self):
        self.t.start()
        self.breaker.parked.acquire()   # until the worker waits for its first tick (or is dead)
        if not self.t.is_alive() or self.exc is not None:
            self.t.join()
            self.reaped = True          # it died before its first wait: its last `parked` signal is the one just consumed
    def join(self):
        self.t.join()
        if not getattr(self, "reaped", False):
            # the dying worker released `parked` once more: consume it
            self.breaker.parked.acquire()
            self.reaped = True
    def is_alive(self): return self.t.is_alive()

def _mk_thread(group=None, target=None, name=None, args=(), kwargs=None, daemon=None):
    # the signature of threading.Thread: whatever form of the constructor call the code uses is accepted
    if args or kwargs:
        import functools
        target = functools.partial(target, *args, **(kwargs or {}))
        target.__self__ = target.func.__self__
    t = StepThread(target) if USE_WORKER else FakeThread(target)
    t.name = name
    if daemon is not None:
        t.daemon = daemon
    return t

def _mk_event():
    return StepEvent() if USE_WORKER else threading.Event()

class VClock:
    """virtual monotonic clock of the clock thread: a wait advances it by its timeout; now and then a tick's handler
    'takes' several frame periods (deterministically, from the history's seed), so that the overrun branch of the
    worker loop (deadline already passed -> resynchronise, zero-length wait) is executed too"""
    now = 0
    ticks = 0
    FRAME_NS = 4615000


def worker_tick(gen):
    """one iteration of the real _worker loop: wait() returns False, send_clck_ind(), next wait()"""
    tname, th = attr_of_type(gen, (StepThread, FakeThread), "_thread")
    br = gen_breaker(gen)
    VClock.ticks += 1
    if (Draw.seed + VClock.ticks) % 5 == 0:
        VClock.now += (2 + (Draw.seed + VClock.ticks) % 3) * VClock.FRAME_NS + 17
    br.go.release()
    br.parked.acquire()
    if th.exc is not None:
        # the clock thread died in this tick (what threading's excepthook would print): report it and go on with a
        # fresh worker on the same counter, as the direct-call harness did (clck_src is not incremented by a failed tick)
        exc, th.exc = th.exc, None
        th.t.join()
        th.reaped = True
        nt = StepThread(th.target)
        setattr(gen, tname, nt)
        nt.start()
        raise exc

clck_gen.threading = types.SimpleNamespace(Thread=_mk_thread, Event=_mk_event)
clck_gen.time = types.SimpleNamespace(monotonic_ns=lambda: VClock.now)


def _sched_setscheduler(pid, policy, param):
    """stands in for os.sched_setscheduler inside clck_gen: what an unprivileged Linux process gets - EINVAL for a priority
    outside 1..99, EPERM otherwise"""
    import errno
    if not 1 <= int(param) <= 99:
        raise OSError(errno.EINVAL, "Invalid argument")
    raise PermissionError(errno.EPERM, "Operation not permitted")


clck_gen.os = types.SimpleNamespace(sched_param=lambda prio: prio, SCHED_RR=2, sched_setscheduler=_sched_setscheduler)
ctrl_if.time = types.SimpleNamespace(sleep=lambda s: None)

class Draw:
    """deterministic stand-in for random.randint, shared with the Lean driver:
       k-th draw in [lo, hi] = lo + (seed + 7919*k) % (hi - lo + 1); empty range -> ValueError"""
    seed = 0
    k = 0
    @staticmethod
    def randint(lo, hi):
        if hi < lo:
            raise ValueError("empty range for randrange() (%d, %d, %d)" % (lo, hi + 1, hi + 1 - lo))
        v = lo + (Draw.seed + 7919 * Draw.k) % (hi - lo + 1)
        Draw.k += 1
        return v

def install_draws():
    """the scripted random source in EVERY module of the toolkit that draws random numbers (wherever the classes live in
    this tree): a module attribute `random` that is the stdlib module, and names bound to its functions by
    `from random import randint`"""
    import random as _random
    tk = os.path.realpath(sys.argv[1]) + os.sep
    scripted = types.SimpleNamespace(randint=Draw.randint)
    for name, mod in list(sys.modules.items()):
        f = getattr(mod, "__file__", None)
        if not f or not os.path.realpath(f).startswith(tk):
            continue
        if getattr(mod, "random", None) is _random:
            mod.random = scripted
        if getattr(mod, "randint", None) is _random.randint:
            mod.randint = Draw.randint

install_draws()

class StaleCounter(logging.Handler):
    """counts the reports of stale bursts.  The report is recognised by what it is about, not by its exact wording or level:
    a log record emitted by Transceiver.clck_tick, or any record whose text speaks of a 'stale' message."""
    n = 0
    def emit(self, rec):
        try:
            if rec.funcName == "clck_tick" and rec.module == "transceiver":
                if rec.levelno >= logging.INFO or "stale" in rec.getMessage().lower():
                    StaleCounter.n += 1
            elif rec.levelno >= logging.INFO and "stale" in rec.getMessage().lower():
                StaleCounter.n += 1
        except Exception:
            pass

root = logging.getLogger()
root.handlers[:] = [StaleCounter()]
root.setLevel(logging.INFO)     # DEBUG would make every log.debug() of the toolkit build a record

# optional trace of routing decisions (oracle mode only; never compared with the model):
# every FakeTRX.handle_data_msg(self, src_trx, src_msg, msg) call is recorded as call:<dst>:<src>:<fn>
import os
TRACE = os.environ.get("WORLD_TRACE") == "1"
CALLS = []
CUR_APP = [None]
if TRACE:
    _orig_hdm = FakeTRX.handle_data_msg
    def _traced_hdm(self, src_trx, src_msg, msg):
        l = CUR_APP[0].trx_list.trx_list
        CALLS.append("call:%d:%d:%d" % (l.index(self), l.index(src_trx), src_msg.fn))
        return _orig_hdm(self, src_trx, src_msg, msg)
    FakeTRX.handle_data_msg = _traced_hdm
    # every attempt to send a TRX->L1 message: send:<dst>:<fn>:<rssi>:<toa256>:<nope>
    import data_if as _data_if
    _orig_send = _data_if.DATAInterface.send_msg
    def _traced_send(self, msg, legacy=False):
        l = CUR_APP[0].trx_list.trx_list
        k = [i for i, t in enumerate(l) if t.data_if is self]
        CALLS.append("send:%d:%s:%s:%s:%d" % (k[0] if k else -1, msg.fn, getattr(msg, "rssi", None),
                     getattr(msg, "toa256", None), int(bool(getattr(msg, "nope_ind", False)))))
        return _orig_send(self, msg, legacy)
    _data_if.DATAInterface.send_msg = _traced_send

# ---------------------------------------------------------------- world
def build(extra):
    """the REAL Application.__init__ (fake_trx.py) builds the world from a command line: argument parsing with all its
    defaults, the shared clock generator, FakePM, BTS and MS, the --trx definitions, the burst forwarder.  Environment
    replaced: signal handlers, the copyright banner and the logging set-up."""
    argv = ["fake_trx.py", "-b", BIND, "-R", ADDR["a"], "-r", ADDR["b"], "-P", "5700", "-p", "6700"]
    # in every second history the MS-side L1 has no clock listener (CLCK is optional for the L1: trxcon does not open it)
    Net.unreachable = {(ADDR["b"], 6800)} if Draw.seed % 2 == 1 else set()
    for (addr, port, idx) in extra:
        argv += ["--trx", "%s:%d/%d" % (ADDR[addr], port, idx)]
    # the rarely used real-time option of the clock thread (an option the model does not know: it must make no difference)
    if Draw.seed % 6 == 0:
        argv += ["-s", str([1, 98, 99, 50][(Draw.seed // 6) % 4])]
    old = sys.argv
    sys.argv = argv
    try:
        try:
            app = Application()
        except SystemExit as e:
            raise RuntimeError("fake_trx refused its command line (exit %s)" % e.code)
    finally:
        sys.argv = old
    return app

fake_trx.signal = types.SimpleNamespace(signal=lambda *a: None, SIGINT=2)
Application.app_print_copyright = lambda self, *a, **k: None
Application.app_init_logging = lambda self, *a, **k: None

def hexs(b):
    return b.hex() if len(b) else "-"

def drain():
    out = ["%d>%s:%d:%s" % (lp, ra.split(".")[-1], rp, hexs(d)) for (lp, ra, rp, d) in Net.log]
    Net.log.clear()
    return out

def obs(exc):
    o = drain()
    if CALLS:
        o += CALLS
        CALLS.clear()
    if StaleCounter.n:
        o.append("stale:%d" % StaleCounter.n)
        StaleCounter.n = 0
    if exc is not None:
        o.append("EXC:" + exc_name(exc))
    return ",".join(o) if o else "."

def fmt_opt(v):
    return "N" if v is None else str(v)

def deep_attr(obj, prefer, part, default=None):
    """like named_attr, but also looks one level down into helper objects the transceiver owns (a group of attributes moved
    into a small object of its own)"""
    v = named_attr(obj, prefer, part, default=KeyError)
    if v is not KeyError:
        return v
    for k, h in vars(obj).items():
        if k in SKIP_ATTRS or not hasattr(h, "__dict__") or type(h).__module__ in ("builtins", "threading", "_thread", "socket", "logging", "random"):
            continue
        cands = [a for a in vars(h) if part == a.strip("_") or part in a]
        exact = [a for a in cands if a.strip("_") == part]
        pick = exact or cands
        if len(pick) == 1:
            return getattr(h, pick[0])
    return default


def hopping_of(t):
    """the transceiver's hopping parameters object (or None), wherever it is kept"""
    if hasattr(t, "fh"):
        return t.fh
    for k, h in vars(t).items():
        if k in ("data_if", "ctrl_if", "clck_if", "clck_gen", "child_trx_list", "trx_list", "burst_fwd", "pwr_meas", "app"):
            continue
        if type(h).__name__ == "HoppingParams":
            return h
        if hasattr(h, "__dict__") and type(h).__module__ not in ("builtins", "threading", "_thread", "socket", "logging", "random"):
            for a, v in vars(h).items():
                if a.strip("_") == "fh" or type(v).__name__ == "HoppingParams":
                    return v
    return None


def named_attr(obj, prefer, part, default=None):
    """the attribute `prefer` of the unchanged code, or - private names are not part of what the harness relies on - the one
    attribute whose name contains `part`"""
    if hasattr(obj, prefer):
        return getattr(obj, prefer)
    cands = [k for k in vars(obj) if part in k and "lock" not in k]
    return getattr(obj, cands[0]) if len(cands) == 1 else default

SKIP_ATTRS = ("data_if", "ctrl_if", "clck_if", "clck_gen", "child_trx_list", "trx_list", "fh", "burst_fwd", "pwr_meas", "app")

def reachable(t, want, depth_max=4):
    """objects satisfying `want` that are reachable from the transceiver through its own attributes, containers and helper
    objects (not through its interfaces, clock, children): [(owner, key, object)]"""
    seen, out = set(), []
    def walk(owner, key, x, depth):
        if id(x) in seen or depth > depth_max:
            return
        seen.add(id(x))
        if want(x):
            out.append((owner, key, x))
            return
        if isinstance(x, dict):
            for k, v in list(x.items()):
                walk(x, k, v, depth + 1)
        elif isinstance(x, (list, tuple, set, frozenset)) or type(x).__name__ == "deque":
            for i, v in enumerate(list(x)):
                walk(x, i, v, depth + 1)
        elif hasattr(x, "__dict__") and type(x).__module__ not in ("builtins", "threading", "_thread", "socket", "logging", "random"):
            for k, v in list(vars(x).items()):
                if k not in SKIP_ATTRS:
                    walk(x, k, v, depth + 1)
    for k, v in list(vars(t).items()):
        if k not in SKIP_ATTRS:
            walk(t, k, v, 1)
    return out

def is_msg(x):
    return type(x).__name__ in ("TxMsg", "RxMsg") or (hasattr(x, "fn") and hasattr(x, "tn") and hasattr(x, "burst"))

def queue_fns(t):
    """frame numbers of the messages the transceiver holds, whatever container / helper object / attribute name holds them
    (list, deque, dict fn -> messages, a queue class of its own, ...), as a sorted multiset: the order of arrival between
    different frames is internal (all bursts of one tick have one fn)"""
    fns = []
    for _, _, m in reachable(t, is_msg):
        fn = getattr(m, "fn", None)
        fns.append(fn if isinstance(fn, int) else -1)
    return "/".join("N" if f < 0 else str(f) for f in sorted(fns)) or "-"

def grp(prefix, f):
    """one group of the state dump; `prefix?` when this tree keeps the values somewhere else (the group is then not observed
    here: lib/worldcheck.py masks it on the model's side too, the behaviour it drives is still compared)"""
    try:
        return prefix + f()
    except AttributeError:
        return prefix + "?"

def state(app):
    parts = []
    trxs = app.trx_list.trx_list
    for t in trxs:
        hp = hopping_of(t)
        fh = "N" if hp is None else "%s/%s/%d" % (hp.hsn, hp.maio, len(hp.ma))
        q = queue_fns(t)
        parts.append(" ".join([
            "R%d" % int(t.running), fmt_opt(deep_attr(t, "_rx_freq", "rx_freq")), fmt_opt(deep_attr(t, "_tx_freq", "tx_freq")), fh,
            "v%d" % named_attr(t.data_if, "_hdr_ver", "hdr_ver"),
            grp("m", lambda: "%d" % int(t.rf_muted)), grp("ta", lambda: "%s" % t.ta),
            grp("p", lambda: "%s/%s" % (t.tx_power_base, t.tx_att_base)),
            grp("toa", lambda: "%s/%s" % (t.toa256_base, t.toa256_rand_threshold)),
            grp("rssi", lambda: "%s/%s/%d" % (t.rssi_base, t.rssi_rand_threshold, int(t.fake_rssi_enabled))),
            grp("ci", lambda: "%s/%s" % (t.ci_base, t.ci_rand_threshold)),
            grp("drop", lambda: "%s/%s" % (t.burst_drop_amount, t.burst_drop_period)),
            grp("dly", lambda: "%s" % t.ctrl_if.rsp_delay_ms), "q" + q]))
    links = []
    for l in app.clck_gen.clck_links:
        idx = [i for i, t in enumerate(trxs) if getattr(t, "clck_if", None) is l]
        links.append(str(idx[0]) if idx else "?")
    parts.append("clk%d %s src%s" % (int(app.clck_gen.running), "/".join(links) or "-",
                                     getattr(app.clck_gen, "clck_src", "N")))
    return " # ".join(parts)

def ports(app):
    out = []
    for t in app.trx_list.trx_list:
        c = t.ctrl_if; d = t.data_if
        k = getattr(t, "clck_if", None)
        out.append("%d>%d/%d>%d/%s" % (c.sock.bound[1], c.remote_port, d.sock.bound[1], d.remote_port,
                   "N" if k is None else "%d>%d" % (k.sock.bound[1], k.remote_port)))
    return ",".join(out)

def run_line(line):
    head, _, opstr = line.partition("|")
    tok = head.split()
    Draw.seed = int(tok[1]); Draw.k = 0
    VClock.now = 0; VClock.ticks = 0
    Net.log.clear(); StaleCounter.n = 0
    extra = []
    if tok[2] != "-":
        for e in tok[2].split(","):
            addr, rest = e.split(":")
            port, idx = rest.split("/")
            extra.append((addr, int(port), int(idx)))
    try:
        app = build(extra)
    except Exception as e:
        return "cfgerr:" + exc_name(e)
    trxs = app.trx_list.trx_list
    CUR_APP[0] = app
    CALLS.clear()
    res = []
    for op in opstr.split(";"):
        t = op.split()
        if not t:
            continue
        exc = None
        try:
            if t[0] == "C":
                trx = trxs[int(t[1])]
                data = bytes.fromhex(t[3]) if t[3] != "-" else b""
                if trx.ctrl_if.sock.deliver(data, (trx.remote_addr, int(t[2]))):
                    trx.ctrl_if.handle_rx()          # the main loop calls it when select() reports the socket readable
            elif t[0] == "D":
                trx = trxs[int(t[1])]
                data = bytes.fromhex(t[2]) if t[2] != "-" else b""
                if trx.data_if.sock.deliver(data, (trx.remote_addr, trx.data_if.remote_port)):
                    trx.recv_data_msg()
            elif t[0] == "T":
                if app.clck_gen.running:
                    if USE_WORKER:
                        worker_tick(app.clck_gen)
                    else:
                        app.clck_gen.send_clck_ind()
            elif t[0] == "J":
                if app.clck_gen.running:
                    app.clck_gen.clck_src = int(t[1])
            else:
                res.append("bad-op")
                continue
        except Exception as e:
            exc = e
        res.append(obs(exc))
    out = " ; ".join(res) + " | " + ports(app) + " | " + state(app)
    if USE_WORKER and gen_thread(app.clck_gen) is not None:
        app.clck_gen.stop()           # do not leave a parked OS thread behind
    return out

def main():
    for line in sys.stdin:
        line = line.strip()
        if not line.startswith("world.run"):
            print("bad-op")
            continue
        try:
            print(run_line(line))
        except Exception as e:
            print("HARNESS-EXC %s %s" % (exc_name(e), e))
        sys.stdout.flush()

if __name__ == "__main__":
    main()
