# drives the REAL codec.py / trxd_proto.py with the line protocol of lean/OsmoVerif/Driver/Codec.lean
#   codec.dec ENV hex | codec.enc ENV VALUE | codec.fdec FIELD VALUE hex | codec.fenc FIELD VALUE
#   codec.pdu.dec NAME hex | codec.pdu.enc NAME VALUE      (ONE object per PDU class lives through the whole stream)
#   codec.pdu.fresh.dec / codec.pdu.fresh.enc              (the same on a newly created object)
# answers: ok VALUE consumed | ok hex | err <exception class> | err HANG (no answer within the CPU-time limit)
# argv: <toolkit dir>
from excname import exc_name
import os, signal, sys
sys.path.insert(0, sys.argv[1])
sys.path.insert(0, os.path.dirname(os.path.dirname(os.path.dirname(os.path.abspath(__file__)))))
import codec
from lib import codecdef as cd

try:
    import resource
    resource.setrlimit(resource.RLIMIT_AS, (3 << 30, 3 << 30))
except Exception:
    pass


class Hang(BaseException):
    pass


def _alarm(sig, frm):
    raise Hang()


# the limit is on the CPU time of this process (ITIMER_VIRTUAL), so machine load cannot turn a
# terminating call into a reported hang; every terminating request needs microseconds
signal.signal(signal.SIGVTALRM, _alarm)
LIMIT = float(os.environ.get("CODEC_HARNESS_LIMIT", "1.0"))


def guarded(fn):
    signal.setitimer(signal.ITIMER_VIRTUAL, LIMIT)
    try:
        return fn()
    finally:
        signal.setitimer(signal.ITIMER_VIRTUAL, 0)


def out_dec(vals, n):
    return "ok %s %d" % (cd.val_to_line(vals), n)


_PDU = {}


def pdu(name):
    if name not in _PDU:
        import trxd_proto
        _PDU[name] = getattr(trxd_proto, name)()
    return _PDU[name]


def handle(tok):
    verb = tok[0]
    if verb == "codec.dec":
        e, i = cd.parse_env(tok, 1)
        data = cd.unhx(tok[i])
        obj = build(lambda: cd.build_env(codec, e))
        n = guarded(lambda: obj.from_bytes(data))
        return out_dec(obj.c, n)
    if verb == "codec.enc":
        e, i = cd.parse_env(tok, 1)
        v, i = cd.parse_val(tok, i)
        obj = build(lambda: cd.build_env(codec, e))
        obj.c = v
        return "ok " + cd.hx(guarded(obj.to_bytes))
    if verb == "codec.fdec":
        f, i = cd.parse_field(tok, 1)
        v, i = cd.parse_val(tok, i)
        data = cd.unhx(tok[i])
        obj = build(lambda: cd.build_field(codec, f))
        n = guarded(lambda: obj.from_bytes(v, data))
        return out_dec(v, n)
    if verb == "codec.fenc":
        f, i = cd.parse_field(tok, 1)
        v, i = cd.parse_val(tok, i)
        obj = build(lambda: cd.build_field(codec, f))
        return "ok " + cd.hx(guarded(lambda: obj.to_bytes(v)))
    if verb.startswith("codec.pdu.fresh."):
        # the same request on a newly created object of a newly loaded definition module (the field objects of a
        # STRUCT are class attributes shared by all objects of the class): reference for history independence
        import importlib, trxd_proto
        importlib.reload(trxd_proto)
        _PDU.pop(tok[1], None)
        try:
            return handle(["codec.pdu." + verb[len("codec.pdu.fresh."):]] + tok[1:])
        finally:
            _PDU.pop(tok[1], None)
    if verb == "codec.pdu.dec":
        obj = pdu(tok[1])
        n = guarded(lambda: obj.from_bytes(cd.unhx(tok[2])))
        return out_dec(obj.c, n)
    if verb == "codec.pdu.enc":
        obj = pdu(tok[1])
        v, i = cd.parse_val(tok, 2)
        obj.c = v
        return "ok " + cd.hx(guarded(obj.to_bytes))
    if verb == "msg.tx":
        # msg.tx ver tn fn pwr legacy bursthex -> TxMsg.gen_msg(legacy)
        import data_msg
        m = data_msg.TxMsg(fn=int(tok[3]), tn=int(tok[2]), ver=int(tok[1]))
        m.pwr = int(tok[4])
        m.burst = bytearray(cd.unhx(tok[6]))
        return "ok " + cd.hx(bytes(m.gen_msg(tok[5] == "1")))
    if verb == "msg.rx":
        # msg.rx ver tn fn rssi toa256 legacy nope modname tsc_set tsc ci bursthex(two's complement soft-bits)
        import data_msg
        from array import array
        m = data_msg.RxMsg(fn=int(tok[3]), tn=int(tok[2]), ver=int(tok[1]))
        m.rssi, m.toa256 = int(tok[4]), int(tok[5])
        m.nope_ind = tok[7] == "1"
        m.mod_type = getattr(data_msg.Modulation, tok[8])
        m.tsc_set, m.tsc, m.ci = int(tok[9]), int(tok[10]), int(tok[11])
        raw = cd.unhx(tok[12])
        m.burst = None if tok[12] == "none" else array('b', [x - 256 if x > 127 else x for x in raw])
        return "ok " + cd.hx(bytes(m.gen_msg(tok[6] == "1")))
    return "bad-op"


def build(fn):
    return fn()


for line in sys.stdin:
    tok = line.split()
    try:
        print(handle(tok))
    except Hang:
        print("err HANG")
    except MemoryError:
        print("err HANG")
    except Exception as e:
        print("err %s" % exc_name(e, ("DecodeError", "EncodeError", "ProtocolError")))
    sys.stdout.flush()
