# Drives the REAL rand_burst_gen.RandBurstGen (argv[1] = toolkit directory) with the line protocol of
# lean/OsmoVerif/Driver/RandBurst.lean.  The module's random source (`rand_burst_gen.random`) is replaced from outside by a
# scripted one (ONE RandBurstGen object serves all requests) that hands out the draws of the request in call order: randint(a, b) pops a value (returned as it is),
# choice(seq) pops an index k and returns seq[k % len(seq)].  A request whose draws run dry answers `dry`.
#   rb.nb|rb.sb|rb.ab TSC DRAWS -> ok BITS REST     rb.fb | rb.db -> ok BITS 0
from excname import exc_name
import sys, types
sys.dont_write_bytecode = True
sys.path.insert(0, sys.argv[1])
import logging
logging.disable(logging.CRITICAL)
import rand_burst_gen
import gsm_shared


class Dry(Exception):
    pass


class Script:
    def __init__(self, draws):
        self.d = list(draws)

    def _pop(self):
        if not self.d:
            raise Dry()
        return self.d.pop(0)

    def randint(self, a, b):
        return self._pop()

    def choice(self, seq):
        seq = list(seq)
        k = self._pop()
        return seq[k % len(seq)]


def bits(b):
    return "".join(str(x) if 0 <= x <= 9 else "x" for x in b)


# ONE generator object lives through the whole request stream (as in the tools that use it): whatever it remembers from
# earlier bursts must not influence later ones
# The scripted random source is installed BEFORE the generator object is created (an object that remembers its random
# source at construction time gets the scripted one) and stays the same object; each request only refills its draws.
SCRIPT = Script([])
rand_burst_gen.random = SCRIPT
G = rand_burst_gen.RandBurstGen()


def handle(tok):
    g = G
    if tok[0] in ("rb.nb", "rb.sb", "rb.ab"):
        tsc = None if tok[1] == "-" else gsm_shared.TrainingSeqGMSK[tok[1]]
        sc = SCRIPT
        sc.d = [] if tok[2] == "-" else [int(x) for x in tok[2].split(",")]
        rand_burst_gen.random = sc
        try:
            b = {"rb.nb": g.gen_nb, "rb.sb": g.gen_sb, "rb.ab": g.gen_ab}[tok[0]](tsc)
        except Dry:
            return "dry"
        return "ok %s %d" % (bits(b), len(sc.d))
    if tok[0] == "rb.fb":
        return "ok %s 0" % bits(g.gen_fb())
    if tok[0] == "rb.db":
        return "ok %s 0" % bits(g.gen_db())
    return "bad-op"


for line in sys.stdin:
    tok = line.split()
    try:
        print(handle(tok))
    except Exception as e:
        print("EXC %s" % exc_name(e))
    sys.stdout.flush()
