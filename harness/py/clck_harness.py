# Drives the REAL CLCKGen (clck_gen.py of the tree given as argv[1]) under a virtual clock.
#
# Nothing sleeps and no OS thread is created: the module attributes `clck_gen.time` and
# `clck_gen.threading` are replaced from outside by
#   * a clock object whose monotonic_ns() returns the virtual time (integer ns),
#   * Event  -> a scripted breaker: wait(timeout_s) advances the virtual clock by exactly the
#               requested time (converted back to integer ns: round(timeout_s / 1e-9), the
#               inverse of the code's `dt * 1e-9`) and returns True at the (n+1)-th call of a
#               session that is scripted to run n ticks (as if stop() happened during that wait),
#   * Thread -> an object whose start() runs the target (the bound `_worker`) synchronously in
#               the harness thread and records an exception that ends it.
# The handler advances the virtual clock by the scripted duration of its tick; links are
# recorders.  Observables = the event log in order:
#   W<dt>:<t>        wait(dt) returned False at virtual time t           (a tick begins)
#   S<link>:<t>:<hex> link.send(payload) at t
#   H<fn>:<t>        clck_handler(fn) called at t
#   X<dt>:<t>        wait(dt) returned True at t                          (worker exits)
#   E<Type>:<t>      the worker died with an exception of class Type
#
# Line protocol (same as lean/OsmoVerif/Driver/Clck.lean):
#   clck.run  T0 START PERIOD HANDLER LINKS DURS
#       -> events of start() [worker runs len(DURS) ticks] followed by `T<0|1> C<clck_src|->`
#   clck.hist T0 START PERIOD HANDLER LINKS OP;OP;...
#       OP = start:DURS | stop | idle:NS | setstart:FN ; answer = per-op result joined by " | "
#   clck.links T0 START PERIOD HANDLER LINKS DURS CHANGES
#       like clck.run, with clck_links modified in place while the worker sleeps: CHANGES = `-` or k+ID,k-ID,...
#       = append / remove (if attached) link ID during the wait that precedes tick k (0-based)
#   LINKS, DURS = comma separated naturals or `-` for none; HANDLER = 0|1
#   --dump : JSON with the constants gen/clck.py writes to Gen/Clck.lean
from excname import exc_name
import json
import logging
import sys
import types

sys.dont_write_bytecode = True
sys.path.insert(0, sys.argv[1])
logging.disable(logging.CRITICAL)

import clck_gen  # noqa: E402

NS = 1e-9


class World:
    def __init__(self, t0):
        self.now = t0
        self.events = []
        self.durs = []        # handler durations of the current session
        self.hcalls = 0       # handler calls in the current session
        self.nticks = 0       # waits that return False in the current session
        self.waits = 0
        self.changes = {}     # tick index -> [(+1 | -1, link id)]: applied to gen.clck_links IN PLACE during the wait before that tick
        self.gen = None
        self.links = {}


class VClock:
    """stands in for the `time` module inside clck_gen"""

    def __init__(self, w):
        self.w = w

    def monotonic_ns(self):
        return self.w.now


class Breaker:
    """stands in for threading.Event"""

    def __init__(self, w):
        self.w = w
        self.flag = False

    def wait(self, timeout=None):
        w = self.w
        if timeout is None:
            raise RuntimeError("harness: wait() without timeout would block forever")
        dt = round(timeout / NS)
        if dt > 0:
            w.now += dt          # a negative timeout returns immediately, like Event.wait
        # what the socket thread does while the worker sleeps (Transceiver.power_event_handler):
        # clck_links.append(link) / clck_links.remove(link) on the list object of the generator
        for sign, ident in w.changes.get(w.waits, ()):
            ll = w.gen.clck_links
            if ident not in w.links:
                w.links[ident] = Link(w, ident)
            if sign > 0:
                ll.append(w.links[ident])
            elif w.links[ident] in ll:
                ll.remove(w.links[ident])
        w.waits += 1
        if self.flag or w.waits > w.nticks:
            w.events.append("X%d:%d" % (dt, w.now))
            return True
        w.events.append("W%d:%d" % (dt, w.now))
        return False

    def set(self):
        self.flag = True

    def clear(self):
        self.flag = False

    def is_set(self):
        return self.flag


class FakeThread:
    """stands in for threading.Thread: start() runs the target to completion right here"""

    def __init__(self, w, group=None, target=None, name=None, args=(), kwargs=None, daemon=None):
        self.w = w
        self.target = target
        self.args = args
        self.kwargs = kwargs or {}
        self.daemon = daemon
        self.alive = False

    def start(self):
        self.alive = True
        try:
            self.target(*self.args, **self.kwargs)
        except Exception as e:  # what threading's excepthook would swallow
            self.w.events.append("E%s:%d" % (exc_name(e), self.w.now))
        self.alive = False

    def join(self, timeout=None):
        pass

    def is_alive(self):
        return self.alive


class Link:
    def __init__(self, w, ident):
        self.w = w
        self.ident = ident

    def send(self, data):
        if isinstance(data, str):
            data = data.encode()
        self.w.events.append("S%d:%d:%s" % (self.ident, self.w.now, bytes(data).hex() or "-"))


def csv(s):
    return [] if s == "-" else [int(x) for x in s.split(",")]


def make(w, start, period, handler, links):
    clck_gen.time = VClock(w)
    clck_gen.threading = types.SimpleNamespace(
        Event=lambda: Breaker(w),
        Thread=lambda *a, **k: FakeThread(w, *a, **k))
    objs = w.links
    ll = []
    for i in links:
        if i not in objs:
            objs[i] = Link(w, i)
        ll.append(objs[i])       # the same id twice = the same link object attached twice
    gen = clck_gen.CLCKGen(ll, clck_start=start, ind_period=period)
    w.gen = gen

    def on_tick(fn):
        w.events.append("H%d:%d" % (fn, w.now))
        d = w.durs[w.hcalls] if w.hcalls < len(w.durs) else 0
        w.hcalls += 1
        w.now += d
    if handler:
        gen.clck_handler = on_tick
    return gen


def state(gen):
    src = getattr(gen, "clck_src", None)
    th = getattr(gen, "_thread", None)
    if not isinstance(th, FakeThread):
        # the attribute under whatever (private) name the code uses now
        th = next((v for v in vars(gen).values() if isinstance(v, FakeThread)), None)
    return "T%d C%s" % (0 if th is None else 1, "-" if src is None else str(src))


def session(w, gen, durs):
    w.events = []
    w.durs = durs
    w.hcalls = 0
    w.nticks = len(durs)
    w.waits = 0
    try:
        gen.start()
    except Exception as e:
        return "EXC %s" % exc_name(e)
    return " ".join(w.events)


def do_run(tok):
    t0, start, period, handler = int(tok[1]), int(tok[2]), int(tok[3]), int(tok[4])
    w = World(t0)
    gen = make(w, start, period, handler, csv(tok[5]))
    out = session(w, gen, csv(tok[6]))
    return out + " " + state(gen)


def do_links(tok):
    """clck.links T0 START PERIOD HANDLER LINKS DURS CHANGES ; CHANGES = `-` or k+id,k-id,... (in the wait before tick k)"""
    t0, start, period, handler = int(tok[1]), int(tok[2]), int(tok[3]), int(tok[4])
    w = World(t0)
    gen = make(w, start, period, handler, csv(tok[5]))
    if tok[7] != "-":
        for ch in tok[7].split(","):
            sign = +1 if "+" in ch else -1
            k, ident = ch.split("+" if sign > 0 else "-")
            w.changes.setdefault(int(k), []).append((sign, int(ident)))
    out = session(w, gen, csv(tok[6]))
    return out + " " + state(gen)


def do_hist(tok):
    t0, start, period, handler = int(tok[1]), int(tok[2]), int(tok[3]), int(tok[4])
    w = World(t0)
    gen = make(w, start, period, handler, csv(tok[5]))
    res = []
    for op in tok[6].split(";"):
        if op.startswith("start:"):
            out = session(w, gen, csv(op[6:]))
        elif op == "stop":
            try:
                gen.stop()
                out = "ok"
            except Exception as e:
                out = "EXC %s" % exc_name(e)
        elif op.startswith("idle:"):
            w.now += int(op[5:])
            out = "ok"
        elif op.startswith("setstart:"):
            gen.clck_start = int(op[9:])
            out = "ok"
        else:
            return "bad-op"
        res.append(out + " " + state(gen))
    return " | ".join(res)


def dump():
    """constants of the current tree, measured on the running code where possible"""
    # 1. tick period the worker really uses: spacing of zero-cost ticks of a default CLCKGen([])
    w = World(1000)
    clck_gen.time = VClock(w)
    clck_gen.threading = types.SimpleNamespace(Event=lambda: Breaker(w), Thread=lambda *a, **k: FakeThread(w, *a, **k))
    gen = clck_gen.CLCKGen([])
    times = []
    gen.clck_handler = lambda fn: times.append(w.now)
    w.nticks = 8
    gen.start()
    gen.stop()
    sp = sorted({b - a for a, b in zip(times, times[1:])})
    if len(times) != 8 or len(sp) != 1:
        raise RuntimeError("zero-cost ticks are not equally spaced: %r (events %r)" % (times, w.events[:20]))
    d = {"tTickNs": sp[0], "firstOffsetNs": times[0] - 1000,
         "ctr_interval": repr(gen.ctr_interval),
         "defaultIndPeriod": gen.ind_period, "defaultStart": gen.clck_start,
         "gsmHyperframe": clck_gen.GSM_HYPERFRAME}
    # 2. modulus of the counter increment, measured: smallest x with send_clck_ind: x -> not x+1
    gen = clck_gen.CLCKGen([], ind_period=1)

    def nxt(x):
        gen.clck_src = x
        gen.send_clck_ind()
        return gen.clck_src
    lo, hi = 0, 1 << 40          # invariant: nxt(lo) == lo+1 (checked), nxt(hi) != hi+1
    if nxt(lo) != 1 or nxt(hi) == hi + 1:
        raise RuntimeError("counter increment is not modular in the probed range")
    while hi - lo > 1:
        mid = (lo + hi) // 2
        if nxt(mid) == mid + 1:
            lo = mid
        else:
            hi = mid
    if nxt(hi) != 0:
        raise RuntimeError("counter does not wrap to 0 (x=%d -> %d)" % (hi, nxt(hi)))
    d["clckWrap"] = hi + 1
    # 3. payload format: text around the decimal frame number
    w2 = World(0)
    gen = clck_gen.CLCKGen([Link(w2, 0)], ind_period=1)
    gen.clck_src = 1234567
    gen.send_clck_ind()
    pl = bytes.fromhex(w2.events[0].split(":")[2])
    pre, sep, suf = pl.partition(b"1234567")
    if not sep:
        raise RuntimeError("payload %r does not contain the decimal frame number" % pl)
    d["indPrefix"] = list(pre)
    d["indSuffix"] = list(suf)
    return d


def main():
    if len(sys.argv) > 2 and sys.argv[2] == "--dump":
        print(json.dumps(dump()))
        return
    for line in sys.stdin:
        tok = line.split()
        try:
            if tok and tok[0] == "clck.run" and len(tok) == 7:
                print(do_run(tok))
            elif tok and tok[0] == "clck.hist" and len(tok) == 7:
                print(do_hist(tok))
            elif tok and tok[0] == "clck.links" and len(tok) == 8:
                print(do_links(tok))
            else:
                print("bad-op")
        except Exception as e:
            print("EXC %s" % exc_name(e))


main()
