# Schedule harness (C03): one socket-thread operation racing one clock tick on the REAL objects.
# The clock tick (real CLCKGen.send_clck_ind -> Application.clck_handler -> Transceiver.clck_tick ->
# BurstForwarder.forward_msg -> FakeTRX.handle_data_msg) runs in a real second thread; a gate stops it at
# the k-th of its "atomic action boundaries"
#     pre-tick(j)      before Transceiver.clck_tick of transceiver j (before `running` is read)
#     pre-lock(j)      before the queue lock is taken            post-lock(j)  right after it is released
#     pre-forward(j)   before each BurstForwarder.forward_msg    pre-handle(k) before each FakeTRX.handle_data_msg
# then the socket-thread operation is executed to completion in the main thread (real handle_rx /
# recv_data_msg), then the tick is allowed to finish.  Only the schedule is forced; no code is changed.
# Line protocol:  sched.run <seed> <extra|-> | <setup ops> ; R <k> <op...>
#   setup ops as in world_harness (C / D / T / J);  R k C i port hex  |  R k D i hex
# Answer: observations per op (the race op also lists  fwd:<src>:<fn>:<tickfn>  and  points:<n>  = number of
# boundaries the tick went through) | ports | state, as world_harness.
import os, sys, threading
os.environ["WORLD_TRACE"] = "1"
sys.path.insert(0, os.path.dirname(os.path.abspath(__file__)))
import world_harness as wh
wh.USE_WORKER = False      # this harness runs the tick in a thread of its own, parked at the boundaries
from transceiver import Transceiver
from burst_fwd import BurstForwarder
from fake_trx import FakeTRX


class Gate:
    def __init__(self):
        self.active = False
        self.clock_ident = None
        self.stop_at = None
        self.count = 0
        self.reached = threading.Semaphore(0)
        self.go = threading.Semaphore(0)
        self.released = False

    def point(self, name):
        if not self.active or threading.get_ident() != self.clock_ident:
            return
        k = self.count
        self.count += 1
        if not self.released and self.stop_at is not None and k == self.stop_at:
            self.reached.release()
            self.go.acquire()


GATE = Gate()
FWD = []
TICKFN = [None]


class PausingLock:
    def __init__(self):
        self.real = threading.Lock()

    def __enter__(self):
        GATE.point("pre-lock")
        self.real.acquire()
        return self

    def __exit__(self, *a):
        self.real.release()
        GATE.point("post-lock")
        return False

    def acquire(self, *a, **k):
        return self.real.acquire(*a, **k)

    def release(self):
        return self.real.release()


_orig_tick = Transceiver.clck_tick
def _tick(self, fwd, fn):
    GATE.point("pre-tick")
    return _orig_tick(self, fwd, fn)
Transceiver.clck_tick = _tick

_orig_fwd = BurstForwarder.forward_msg
def _fwd(self, src_trx, rx_msg):
    l = wh.CUR_APP[0].trx_list.trx_list
    FWD.append("fwd:%d:%d:%s" % (l.index(src_trx), rx_msg.fn, TICKFN[0]))
    GATE.point("pre-forward")
    return _orig_fwd(self, src_trx, rx_msg)
BurstForwarder.forward_msg = _fwd

_traced_hdm = FakeTRX.handle_data_msg
def _hdm(self, src_trx, src_msg, msg):
    GATE.point("pre-handle")
    return _traced_hdm(self, src_trx, src_msg, msg)
FakeTRX.handle_data_msg = _hdm


def do_op(app, t):
    trxs = app.trx_list.trx_list
    if t[0] == "C":
        trx = trxs[int(t[1])]
        data = bytes.fromhex(t[3]) if t[3] != "-" else b""
        trx.ctrl_if.sock.inq.append((data, (trx.remote_addr, int(t[2]))))
        trx.ctrl_if.handle_rx()
    elif t[0] == "D":
        trx = trxs[int(t[1])]
        data = bytes.fromhex(t[2]) if t[2] != "-" else b""
        trx.data_if.sock.inq.append((data, (trx.remote_addr, trx.data_if.remote_port)))
        trx.recv_data_msg()
    elif t[0] == "T":
        if app.clck_gen.running:
            TICKFN[0] = app.clck_gen.clck_src
            app.clck_gen.send_clck_ind()
    elif t[0] == "J":
        if app.clck_gen.running:
            app.clck_gen.clck_src = int(t[1])
    else:
        raise ValueError("bad op")


def race(app, k, t):
    """tick in a second thread, stopped at boundary k; socket op in this thread; then the tick finishes"""
    excs = []
    if not app.clck_gen.running:
        do_op(app, t)
        return excs, 0
    GATE.__init__()
    GATE.stop_at = k
    TICKFN[0] = app.clck_gen.clck_src
    done = threading.Event()

    def clock():
        GATE.clock_ident = threading.get_ident()
        GATE.active = True
        try:
            app.clck_gen.send_clck_ind()
        except Exception as e:
            excs.append("clock:" + type(e).__name__)
        finally:
            GATE.active = False
            done.set()
            GATE.reached.release()       # wake the controller if the boundary was never reached

    th = threading.Thread(target=clock)
    th.start()
    GATE.reached.acquire()               # the tick is parked at boundary k, or has finished
    try:
        do_op(app, t)
    except Exception as e:
        excs.append("socket:" + type(e).__name__)
    GATE.released = True
    GATE.go.release()
    th.join(30)
    if th.is_alive():
        excs.append("clock:DEADLOCK")
    return excs, GATE.count


def run_line(line):
    head, _, opstr = line.partition("|")
    tok = head.split()
    wh.Draw.seed = int(tok[1]); wh.Draw.k = 0
    wh.Net.log.clear(); wh.StaleCounter.n = 0
    extra = []
    if tok[2] != "-":
        for e in tok[2].split(","):
            addr, rest = e.split(":")
            port, idx = rest.split("/")
            extra.append((addr, int(port), int(idx)))
    try:
        app = wh.build(extra)
    except Exception as e:
        return "cfgerr:" + type(e).__name__
    for trx in app.trx_list.trx_list:
        trx._tx_queue_lock = PausingLock()
    wh.CUR_APP[0] = app
    wh.CALLS.clear(); FWD.clear()
    res = []
    for op in opstr.split(";"):
        t = op.split()
        if not t:
            continue
        extra_items = []
        exc = None
        try:
            if t[0] == "R":
                excs, n = race(app, int(t[1]), t[2:])
                extra_items = ["points:%d" % n] + ["EXC:" + e for e in excs]
            else:
                do_op(app, t)
        except Exception as e:
            exc = e
        o = wh.obs(exc)
        items = ([] if o == "." else [o]) + FWD + extra_items
        FWD.clear()
        res.append(",".join(items) if items else ".")
    return " ; ".join(res) + " | " + wh.ports(app) + " | " + wh.state(app)


def main():
    for line in sys.stdin:
        line = line.strip()
        if not line.startswith("sched.run"):
            print("bad-op")
            continue
        try:
            print(run_line(line))
        except Exception as e:
            print("HARNESS-EXC %s %s" % (type(e).__name__, e))
        sys.stdout.flush()


if __name__ == "__main__":
    main()
