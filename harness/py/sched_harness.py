# Schedule harness (C03): one socket-thread operation racing one clock tick on the REAL objects.
# The clock tick (real CLCKGen.send_clck_ind -> Application.clck_handler -> Transceiver.clck_tick ->
# BurstForwarder.forward_msg -> FakeTRX.handle_data_msg) runs in a real second thread; a gate stops it at
# the k-th of its "atomic action boundaries" -- each one is a boundary between two atomic actions of the
# clock thread in the interleaving model (lean/OsmoVerif/Model/WorldSched.lean: clockStep, boundaries):
#     pre-tick(j)      before Transceiver.clck_tick of transceiver j (before `running` is read)      pc = next fn (j :: js)
#     pre-lock(j)      before the queue lock is taken                                               pc = lock fn j js
#     post-lock(j)     right after it is released                                                   pc = loop fn j emit drop js
#     pre-forward(j)   before each BurstForwarder.forward_msg                                       pc = loop fn j (m :: emit) drop js
#     pre-handle(k)    before each FakeTRX.handle_data_msg (the recipient's `running`, frequency
#                      and header version have been read, the message has been translated)         pc = hdl fn j msg .. k rx ..
# then the socket-thread operation is executed to completion in the main thread (real handle_rx /
# recv_data_msg), then the tick is allowed to finish.  Only the schedule is forced; no code is changed.
# `L <k> <op...>` instead of `R`: the tick is parked before the k-th LINE event of the toolkit's own code on its path
# (sys.settrace in the clock thread): a preemption point between any two statements; `at:line:<file>:<function>:<lineno>`.
# If the parked tick holds the queue lock the socket operation needs, the tick runs on until it has released the lock.
# Line protocol:  sched.run <seed> <extra|-> | <setup ops> ; R <k> <op...>
#   setup ops as in world_harness (C / D / T / J);  R k C i port hex  |  R k D i hex
# Answer: observations per op (every op lists  fwd:<src>:<fn>:<tickfn>  for each burst handed to forward_msg; the race
# op also  at:<boundary the tick was parked at | after>  and  points:<n>  = number of boundaries the tick went through)
# | ports | state, as world_harness.  The Lean driver answers the same lines (verb sched.run, Driver/WorldSched.lean).
from excname import exc_name
import os, sys, threading
os.environ["WORLD_TRACE"] = "1"
sys.path.insert(0, os.path.dirname(os.path.abspath(__file__)))
import world_harness as wh
wh.USE_WORKER = False      # this harness runs the tick in a thread of its own, parked at the boundaries
from transceiver import Transceiver
from burst_fwd import BurstForwarder
from fake_trx import FakeTRX


TRX_DIR = os.path.realpath(sys.argv[1])
# line-level schedules (`L k op`): the clock thread runs under a trace function that counts the line events of the toolkit's
# own code on the tick's path and is parked before the k-th one - a preemption point between ANY two statements
LINE_FILES = {"transceiver.py", "burst_fwd.py", "fake_trx.py", "clck_gen.py", "gsm_shared.py"}
# `S k op`: the other way round - the SOCKET operation runs in the second thread and is parked before its k-th line event
# (e.g. inside its locked section), a whole tick runs there, then the operation finishes
LINE_FILES_S = {"transceiver.py", "fake_trx.py", "ctrl_if.py", "ctrl_if_trx.py", "data_if.py", "clck_gen.py"}


def _tracer(frame, event, arg):
    co = frame.f_code
    if event == "call":
        fn = co.co_filename
        if os.path.basename(fn) in (LINE_FILES_S if GATE.mode == "S" else LINE_FILES) and os.path.realpath(os.path.dirname(fn)) == TRX_DIR and not co.co_name.startswith("<"):
            return _tracer
        return None
    if event == "line":
        GATE.point("line:%s:%s:%d" % (os.path.basename(co.co_filename), co.co_name, frame.f_lineno))
    return _tracer


class Gate:
    def __init__(self):
        self.mode = "R"
        self.parked = False
        self.handoff = False
        self.active = False
        self.clock_ident = None
        self.stop_at = None
        self.count = 0
        self.reached = threading.Semaphore(0)
        self.go = threading.Semaphore(0)
        self.released = False
        self.at = "after"

    def point(self, name):
        if not self.active or threading.get_ident() != self.clock_ident:
            return
        if (self.mode in ("L", "S")) != name.startswith("line:"):
            return
        k = self.count
        self.count += 1
        if not self.released and self.stop_at is not None and k == self.stop_at:
            self.at = name
            self.parked = True
            self.reached.release()
            self.go.acquire()
            self.parked = False


GATE = Gate()
FWD = []
TICKFN = [None]


class PausingLock:
    def __init__(self):
        self.real = threading.Lock()

    def _take(self, *a, **k):
        blocking = (a[0] if a else k.get("blocking", True)) and k.get("timeout", -1) == -1
        if blocking and GATE.active and threading.get_ident() != GATE.clock_ident and GATE.parked and self.real.locked():
            # this thread needs the lock while the gated thread is parked inside its locked section: as in real life it has to
            # wait - the gated thread runs on until it releases the lock, stops there, and this thread's operation then runs
            # to completion before the gated one goes on (a non-blocking attempt simply fails)
            GATE.handoff = True
            GATE.go.release()
        return self.real.acquire(*a, **k)

    def _give(self):
        self.real.release()
        if GATE.active and threading.get_ident() == GATE.clock_ident and GATE.handoff:
            GATE.handoff = False
            GATE.go.acquire()

    def __enter__(self):
        GATE.point("pre-lock")
        self._take()
        return self

    def __exit__(self, *a):
        self._give()
        GATE.point("post-lock")
        return False

    # the same boundaries when the lock is taken / released by explicit calls instead of `with`
    def acquire(self, *a, **k):
        GATE.point("pre-lock")
        return self._take(*a, **k)

    def release(self):
        self._give()
        GATE.point("post-lock")

    def locked(self):
        return self.real.locked()


_orig_tick = Transceiver.clck_tick
def _tick(self, fwd, fn):
    GATE.point("pre-tick")
    return _orig_tick(self, fwd, fn)
Transceiver.clck_tick = _tick

_orig_fwd = BurstForwarder.forward_msg
def _fwd(self, src_trx, rx_msg):
    l = wh.CUR_APP[0].trx_list.trx_list
    FWD.append("fwd:%d:%d:%s" % (l.index(src_trx), rx_msg.fn, TICKFN[0]))
    GATE.point("pre-forward")
    return _orig_fwd(self, src_trx, rx_msg)
BurstForwarder.forward_msg = _fwd

_traced_hdm = FakeTRX.handle_data_msg
def _hdm(self, src_trx, src_msg, msg):
    GATE.point("pre-handle")
    return _traced_hdm(self, src_trx, src_msg, msg)
FakeTRX.handle_data_msg = _hdm


def do_op(app, t):
    trxs = app.trx_list.trx_list
    if t[0] == "C":
        trx = trxs[int(t[1])]
        data = bytes.fromhex(t[3]) if t[3] != "-" else b""
        if trx.ctrl_if.sock.deliver(data, (trx.remote_addr, int(t[2]))):
            trx.ctrl_if.handle_rx()
    elif t[0] == "D":
        trx = trxs[int(t[1])]
        data = bytes.fromhex(t[2]) if t[2] != "-" else b""
        if trx.data_if.sock.deliver(data, (trx.remote_addr, trx.data_if.remote_port)):
            trx.recv_data_msg()
    elif t[0] == "T":
        if app.clck_gen.running:
            TICKFN[0] = app.clck_gen.clck_src
            app.clck_gen.send_clck_ind()
    elif t[0] == "J":
        if app.clck_gen.running:
            app.clck_gen.clck_src = int(t[1])
    else:
        raise ValueError("bad op")


def race(app, k, t, mode="R"):
    """mode R / L: the tick runs in a second thread, stopped at boundary k (R) or before its k-th line event (L); the socket
    operation runs in this thread; then the tick finishes.  mode S: the socket operation runs in the second thread, stopped
    before its k-th line event; a whole tick runs in this thread; then the operation finishes."""
    excs = []
    if not app.clck_gen.running:
        do_op(app, t)
        return excs, 0, "after"
    GATE.__init__()
    GATE.mode = mode
    GATE.stop_at = k
    TICKFN[0] = app.clck_gen.clck_src
    done = threading.Event()

    def tick():
        app.clck_gen.send_clck_ind()

    def op():
        do_op(app, t)

    gated, other = (op, tick) if mode == "S" else (tick, op)
    glabel, olabel = ("socket", "clock") if mode == "S" else ("clock", "socket")

    def second():
        GATE.clock_ident = threading.get_ident()      # the thread that is gated
        GATE.active = True
        if mode in ("L", "S"):
            sys.settrace(_tracer)
        try:
            gated()
        except Exception as e:
            excs.append(glabel + ":" + exc_name(e))
        finally:
            sys.settrace(None)
            GATE.active = False
            done.set()
            GATE.reached.release()       # wake the controller if the boundary was never reached

    th = threading.Thread(target=second)
    th.start()
    GATE.reached.acquire()               # the gated thread is parked at point k, or has finished
    try:
        other()
    except Exception as e:
        excs.append(olabel + ":" + exc_name(e))
    GATE.released = True
    GATE.go.release()
    th.join(30)
    if th.is_alive():
        excs.append(glabel + ":DEADLOCK")
    return excs, GATE.count, GATE.at


def run_line(line):
    head, _, opstr = line.partition("|")
    tok = head.split()
    wh.Draw.seed = int(tok[1]); wh.Draw.k = 0
    wh.Net.log.clear(); wh.StaleCounter.n = 0
    extra = []
    if tok[2] != "-":
        for e in tok[2].split(","):
            addr, rest = e.split(":")
            port, idx = rest.split("/")
            extra.append((addr, int(port), int(idx)))
    try:
        app = wh.build(extra)
    except Exception as e:
        return "cfgerr:" + exc_name(e)
    for trx in app.trx_list.trx_list:
        # every mutex of the transceiver object or of a helper object it owns, under whatever (private) name
        locks = wh.reachable(trx, lambda x: type(x).__name__ in ("lock", "RLock", "_RLock"), depth_max=3)
        for owner, k, _ in locks:
            if isinstance(owner, (dict, list)):
                owner[k] = PausingLock()
            elif not isinstance(owner, (tuple, set, frozenset)):
                setattr(owner, k, PausingLock())
        if not locks:
            trx._tx_queue_lock = PausingLock()
    wh.CUR_APP[0] = app
    wh.CALLS.clear(); FWD.clear()
    res = []
    for op in opstr.split(";"):
        t = op.split()
        if not t:
            continue
        extra_items = []
        exc = None
        try:
            if t[0] in ("R", "L", "S"):
                excs, n, at = race(app, int(t[1]), t[2:], t[0])
                extra_items = ["at:" + at, "points:%d" % n] + ["EXC:" + e for e in excs]
            else:
                do_op(app, t)
        except Exception as e:
            exc = e
        o = wh.obs(exc)
        items = ([] if o == "." else [o]) + FWD + extra_items
        FWD.clear()
        res.append(",".join(items) if items else ".")
    return " ; ".join(res) + " | " + wh.ports(app) + " | " + wh.state(app)


def main():
    for line in sys.stdin:
        line = line.strip()
        if not line.startswith("sched.run"):
            print("bad-op")
            continue
        try:
            print(run_line(line))
        except Exception as e:
            print("HARNESS-EXC %s %s" % (exc_name(e), e))
        sys.stdout.flush()


if __name__ == "__main__":
    main()
