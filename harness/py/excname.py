# How the harnesses name an exception that leaves the code under test: by the nearest class in its MRO that the code under
# test did NOT define itself (a builtin, or a class of the standard library such as struct.error) - or one of the classes the
# code's own contract names (`own`, e.g. the codec's DecodeError / EncodeError).  "Refused with ValueError" is met by
# `class MsgValidationError(ValueError)` as well: a subclass introduced by the tree under test is reported as what it IS.
import os, sys

_TK = os.path.realpath(sys.argv[1]) if len(sys.argv) > 1 and os.path.isdir(sys.argv[1]) else None


def _from_code_under_test(cls):
    if cls.__module__ == "builtins":
        return False
    mod = sys.modules.get(cls.__module__)
    f = getattr(mod, "__file__", None)
    if not f or _TK is None:
        return False
    return os.path.realpath(f).startswith(_TK + os.sep)


def exc_name(e, own=()):
    for c in type(e).__mro__:
        if c.__name__ in own or not _from_code_under_test(c):
            return c.__name__
    return type(e).__name__
