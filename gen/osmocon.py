# translator: constants of osmocon's host side of the serial link -> OsmoVerif/Gen/Osmocon.lean
#
# osmocon.c is compiled unchanged into harness/c/c06_osmocon_harness.c (which #includes it); its verb
# `oc.dump` prints what the C compiler / the running functions say:
#   window        sizeof(buffer)  (the prompt detection window handle_buffer() reads into)
#   prompt tables phone_prompt1/2, phone_ack, phone_nack, phone_nack_magic, ftmtool
#   dnload_state  enum values
#   send_max      observed: the largest `len` hdlc_send_to_phone() queues a message for
#   write_buf     observed: the number of octets handle_sercomm_write() offers to one write() at most
# The size sercomm_alloc_msgb() is called with inside hdlc_send_to_phone() is a literal in the function
# text; it is read from there.
import os, re
from lib import vf


def read_dump(exe, env):
    out = vf.run_lines([exe], ["oc.dump"], env=env)[0]
    vals = {}
    for t in out.split():
        if "=" in t:
            k, v = t.split("=", 1)
            vals[k] = v
    return vals


def generate(run, exe, env):
    vals = read_dump(exe, env)
    need = ["window", "prompt1", "prompt2", "ack", "nack_magic", "nack", "ftmtool", "st_prompt1", "st_prompt2",
            "st_downloading", "send_max", "write_buf"]
    for k in need:
        if k not in vals:
            raise vf.HarnessError("osmocon dumper printed no %s (answer: %s)" % (k, str(vals)[:300]))
    src = open(os.path.join(vf.REPO, "src/host/osmocon/osmocon.c"), errors="replace").read()
    fn = vf.c_function(src, "hdlc_send_to_phone") or ""
    m = re.search(r"sercomm_alloc_msgb\s*\(\s*([^()]+?)\s*\)", fn)
    if not m:
        raise vf.HarnessError("hdlc_send_to_phone: no sercomm_alloc_msgb(...) found")
    arg = m.group(1)
    if not arg.isdigit():
        # a named constant: its definition in the same file, else the observed send bound (the buffer is asked for that size)
        d = re.search(r"^[ \t]*#[ \t]*define[ \t]+%s[ \t]+\(?\s*(\d+)\s*\)?[ \t]*(?:/\*.*)?$" % re.escape(arg), src, re.M) if re.fullmatch(r"[A-Za-z_]\w*", arg) else None
        arg = d.group(1) if d else str(vals["send_max"])
    vals["send_alloc"] = arg
    if int(vals["write_buf"]) < 1 or int(vals["send_max"]) < 0:
        raise vf.HarnessError("osmocon dumper: could not observe write_buf / send_max (%s, %s)" % (vals["write_buf"], vals["send_max"]))

    def octs(h):
        return vf.lean_nat_list(bytes.fromhex(h))

    L = ["-- GENERATED from /repo by /verif/gen/osmocon.py -- do not edit",
         "namespace OsmoVerif.Gen.Osmocon",
         "/-- `sizeof(buffer)`: the window `handle_buffer` reads into (osmocon.c) -/",
         "def window : Nat := %d" % int(vals["window"]),
         "/-- octets `handle_sercomm_write` offers to one `write()` at most (observed by running it) -/",
         "def writeBuf : Nat := %d" % int(vals["write_buf"]),
         "/-- the largest `len` for which `hdlc_send_to_phone` queues a message (observed by running it) -/",
         "def sendMax : Nat := %d" % int(vals["send_max"]),
         "/-- the argument of `sercomm_alloc_msgb` in `hdlc_send_to_phone` (literal in the function text) -/",
         "def sendAlloc : Nat := %d" % int(vals["send_alloc"]),
         "def phonePrompt1 : List Nat := %s" % octs(vals["prompt1"]),
         "def phonePrompt2 : List Nat := %s" % octs(vals["prompt2"]),
         "def phoneAck : List Nat := %s" % octs(vals["ack"]),
         "def phoneNack : List Nat := %s" % octs(vals["nack"]),
         "def phoneNackMagic : List Nat := %s" % octs(vals["nack_magic"]),
         "def ftmtool : List Nat := %s" % octs(vals["ftmtool"]),
         "/-- `enum dnload_state` -/",
         "def stWaitingPrompt1 : Nat := %d" % int(vals["st_prompt1"]),
         "def stWaitingPrompt2 : Nat := %d" % int(vals["st_prompt2"]),
         "def stDownloading : Nat := %d" % int(vals["st_downloading"]),
         "end OsmoVerif.Gen.Osmocon", ""]
    vf.write_if_changed(os.path.join(vf.LEAN, "OsmoVerif/Gen/Osmocon.lean"), "\n".join(L))
    return vals
