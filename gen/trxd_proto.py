# translator: the six declarative TRXD PDU definitions of the LIVE trxd_proto.py (and both BPDUs)
#   -> lean/OsmoVerif/Gen/TrxdProto.lean  (terms of the definition language of Model/Codec.lean)
# Field objects are introspected (class, name, len, offset, mult, BO, SIGN, bit-field lists with
# bl/val/Spare, order, nested envelopes/sequences); the lambdas get_len/get_pres are tabulated
# (mod in -2..39 and beyond, nope in {0,1,..}, remaining length 0..2048) and a first-order
# description is emitted only when the tabulation equals it; otherwise the translator fails.
import json, os
from lib import vf
from lib import codecdef as cd

LEAN_NAMES = {"PDUv0Rx": "pduV0Rx", "PDUv0Tx": "pduV0Tx", "PDUv1Rx": "pduV1Rx", "PDUv1Tx": "pduV1Tx",
              "PDUv2Rx": "pduV2Rx", "PDUv2Tx": "pduV2Tx"}


def _dec(o):
    if isinstance(o, dict):
        if "__bytes__" in o:
            return bytes.fromhex(o["__bytes__"])
        return {k: _dec(v) for k, v in o.items()}
    if isinstance(o, list):
        return [_dec(x) for x in o]
    return o


def _tuples(e):
    """JSON turned tuples into lists: restore the AST shape"""
    for f in e['fs']:
        f['pres'] = tuple(f['pres'])
        if 'ld' in f:
            ld = f['ld']
            f['ld'] = (ld[0], ld[1], [tuple(x) for x in ld[2]]) if ld[0] == 'T' else tuple(ld)
        if f['k'] == 'bits':
            f['fs'] = [tuple(b) for b in f['fs']]
            f['live'] = [tuple(x) for x in f['live']]
        if f['k'] in ('env', 'seq'):
            _tuples(f)
    return e


def load(run=None):
    rc, out = vf.sh([vf.PY, os.path.join(vf.ROOT, "gen/trxd_proto_dump.py"), vf.TRX, vf.ROOT])
    if rc != 0:
        # the live definitions left the definition language (or cannot be imported): the translation tie is broken;
        # this is not an internal error of the check
        raise vf.HarnessError("translator gen/trxd_proto.py: the live PDU definitions cannot be translated: %s"
                              % " | ".join(out.strip().split("\n")[-3:])[-600:])
    d = _dec(json.loads(out.strip().split("\n")[-1]))
    for k in d["classes"]:
        _tuples(d["classes"][k])
    return d


def bitsets(e, acc):
    for f in e['fs']:
        if f['k'] == 'bits':
            acc.append(f)
        elif f['k'] in ('env', 'seq'):
            bitsets(f, acc)
    return acc


def generate(run=None):
    d = load(run)
    cls = d["classes"]
    txt = ["-- GENERATED from /repo by /verif/gen/trxd_proto.py -- do not edit",
           "import OsmoVerif.Model.Codec",
           "namespace OsmoVerif.Gen.TrxdProto",
           "open OsmoVerif.Codec", ""]
    for name, ln in LEAN_NAMES.items():
        e = cls[name]
        txt.append("/-- `trxd_proto.%s` (STRUCT introspected, lambdas tabulated) -/" % name)
        txt.append("def %s : EnvDef := %s\n" % (ln, cd.env_lean(e)))
    for name, ln in (("PDUv2Rx", "bpduV2Rx"), ("PDUv2Tx", "bpduV2Tx")):
        seqs = [f for f in cls[name]['fs'] if f['k'] == 'seq']
        if len(seqs) != 1:
            raise cd.TranslatorError("%s: expected exactly one Sequence field" % name)
        txt.append("/-- `trxd_proto.%s.BPDU` (item of the `bpdu` sequence) -/" % name)
        txt.append("def %s : List FDef := %s\n" % (ln, cd.fields_lean(seqs[0]['fs'])))
    txt.append("def all : List (String × EnvDef) := [%s]\n" % ", ".join('("%s", %s)' % (n, l) for n, l in LEAN_NAMES.items()))
    # offsets/masks the live BitFieldSet.__init__ computed (f.offset, f.mask in processing order)
    seen, rows = set(), []
    for name in LEAN_NAMES:
        for b in bitsets(cls[name], []):
            key = (cd.field_lean(b), tuple(b['live']))
            if key in seen:
                continue
            seen.add(key)
            rows.append("  (%s, [%s])" % (cd.field_lean(b), ", ".join("(%d, %d)" % x for x in b['live'])))
    txt.append("/-- every BitFieldSet of the six PDUs with the `(offset, mask)` pairs the live constructor derived -/")
    txt.append("def liveBitsets : List (FDef × List (Nat × Nat)) := [\n%s]\n" % ",\n".join(rows))
    tab = d["mts_burst_len"]
    txt.append("/-- `MTS.get_burst_len(mod)` for mod = -2..39 (`none` = ValueError) -/")
    txt.append("def mtsBurstLen : List (Int × Option Nat) := [%s]\n" % ", ".join(
        "(%s, %s)" % (cd.lint(int(k)), "none" if v is None else "some %d" % v) for k, v in sorted(tab.items(), key=lambda kv: int(kv[0]))))
    txt.append("/-- `data_msg.Modulation` (coding, burst length), in enum order -/")
    txt.append("def liveMsgModulations : List (Nat × Nat) := [%s]\n" % ", ".join("(%d, %d)" % (c, bl) for _, c, bl in d["msg_modulations"]))
    txt.append("end OsmoVerif.Gen.TrxdProto\n")
    vf.write_if_changed(os.path.join(vf.LEAN, "OsmoVerif/Gen/TrxdProto.lean"), "\n".join(txt))
    return d
