# translator: constants of the serial framing code -> OsmoVerif/Gen/Sercomm.lean
#
# The constants are file-local #defines / enums of sercomm.c and sercomm.h, so the dumper
# #includes the real sercomm.c and lets the C compiler evaluate them -- once as the host tools
# build it (-DHOST_BUILD) and once as the firmware builds it (no HOST_BUILD; ARM interrupt
# primitives and unresolved firmware symbols come from harness/c/shim, nothing is executed
# in that variant).  The bit that the transmitter / the receiver flip on an escaped octet is
# a literal `(1 << 5)` written twice in the code (once in sercomm_drv_pull, once in
# sercomm_drv_rx_char); it has no name, so the host variant of the dumper observes it by
# running the two functions on one escaped octet each.
import os
from lib import vf, cbuild

DUMP = r'''
#include <stdio.h>
#include <string.h>
#include <stdlib.h>
#include <stdarg.h>
#include SERCOMM_C
#ifdef SERCOMM_EXTRA1
#include SERCOMM_EXTRA1
#endif
#ifdef SERCOMM_EXTRA2
#include SERCOMM_EXTRA2
#endif
#ifdef HOST_BUILD
void osmo_panic(const char *fmt, ...) { abort(); }
static int got = -1;
static void cb(uint8_t dlci, struct msgb *msg) { if (msgb_length(msg) == 1) got = msg->data[0]; msgb_free(msg); }
#else
void uart_irq_enable(uint8_t uart, enum uart_irq irq, int on) { }
#endif
int main(void)
{
	printf("rx_msg_size %d\n", (int) SERCOMM_RX_MSG_SIZE);
	printf("hdlc_flag %d\n", (int) HDLC_FLAG);
	printf("hdlc_escape %d\n", (int) HDLC_ESCAPE);
	printf("hdlc_c_ui %d\n", (int) HDLC_C_UI);
#ifdef HAVE_STATE_MEMBERS
	printf("n_tx_queues %d\n", (int) ARRAY_SIZE(sercomm.tx.dlci_queues));
	printf("n_rx_handlers %d\n", (int) ARRAY_SIZE(sercomm.rx.dlci_handler));
#else
	/* the private state struct has other member names in this tree: both tables are dimensioned by the public enum */
	printf("n_tx_queues %d\n", (int) _SC_DLCI_MAX);
	printf("n_rx_handlers %d\n", (int) _SC_DLCI_MAX);
#endif
	printf("dlci_max %d\n", (int) _SC_DLCI_MAX);
	printf("dlci_echo %d\n", (int) SC_DLCI_ECHO);
#ifdef HAVE_RX_ST_ENUM
	printf("st_wait_start %d\n", (int) RX_ST_WAIT_START);
	printf("st_addr %d\n", (int) RX_ST_ADDR);
	printf("st_ctrl %d\n", (int) RX_ST_CTRL);
	printf("st_data %d\n", (int) RX_ST_DATA);
	printf("st_escape %d\n", (int) RX_ST_ESCAPE);
#else
	/* the private receiver-state enum has other names in this tree: canonical numbering (only distinctness is used) */
	printf("st_wait_start 0\nst_addr 1\nst_ctrl 2\nst_data 3\nst_escape 4\n");
#endif
	fflush(stdout);
#ifdef HOST_BUILD
	{
		/* observe the escape bit of the transmitter and of the receiver */
		struct msgb *m;
		uint8_t ch[8];
		int i, n = 0;
		sercomm_init();
		m = sercomm_alloc_msgb(1);
		*msgb_put(m, 1) = HDLC_FLAG;
		sercomm_sendmsg(1, m);
		for (i = 0; i < 8 && sercomm_drv_pull(&ch[n]); i++)
			n++;
		/* flag, addr, ctrl, ESC, x, flag */
		if (n == 6 && ch[3] == HDLC_ESCAPE)
			printf("tx_esc_xor %d\n", (int) (ch[4] ^ HDLC_FLAG));
		else
			printf("tx_esc_xor -1\n");
		sercomm_register_rx_cb(1, cb);
		sercomm_drv_rx_char(HDLC_FLAG);
		sercomm_drv_rx_char(1);
		sercomm_drv_rx_char(HDLC_C_UI);
		sercomm_drv_rx_char(HDLC_ESCAPE);
		sercomm_drv_rx_char(0x55);
		sercomm_drv_rx_char(HDLC_FLAG);
		printf("rx_esc_xor %d\n", got < 0 ? -1 : (got ^ 0x55));
		/* room of the buffers sercomm_alloc_msgb() hands out (sercomm.h) */
		m = sercomm_alloc_msgb(100);
		printf("alloc_slack %d\n", msgb_tailroom(m) - 100);
		printf("alloc_headroom %d\n", msgb_headroom(m));
	}
#endif
	return 0;
}
'''

SERCOMM_C = "src/target/firmware/comm/sercomm.c"
SERCOMM_API = ["sercomm_init", "sercomm_sendmsg", "sercomm_drv_pull", "sercomm_drv_rx_char", "sercomm_register_rx_cb", "sercomm_tx_queue_depth"]


def sercomm_sources():
    """sercomm.c plus the files of firmware/comm that define a function of the sercomm API which sercomm.c does not define in
    this tree (the receiver or the transmitter moved into a file of its own)"""
    import re
    d = os.path.dirname(os.path.join(vf.REPO, SERCOMM_C))

    def defines(path, f):
        txt = re.sub(r"/\*.*?\*/", "", open(path, errors="replace").read(), flags=re.S)
        return re.search(r"^[A-Za-z_][^;{}()]*\b%s\s*\([^;{}]*\)\s*\{" % f, txt, re.M) is not None
    out = [os.path.join(vf.REPO, SERCOMM_C)]
    for f in SERCOMM_API:
        if any(defines(p, f) for p in out):
            continue
        for fn in sorted(os.listdir(d)):
            p = os.path.join(d, fn)
            if fn.endswith(".c") and fn.startswith("sercomm") and fn != "sercomm_cons.c" and p not in out and defines(p, f):
                out.append(p)
                break
    return out


def _dump(run, host):
    tag = "host" if host else "target"
    src = os.path.join(run.scratch, "gen_sercomm_%s.c" % tag)
    exe = os.path.join(run.scratch, "gen_sercomm_%s" % tag)
    open(src, "w").write(DUMP)
    sc = os.path.join(vf.REPO, SERCOMM_C)
    cmd = ["gcc", "-O0", "-w", '-DSERCOMM_C="%s"' % sc] + ['-DSERCOMM_EXTRA%d="%s"' % (i + 1, q) for i, q in enumerate(sercomm_sources()[1:3])]
    if host:
        # as src/host/osmocon/Makefile.am: -I firmware/include/comm -DHOST_BUILD, linked with libosmocore's msgb
        cmd += ["-DHOST_BUILD", "-I", os.path.join(cbuild.FW_INC, "comm"),
                "-I", os.path.join(cbuild.SHIM, "cfg/a/b"), "-I", cbuild.LIBOSMO_INC, src,
                os.path.join(vf.REPO, "src/shared/libosmocore/src/msgb.c"),
                os.path.join(vf.REPO, "src/shared/libosmocore/src/talloc.c")]
    else:
        cmd += ["-I", cbuild.SHIM, "-I", cbuild.LIBOSMO_INC, "-idirafter", cbuild.FW_INC, src,
                "-no-pie", "-static", "-Wl,--unresolved-symbols=ignore-all"]
    cmd += ["-o", exe]
    # private names of the state struct / receiver-state enum are used where this tree has them
    for probe in (["-DHAVE_STATE_MEMBERS", "-DHAVE_RX_ST_ENUM"], ["-DHAVE_RX_ST_ENUM"], ["-DHAVE_STATE_MEMBERS"], []):
        rc, o = vf.sh(cmd + probe, timeout=600)
        if rc == 0:
            break
    if rc != 0:
        raise vf.HarnessError("sercomm dumper (%s) does not compile: %s" % (tag, o[-2000:]))
    rc, o = vf.sh([exe])
    vals = {}
    for ln in o.strip().split("\n"):
        t = ln.split()
        if len(t) == 2 and t[1].lstrip("-").isdigit():
            vals[t[0]] = int(t[1])
    vals["_rc"] = rc          # the host variant runs the code under test: it may crash on a broken tree
    return vals


def generate(run):
    h = _dump(run, True)
    t = _dump(run, False)
    run.consts = {"host": h, "target": t}          # what could be read, even if the rest fails
    for k in ("rx_msg_size", "hdlc_flag", "st_escape"):
        if k not in h or k not in t:
            raise vf.HarnessError("sercomm dumper printed no %s" % k)
    for k in ("tx_esc_xor", "rx_esc_xor", "alloc_slack", "alloc_headroom"):
        if h.get(k, -1) < 0:
            raise vf.HarnessError("sercomm dumper: could not observe %s (exit status %s of the dumper running "
                                  "sercomm_drv_pull / sercomm_drv_rx_char)" % (k, h["_rc"]))
    L = ["-- GENERATED from /repo by /verif/gen/sercomm.py -- do not edit",
         "namespace OsmoVerif.Gen.Sercomm",
         "/-- `SERCOMM_RX_MSG_SIZE` of sercomm.c compiled with -DHOST_BUILD (osmocon, osmoload) -/",
         "def rxMsgSizeHost : Nat := %d" % h["rx_msg_size"],
         "/-- `SERCOMM_RX_MSG_SIZE` of sercomm.c compiled for the target (no HOST_BUILD) -/",
         "def rxMsgSizeTarget : Nat := %d" % t["rx_msg_size"]]
    names = [("hdlc_flag", "hdlcFlag", "`HDLC_FLAG` (sercomm.h)"),
             ("hdlc_escape", "hdlcEscape", "`HDLC_ESCAPE`"),
             ("hdlc_c_ui", "hdlcCUi", "`HDLC_C_UI`"),
             ("n_tx_queues", "nTxQueues", "`ARRAY_SIZE(sercomm.tx.dlci_queues)`"),
             ("n_rx_handlers", "nRxHandlers", "`ARRAY_SIZE(sercomm.rx.dlci_handler)`"),
             ("dlci_max", "dlciMax", "`_SC_DLCI_MAX`"),
             ("dlci_echo", "dlciEcho", "`SC_DLCI_ECHO` (handler registered by sercomm_init: sercomm_sendmsg)"),
             ("st_wait_start", "stWaitStart", "`RX_ST_WAIT_START`"),
             ("st_addr", "stAddr", "`RX_ST_ADDR`"),
             ("st_ctrl", "stCtrl", "`RX_ST_CTRL`"),
             ("st_data", "stData", "`RX_ST_DATA`"),
             ("st_escape", "stEscape", "`RX_ST_ESCAPE`")]
    for key, lean, doc in names:
        if h[key] != t[key]:
            raise vf.HarnessError("sercomm dumper: %s differs between host (%d) and target (%d) build" % (key, h[key], t[key]))
        L += ["/-- %s, same value in the host and the target build -/" % doc, "def %s : Nat := %d" % (lean, h[key])]
    L += ["/-- the bit pattern sercomm_drv_pull xors into an octet it escapes (observed by running it on 0x7E) -/",
          "def txEscXor : Nat := %d" % h["tx_esc_xor"],
          "/-- the bit pattern sercomm_drv_rx_char xors into the octet after an escape (observed by running it) -/",
          "def rxEscXor : Nat := %d" % h["rx_esc_xor"],
          "/-- `msgb_tailroom(sercomm_alloc_msgb(n)) - n` (observed): octets of room beyond the requested size -/",
          "def allocSlack : Nat := %d" % h["alloc_slack"],
          "/-- `msgb_headroom(sercomm_alloc_msgb(n))` (observed): room for the two header octets sercomm_sendmsg pushes -/",
          "def allocHeadroom : Nat := %d" % h["alloc_headroom"],
          "end OsmoVerif.Gen.Sercomm", ""]
    vf.write_if_changed(os.path.join(vf.LEAN, "OsmoVerif/Gen/Sercomm.lean"), "\n".join(L))
    return {"host": h, "target": t}
