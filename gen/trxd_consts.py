# translator: constants, Modulation enum and soft-bit tables of data_msg.py / gsm_shared.py, capture tags of data_dump.py
#             -> OsmoVerif/Gen/TrxdConsts.lean   (values as held by the interpreter, current tree)
import json, os
from lib import vf

DUMP = r'''
import sys, json
sys.path.insert(0, sys.argv[1])
import data_msg as d
import gsm_shared as g
import data_dump as dd
from array import array
mods = list(d.Modulation)
tx, rx = d.TxMsg(), d.RxMsg()
# the four soft-bit conversions as tables over all 256 octet values, MEASURED through the public conversion functions
# (whatever private tables / expressions implement them)
s8 = lambda b: b - 256 if b >= 128 else b
all_u = array('B', range(256))
all_s = array('b', [s8(b) for b in range(256)])
def hdr_len(cls):
    out = []
    for v in range(0, d.Msg.CHDR_VERSION_MAX + 2):
        try:
            out.append([v, cls(ver = v).HDR_LEN])
        except IndexError:
            pass
    return out
print(json.dumps({
    "gsmHyperframe": g.GSM_HYPERFRAME,
    "gmskBurstLen": g.GMSK_BURST_LEN,
    "edgeBurstLen": g.EDGE_BURST_LEN,
    "chdrVersionMax": d.Msg.CHDR_VERSION_MAX,
    "knownVersions": list(d.Msg.KNOWN_VERSIONS),
    "chdrLen": tx.CHDR_LEN,
    "txHdrLen": hdr_len(d.TxMsg),
    "rxHdrLen": hdr_len(d.RxMsg),
    "pwrMin": d.TxMsg.PWR_MIN, "pwrMax": d.TxMsg.PWR_MAX,
    "rssiMin": d.RxMsg.RSSI_MIN, "rssiMax": d.RxMsg.RSSI_MAX,
    "toa256Min": d.RxMsg.TOA256_MIN, "toa256Max": d.RxMsg.TOA256_MAX,
    "tscRange": list(d.RxMsg.TSC_RANGE),
    "ciMin": d.RxMsg.CI_MIN, "ciMax": d.RxMsg.CI_MAX,
    "nopeInd": d.RxMsg.NOPE_IND,
    "modulations": [[m.name, m.coding, m.bl] for m in mods],
    "modGMSK": mods.index(d.Modulation.ModGMSK),
    "rxDefaultMod": mods.index(rx.mod_type) if rx.mod_type is not None else None,
    "rxDefaultNope": bool(rx.nope_ind),
    "tabUsbit2sbit": [s8(int(x)) for x in bytes(d.Msg.usbit2sbit(all_u))],
    "tabSbit2usbit": [int(x) for x in bytes(d.Msg.sbit2usbit(all_s))],
    "tabSbit2ubit": [int(x) for x in bytes(d.Msg.sbit2ubit(all_s))],
    "tabUbit2sbit": [s8(int(x)) for x in bytes(d.Msg.ubit2sbit(bytearray(range(256))))],
    "dumpTagTx": list(dd.DATADump.TAG_TxMsg),
    "dumpTagRx": list(dd.DATADump.TAG_RxMsg),
    "dumpHdrLength": dd.DATADump.HDR_LENGTH,
}))
'''


def dump(run):
    src = os.path.join(run.scratch, "gen_trxd_consts.py")
    with open(src, "w") as f:
        f.write(DUMP)
    rc, out = vf.sh([vf.PY, src, vf.TRX], check=True)
    return json.loads(out.strip().split("\n")[-1])


def pairs(xs):
    return "[" + ", ".join("(%d, %d)" % (a, b) for a, b in xs) + "]"


def generate(run):
    c = dump(run)
    L = []
    A = L.append
    A("-- GENERATED from /repo by /verif/gen/trxd_consts.py -- do not edit")
    A("-- source: src/target/trx_toolkit/data_msg.py, gsm_shared.py (values held by the interpreter)")
    A("namespace OsmoVerif.Gen.Trxd")
    A("/-- `GSM_HYPERFRAME` (gsm_shared.py) -/")
    A("def gsmHyperframe : Int := %d" % c["gsmHyperframe"])
    A("/-- `GMSK_BURST_LEN`, `EDGE_BURST_LEN` (gsm_shared.py) -/")
    A("def gmskBurstLen : Nat := %d" % c["gmskBurstLen"])
    A("def edgeBurstLen : Nat := %d" % c["edgeBurstLen"])
    A("/-- `Msg.CHDR_VERSION_MAX`, `Msg.KNOWN_VERSIONS`, `Msg.CHDR_LEN` -/")
    A("def chdrVersionMax : Int := %d" % c["chdrVersionMax"])
    A("def knownVersions : List Int := %s" % vf.lean_int_list(c["knownVersions"]))
    A("def chdrLen : Nat := %d" % c["chdrLen"])
    A("/-- `HDR_LEN` of `TxMsg(ver = v)` / `RxMsg(ver = v)` for every v in 0..CHDR_VERSION_MAX+1 that does not raise IndexError -/")
    A("def txHdrLen : List (Nat × Nat) := %s" % pairs(c["txHdrLen"]))
    A("def rxHdrLen : List (Nat × Nat) := %s" % pairs(c["rxHdrLen"]))
    A("/-- `TxMsg.PWR_MIN/MAX` -/")
    A("def pwrMin : Int := %s" % vf.lean_int(c["pwrMin"]))
    A("def pwrMax : Int := %s" % vf.lean_int(c["pwrMax"]))
    A("/-- `RxMsg.RSSI_MIN/MAX`, `TOA256_MIN/MAX`, `TSC_RANGE` (as a list), `CI_MIN/MAX`, `NOPE_IND` -/")
    A("def rssiMin : Int := %s" % vf.lean_int(c["rssiMin"]))
    A("def rssiMax : Int := %s" % vf.lean_int(c["rssiMax"]))
    A("def toa256Min : Int := %s" % vf.lean_int(c["toa256Min"]))
    A("def toa256Max : Int := %s" % vf.lean_int(c["toa256Max"]))
    A("def tscRange : List Int := %s" % vf.lean_int_list(c["tscRange"]))
    A("def ciMin : Int := %s" % vf.lean_int(c["ciMin"]))
    A("def ciMax : Int := %s" % vf.lean_int(c["ciMax"]))
    A("def nopeInd : Nat := %d" % c["nopeInd"])
    A("/-- `list(Modulation)`: (name, coding, burst length) in enum order -/")
    A("def modulations : List (String × Nat × Nat) := [%s]" % ", ".join(
        "(%s, %d, %d)" % (vf.lean_str(n), cd, bl) for n, cd, bl in c["modulations"]))
    A("/-- index of `Modulation.ModGMSK` in `list(Modulation)` -/")
    A("def modGMSK : Nat := %d" % c["modGMSK"])
    A("/-- class defaults of a fresh `RxMsg()`: `mod_type` (index) and `nope_ind` -/")
    A("def rxDefaultMod : Option Nat := %s" % ("none" if c["rxDefaultMod"] is None else "some %d" % c["rxDefaultMod"]))
    A("def rxDefaultNope : Bool := %s" % ("true" if c["rxDefaultNope"] else "false"))
    A("/-- `Msg._tab_usbit2sbit` (array 'b'), `_tab_sbit2usbit` (array 'B'), `_tab_sbit2ubit` (array 'B'), `_tab_ubit2sbit` (array 'b') -/")
    A("def tabUsbit2sbit : List Int := %s" % vf.lean_int_list(c["tabUsbit2sbit"]))
    A("def tabSbit2usbit : List Nat := %s" % vf.lean_nat_list(c["tabSbit2usbit"]))
    A("def tabSbit2ubit : List Nat := %s" % vf.lean_nat_list(c["tabSbit2ubit"]))
    A("def tabUbit2sbit : List Int := %s" % vf.lean_int_list(c["tabUbit2sbit"]))
    A("/-- `DATADump.TAG_TxMsg`, `TAG_RxMsg` (octets of the bytes objects), `HDR_LENGTH` (data_dump.py) -/")
    A("def dumpTagTx : List Nat := %s" % vf.lean_nat_list(c["dumpTagTx"]))
    A("def dumpTagRx : List Nat := %s" % vf.lean_nat_list(c["dumpTagRx"]))
    A("def dumpHdrLength : Nat := %d" % c["dumpHdrLength"])
    A("end OsmoVerif.Gen.Trxd")
    vf.write_if_changed(os.path.join(vf.LEAN, "OsmoVerif/Gen/TrxdConsts.lean"), "\n".join(L) + "\n")
    return c
