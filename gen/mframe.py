# translator (C11): multiframe tables of the firmware and of trxcon
#   src/target/firmware/layer1/mframe_sched.c  -> OsmoVerif/Gen/FwMframe.lean
#   src/host/trxcon/src/sched_mframe.c         -> OsmoVerif/Gen/TrxconMframe.lean
# Two C dumpers (harness/c/c11_fw_dump.c, harness/c/c11_trxcon_dump.c) #include the
# CURRENT .c files unchanged and print the tables as JSON; this module only turns the
# identifiers found in the sources into the dumpers' name lists and the JSON into Lean.
import json
import os
import re

from lib import vf, cbuild

FW_C = "src/target/firmware/layer1/mframe_sched.c"
FW_H = "src/target/firmware/include/layer1/mframe_sched.h"
FW_PRIM_H = "src/target/firmware/include/layer1/prim.h"
TRXCON_C = "src/host/trxcon/src/sched_mframe.c"
TRXCON_H = "src/host/trxcon/include/osmocom/bb/l1sched/l1sched.h"
TRXCON_DESC_C = "src/host/trxcon/src/sched_lchan_desc.c"
TRXCON_INC = os.path.join(vf.REPO, "src/host/trxcon/include")
SHIM_TRXCON = os.path.join(vf.ROOT, "harness/c/shim_trxcon")
SHIM_TRXSCHED = os.path.join(vf.ROOT, "harness/c/shim_trxsched")


def _strip_c_comments(src):
    src = re.sub(r"/\*.*?\*/", "", src, flags=re.S)
    return re.sub(r"//[^\n]*", "", src)


def _read(rel):
    return _strip_c_comments(open(os.path.join(vf.REPO, rel), errors="replace").read())


def _active(src):
    """drop `#if 0 ... #endif` regions (identifier lists only; the compiler decides values)"""
    out, depth, skip = [], 0, 0
    for ln in src.split("\n"):
        s = ln.strip()
        if s.startswith("#if"):
            depth += 1
            if not skip and re.match(r"#if\s+0\b", s):
                skip = depth
            continue
        if s.startswith("#endif"):
            if skip == depth:
                skip = 0
            depth -= 1
            continue
        if not skip:
            out.append(ln)
    return "\n".join(out)


def enum_names(src, enum):
    m = re.search(r"enum\s+%s\s*\{(.*?)\}" % re.escape(enum), src, re.S)
    if not m:
        raise vf.HarnessError("enum %s not found" % enum)
    names = []
    for part in m.group(1).split(","):
        part = part.strip()
        if not part:
            continue
        names.append(re.match(r"[A-Za-z_]\w*", part).group(0))
    return names


def fw_names(run):
    c = _active(_read(FW_C))
    tables = re.findall(r"static\s+const\s+struct\s+mframe_sched_item\s+(\w+)\s*\[\s*\]", c)
    tasks = enum_names(_read(FW_H), "mframe_task")
    sets = re.findall(r"extern\s+const\s+struct\s+tdma_sched_item\s+(\w+)\s*\[\s*\]", _read(FW_PRIM_H))
    inc = "".join("SET(%s)\n" % s for s in sets) + "".join("TABLE(%s)\n" % t for t in tables) + \
          "".join("TASK(%s)\n" % t for t in tasks)
    open(os.path.join(run.scratch, "c11_fw_names.inc"), "w").write(inc)
    return sets, tables, tasks


def trxcon_sources():
    """sched_mframe.c plus the files of the same directory that DEFINE the layouts[] array or frame tables in this tree"""
    d = os.path.dirname(os.path.join(vf.REPO, TRXCON_C))
    out = [os.path.join(vf.REPO, TRXCON_C)]
    for fn in sorted(os.listdir(d)):
        p = os.path.join(d, fn)
        if fn.endswith(".c") and p not in out:
            t = _active(open(p, errors="replace").read())
            if re.search(r"\bstruct\s+l1sched_tdma_multiframe\s+\w+\s*\[[^\]]*\]\s*=", t) or \
               re.search(r"\bconst\s+struct\s+l1sched_tdma_frame\s+\w+\s*\[[^\]]*\]\s*=", t):
                out.append(p)
    return out


def trxcon_names(run):
    c = "\n".join(_active(open(p, errors="replace").read()) for p in trxcon_sources())
    tables = re.findall(r"\bconst\s+struct\s+l1sched_tdma_frame\s+(\w+)\s*\[[^\]]*\]\s*=", c)
    lch = [n for n in enum_names(_read(TRXCON_H), "l1sched_lchan_type") if not n.startswith("_")]
    inc = "".join("FTABLE(%s)\n" % t for t in tables) + "".join("LCHAN(%s)\n" % n for n in lch)
    open(os.path.join(run.scratch, "c11_trxcon_names.inc"), "w").write(inc)
    return tables, lch


def sched_names(run):
    """the lchan handler functions sched_lchan_desc.c declares (the environment of sched_trx.c):
    RXFN(name) / TXFN(name) by the type of the second parameter"""
    c = _active(_read(TRXCON_DESC_C))
    rx, tx = [], []
    for m in re.finditer(r"\bint\s+(\w+)\s*\(\s*struct\s+l1sched_lchan_state\s*\*\s*\w*\s*,\s*"
                         r"(const\s+struct\s+l1sched_burst_ind|struct\s+l1sched_burst_req)\s*\*\s*\w*\s*\)\s*;", c):
        (rx if "burst_ind" in m.group(2) else tx).append(m.group(1))
    inc = "".join("RXFN(%s)\n" % n for n in rx) + "".join("TXFN(%s)\n" % n for n in tx)
    open(os.path.join(run.scratch, "c11_sched_names.inc"), "w").write(inc)
    return rx, tx


def dump_desc(run):
    sched_names(run)
    exe = os.path.join(run.scratch, "c11_lchan_desc_dump")
    cmd = ["gcc", "-O0", "-w", '-DC11_LCHAN_DESC_C="%s"' % os.path.join(vf.REPO, TRXCON_DESC_C),
           "-I", run.scratch, "-I", SHIM_TRXSCHED, "-I", SHIM_TRXCON, "-I", TRXCON_INC,
           os.path.join(vf.ROOT, "harness/c/c11_lchan_desc_dump.c"), "-o", exe]
    rc, out = vf.sh(cmd, timeout=600)
    if rc != 0:
        raise vf.HarnessError("trxcon lchan description dumper does not compile: %s" % out[-2500:])
    rc, out = vf.sh([exe], timeout=60)
    if rc != 0:
        raise vf.HarnessError("trxcon lchan description dumper failed: %s" % out[-500:])
    return json.loads(out)


def dump_fw(run):
    fw_names(run)
    exe = os.path.join(run.scratch, "c11_fw_dump")
    cmd = ["gcc", "-O0", "-w", "-DHOST_BUILD", '-DC11_MFRAME_C="%s"' % os.path.join(vf.REPO, FW_C),
           "-I", run.scratch, "-I", cbuild.SHIM, "-I", cbuild.LIBOSMO_INC, "-I", cbuild.TOP_INC,
           "-idirafter", cbuild.FW_INC,
           os.path.join(vf.ROOT, "harness/c/c11_fw_dump.c"), "-o", exe]
    rc, out = vf.sh(cmd, timeout=600)
    if rc != 0:
        # the tables cannot be read by name in this tree (members / layout of the private struct changed): reconstruct them
        # from the calls the code makes
        try:
            return dump_fw_behavioural(run)
        except vf.HarnessError as e2:
            raise vf.HarnessError("firmware table dumper does not compile: %s\n(behavioural reconstruction: %s)" % (out[-2000:], str(e2)[-800:]))
    rc, out = vf.sh([exe], timeout=60)
    if rc != 0:
        raise vf.HarnessError("firmware table dumper failed: %s" % out[-500:])
    return json.loads(out)


def dump_fw_behavioural(run):
    """the same JSON as c11_fw_dump.c prints, with canonical rows reconstructed from the recorded tdma_schedule_set() calls of
    every task over a full 51x26x8 cycle: per (sched set, flags) the smallest period the firing pattern has, one row per residue"""
    exe = os.path.join(run.scratch, "c11_fw_rtdump")
    cmd = ["gcc", "-O0", "-w", "-DHOST_BUILD", '-DC11_MFRAME_C="%s"' % os.path.join(vf.REPO, FW_C),
           "-I", run.scratch, "-I", cbuild.SHIM, "-I", os.path.join(cbuild.SHIM, "cfg/a/b"), "-I", cbuild.LIBOSMO_INC, "-I", cbuild.TOP_INC,
           "-idirafter", cbuild.FW_INC,
           os.path.join(vf.ROOT, "harness/c/c11_fw_rtdump.c"),
           os.path.join(vf.REPO, "src/shared/libosmocore/src/gsm/gsm_utils.c"), "-o", exe]
    rc, out = vf.sh(cmd, timeout=600)
    if rc != 0 and "undefined reference" in out:
        # the tables live in a file of their own next to mframe_sched.c: add the files of layer1/ that define what is missing
        import re as _re
        base = os.path.join(vf.REPO, "src/target/firmware/layer1")
        extra = []
        for sy in set(_re.findall(r"undefined reference to `([A-Za-z_]\w*)'", out)):
            for fn in sorted(os.listdir(base)):
                if fn.endswith(".c") and fn != os.path.basename(FW_C):
                    txt = _strip_c_comments(open(os.path.join(base, fn), errors="replace").read())
                    if _re.search(r"^(?!\s*extern\b)[A-Za-z_][^;{}()=]*\b%s\s*(\[[^\]]*\]\s*)*=" % _re.escape(sy), txt, _re.M):
                        extra.append(os.path.join(base, fn))
                        break
        if extra:
            rc, out = vf.sh(cmd[:-2] + sorted(set(extra)) + cmd[-2:], timeout=600)
    if rc != 0:
        raise vf.HarnessError("behavioural firmware dumper does not compile: %s" % out[-1500:])
    rc, out = vf.sh([exe], timeout=300)
    if rc != 0:
        raise vf.HarnessError("behavioural firmware dumper failed: %s" % out[-500:])
    consts, sets, tasks, ev, dead = {}, [], [], {}, set()
    for ln in out.split("\n"):
        t = ln.split()
        if not t:
            continue
        if t[0] == "C":
            consts[t[1]] = int(t[2])
        elif t[0] == "S":
            sets.append(t[1])
        elif t[0] == "T":
            tasks.append([t[1], int(t[2])])
        elif t[0] == "E":
            ev.setdefault(int(t[1]), []).append((int(t[2]), t[3], int(t[4]), int(t[5])))
        elif t[0] == "X":
            dead.add(int(t[1]))
        elif t[0] == "D":
            ev.setdefault(int(t[1]), [])         # ran to the end: a table exists, possibly without rows
    cycle = consts.pop("CYCLE")
    ahead = consts["SCHEDULE_AHEAD"]
    divisors = [d for d in range(1, cycle + 1) if cycle % d == 0]
    tables, for_task = {}, []
    ids = {v: n for n, v in tasks}
    for tid in range(0, 32):
        if tid not in ids or tid in dead or tid not in ev:
            for_task.append(None)
            continue
        groups, order = {}, []
        for fn, st, p3, off in ev[tid]:
            if st == "?" or p3 % 256 != tid or off != ahead - consts["SCHEDULE_LATENCY"]:
                raise vf.HarnessError("task %d: unexpected tdma_schedule_set(%d, %s, %d)" % (tid, off, st, p3))
            key = (st, p3 >> 8)
            if key not in groups:
                groups[key] = set()
                order.append(key)
            groups[key].add((fn + ahead) % cycle)
        rows = []
        for key in order:
            res = groups[key]
            per = next(d for d in divisors if {(r + d) % cycle for r in res} == res)
            rows += [[key[0], per, r, key[1]] for r in sorted({r % per for r in res})]
        name = "rt_" + ids[tid].lower()
        tables[name] = rows
        for_task.append(name)
    while for_task and for_task[-1] is None:
        for_task.pop()
    for_task += [None] * (32 - len(for_task))
    run.c11_fw_behavioural = True
    return {"consts": consts, "sets": sets, "tasks": tasks, "tables": tables, "sched_set_for_task": for_task}


def dump_trxcon(run):
    trxcon_names(run)
    exe = os.path.join(run.scratch, "c11_trxcon_dump")
    srcs = trxcon_sources()
    cmd = ["gcc", "-O0", "-w", '-DC11_SCHED_MFRAME_C="%s"' % srcs[0]] + \
          ['-DC11_SCHED_EXTRA%d_C="%s"' % (i + 1, p) for i, p in enumerate(srcs[1:3])] + \
          ["-I", run.scratch, "-I", SHIM_TRXCON, "-I", TRXCON_INC,
           os.path.join(vf.ROOT, "harness/c/c11_trxcon_dump.c"), "-o", exe]
    rc, out = vf.sh(cmd, timeout=600)
    if rc != 0:
        raise vf.HarnessError("trxcon table dumper does not compile: %s" % out[-2500:])
    rc, out = vf.sh([exe], timeout=60)
    if rc != 0:
        raise vf.HarnessError("trxcon table dumper failed: %s" % out[-500:])
    return json.loads(out)


def _ident(name, prefix):
    n = name[len(prefix):] if name.startswith(prefix) else name
    n = re.sub(r"\W", "_", n)
    if not re.match(r"[A-Za-z_]", n):
        n = "x" + n
    return n


def _enum(tname, ctors, doc):
    t = "/-- %s -/\ninductive %s where\n" % (doc, tname)
    t += "".join("  | %s\n" % c for c in ctors)
    t += "deriving DecidableEq, Repr\n"
    return t


def _fun(tname, fname, rtype, pairs):
    t = "def %s.%s : %s → %s\n" % (tname, fname, tname, rtype)
    t += "".join("  | .%s => %s\n" % (c, v) for c, v in pairs)
    return t


def lean_fw(d):
    sets = d["sets"]
    tasks = [(_ident(n, "MF_TASK_"), v) for n, v in d["tasks"]]
    t = "-- GENERATED from src/target/firmware/layer1/mframe_sched.c by /verif/gen/mframe.py -- do not edit\n"
    t += "namespace OsmoVerif.Gen.FwMframe\n\n"
    t += _enum("SchedSet", sets, "the TDMA sched sets an item can point to (extern arrays of layer1/prim.h; pointer identity → name)")
    t += _fun("SchedSet", "name", "String", [(s, vf.lean_str(s)) for s in sets])
    t += "def SchedSet.all : List SchedSet := [%s]\n\n" % ", ".join("." + s for s in sets)
    t += _enum("Task", [n for n, _ in tasks], "`enum mframe_task` (layer1/mframe_sched.h)")
    t += _fun("Task", "val", "Nat", [(n, str(v)) for n, v in tasks])
    t += _fun("Task", "name", "String", [(n, vf.lean_str(n)) for n, _ in tasks])
    t += "def Task.all : List Task := [%s]\n\n" % ", ".join("." + n for n, _ in tasks)
    t += "/-- `struct mframe_sched_item` (without the NULL terminator row) -/\n"
    t += "structure Item where\n  set : SchedSet\n  modulo : Nat\n  frameNr : Nat\n  flags : Nat\nderiving DecidableEq, Repr\n\n"
    for k, v in d["consts"].items():
        t += "def %s : Nat := %d\n" % (k, v)
    t += "\n"
    for name, rows in d["tables"].items():
        for r in rows:
            if r[0] not in sets:
                raise vf.HarnessError("table %s points to an unknown sched set" % name)
        t += "def %s : List Item := [%s]\n" % (
            name, ",\n  ".join("⟨.%s, %d, %d, %d⟩" % tuple(r) for r in rows))
    t += "\n/-- `sched_set_for_task[]` (index = task id); `none` = NULL -/\n"
    ent = []
    for x in d["sched_set_for_task"]:
        if x == "?":
            raise vf.HarnessError("sched_set_for_task[] points to a table the translator does not know")
        ent.append("none" if x is None else "some %s" % x)
    t += "def schedSetForTask : List (Option (List Item)) := [\n  %s]\n" % ",\n  ".join(ent)
    t += "def schedSetForTaskName : List (Option String) := [%s]\n" % ", ".join(
        "none" if x is None else "some %s" % vf.lean_str(x) for x in d["sched_set_for_task"])
    t += "\nend OsmoVerif.Gen.FwMframe\n"
    return t


def lean_trxcon(d):
    lch = [(_ident(n, "L1SCHED_"), v) for n, v in d["lchans"]]
    pch = [(_ident(n, "GSM_PCHAN_"), v) for n, v in d["pchans"]]
    lname = {v: n for n, v in lch}
    pname = {v: n for n, v in pch}
    t = "-- GENERATED from src/host/trxcon/src/sched_mframe.c by /verif/gen/mframe.py -- do not edit\n"
    t += "namespace OsmoVerif.Gen.TrxconMframe\n\n"
    t += _enum("Lchan", [n for n, _ in lch], "`enum l1sched_lchan_type` (osmocom/bb/l1sched/l1sched.h)")
    t += _fun("Lchan", "val", "Nat", [(n, str(v)) for n, v in lch])
    t += _fun("Lchan", "name", "String", [(n, vf.lean_str(n)) for n, _ in lch])
    t += "def Lchan.all : List Lchan := [%s]\n\n" % ", ".join("." + n for n, _ in lch)
    t += _enum("Pchan", [n for n, _ in pch], "`enum gsm_phys_chan_config` (libosmocore; values of the shim header, names printed by the dumper)")
    t += _fun("Pchan", "val", "Nat", [(n, str(v)) for n, v in pch])
    t += _fun("Pchan", "name", "String", [(n, vf.lean_str(n)) for n, _ in pch])
    t += "def Pchan.all : List Pchan := [%s]\n\n" % ", ".join("." + n for n, _ in pch)
    t += "/-- `struct l1sched_tdma_frame` -/\n"
    t += "structure Frame where\n  dlChan : Lchan\n  dlBid : Nat\n  ulChan : Lchan\n  ulBid : Nat\nderiving DecidableEq, Repr\n\n"
    for name, rows in d["tables"].items():
        out = []
        for i, r in enumerate(rows):
            if r[0] not in lname or r[2] not in lname:
                raise vf.HarnessError("%s[%d] uses a channel value that is no enumerator of l1sched_lchan_type" % (name, i))
            out.append("⟨.%s, %d, .%s, %d⟩" % (lname[r[0]], r[1], lname[r[2]], r[3]))
        t += "def %s : List Frame := [\n  %s]\n" % (name, ",\n  ".join(out))
    t += "\n/-- `struct l1sched_tdma_multiframe`; `frames = none` is the NULL pointer -/\n"
    t += "structure Layout where\n  config : Pchan\n  name : String\n  period : Nat\n  slotmask : Nat\n  lchanMask : Nat\n  frames : Option (List Frame)\n  framesName : String\n\n"
    ent = []
    for i, l in enumerate(d["layouts"]):
        if l["config"] not in pname:
            raise vf.HarnessError("layouts[%d] uses a chan_config value without a GSM_PCHAN_* name" % i)
        if l["frames"] == "?":
            raise vf.HarnessError("layouts[%d].frames points to a table the translator does not know" % i)
        ent.append("⟨.%s, %s, %d, %d, %d, %s, %s⟩" % (
            pname[l["config"]], vf.lean_str(l["name"]), l["period"], l["slotmask"], l["lchan_mask"],
            "none" if l["frames"] is None else "some %s" % l["frames"],
            vf.lean_str(l["frames"] or "NULL")))
    t += "def layouts : List Layout := [\n  %s]\n" % ",\n  ".join(ent)
    t += "\nend OsmoVerif.Gen.TrxconMframe\n"
    return t


def lean_desc(d):
    t = "-- GENERATED from src/host/trxcon/src/sched_lchan_desc.c and l1sched.h by /verif/gen/mframe.py -- do not edit\n"
    t += "namespace OsmoVerif.Gen.TrxconLchanDesc\n\n"
    for k, v in d["consts"].items():
        t += "def %s : Nat := %d\n" % (k, v)
    t += "\n/-- what sched_trx.c reads of `struct l1sched_lchan_desc`: `rx_fn != NULL`, `tx_fn != NULL`, `flags` -/\n"
    t += "structure Desc where\n  rx : Bool\n  tx : Bool\n  flags : Nat\n  chanNr : Nat\n  linkId : Nat\nderiving DecidableEq, Repr\n\n"
    t += "/-- `l1sched_lchan_desc[]` (index = `enum l1sched_lchan_type`) -/\n"
    t += "def lchanDesc : List Desc := [\n  %s]\n" % ",\n  ".join(
        "⟨%s, %s, %d, %d, %d⟩" % ("true" if x["rx"] else "false", "true" if x["tx"] else "false",
                                  x["flags"], x["chan_nr"], x["link_id"]) for x in d["desc"])
    t += "\nend OsmoVerif.Gen.TrxconLchanDesc\n"
    return t


def generate(run):
    """both translations; a failure of one side does not keep the other from being refreshed"""
    res, errs = {}, []
    for key, dump, lean, out in (("fw", dump_fw, lean_fw, "FwMframe"), ("trxcon", dump_trxcon, lean_trxcon, "TrxconMframe"),
                                 ("desc", dump_desc, lean_desc, "TrxconLchanDesc")):
        try:
            res[key] = dump(run)
            vf.write_if_changed(os.path.join(vf.LEAN, "OsmoVerif/Gen/%s.lean" % out), lean(res[key]))
        except Exception as e:
            errs.append("%s: %s: %s" % (key, type(e).__name__, str(e)[-1200:]))
    if errs:
        run.mf_partial = res
        raise vf.HarnessError("; ".join(errs))
    return res
