# translator: constants of the GSM-time one-shot scheduler -> OsmoVerif/Gen/SchedGsmtime.lean
# The C compiler is the parser: a small dumper #includes the UNCHANGED
# src/target/firmware/layer1/sched_gsmtime.c of the current tree (same include path and flags as the
# harness build, lib/cbuild.py: firmware_obj) and prints what the compiler sees:
#   ARRAY_SIZE(sched_gsmtime_events)        the event pool
#   SCHEDULE_AHEAD, SCHEDULE_LATENCY        (as int, after macro expansion)
#   SCHEDULE_AHEAD - SCHEDULE_LATENCY       converted to the uint8_t frame_offset parameter
#   EBUSY                                   of the <errno.h> the file is compiled with
#   widths/signedness of evt->fn, evt->p3 and of the parameters of sched_gsmtime()/sched_gsmtime_execute()
#   GSM_MAX_FN                              (osmocom/gsm/gsm_utils.h: the modulus of l1s_time_inc in sync.c and of
#                                           fn_sched = (fn + SCHEDULE_AHEAD) % GSM_MAX_FN in sched_gsmtime_execute)
import os
from lib import vf, cbuild

C_SRC = r'''
#include <stdio.h>
#include <stdint.h>
#include SCHED_GSMTIME_C
#include <osmocom/gsm/gsm_utils.h>
int tdma_schedule_set(uint8_t frame_offset, const struct tdma_sched_item *item_set, uint16_t p3) { return 0; }
#define SGN(t) ((t)-1 < (t)0 ? 1 : 0)
int main(void)
{
	struct sched_gsmtime_event e;
	/* the parameter types the model converts to (uint32_t fn, uint16_t p3; int results) */
	printf("sig_sched %d\n", __builtin_types_compatible_p(__typeof__(sched_gsmtime),
		int(const struct tdma_sched_item *, uint32_t, uint16_t)));
	printf("sig_exec %d\n", __builtin_types_compatible_p(__typeof__(sched_gsmtime_execute), int(uint32_t)));
#ifdef HAVE_EVENTS_ARRAY
	printf("events %u\n", (unsigned) ARRAY_SIZE(sched_gsmtime_events));
#else
	{
		/* the pool is not a file-scope array of this name in this tree: MEASURED - events accepted until the pool is exhausted */
		static const struct tdma_sched_item dummy[2];
		unsigned n = 0;
		sched_gsmtime_init();
		while (n < 100000 && sched_gsmtime(dummy, 1000000 + n, 0) >= 0)
			n++;
		printf("events %u\n", n);
	}
#endif
	printf("ahead %d\n", (int) (SCHEDULE_AHEAD));
	printf("latency %d\n", (int) (SCHEDULE_LATENCY));
	printf("offset %u\n", (unsigned) (uint8_t) (SCHEDULE_AHEAD-SCHEDULE_LATENCY));
	printf("ebusy %d\n", (int) EBUSY);
	printf("w_fn %u %d\n", (unsigned) sizeof(e.fn) * 8, SGN(__typeof__(e.fn)));
	printf("w_p3 %u %d\n", (unsigned) sizeof(e.p3) * 8, SGN(__typeof__(e.p3)));
	printf("w_sum %u %d\n", (unsigned) sizeof(e.fn + SCHEDULE_AHEAD) * 8, SGN(__typeof__(e.fn + SCHEDULE_AHEAD)));
	printf("w_mod %u %d\n", (unsigned) sizeof((e.fn + SCHEDULE_AHEAD) % GSM_MAX_FN) * 8, SGN(__typeof__((e.fn + SCHEDULE_AHEAD) % GSM_MAX_FN)));
	printf("max_fn %lu\n", (unsigned long) GSM_MAX_FN);
	return 0;
}
'''


def generate(run):
    src = os.path.join(run.scratch, "gen_sched_gsmtime.c")
    exe = os.path.join(run.scratch, "gen_sched_gsmtime")
    open(src, "w").write(C_SRC)
    target = os.path.join(vf.REPO, "src/target/firmware/layer1/sched_gsmtime.c")
    for probe in (["-DHAVE_EVENTS_ARRAY"], []):
        try:
            vf.cc([src], exe, flags=["-DHOST_BUILD", '-DSCHED_GSMTIME_C="%s"' % target, "-idirafter", cbuild.FW_INC] + probe +
                  (["-Wl,--unresolved-symbols=ignore-all"] if not probe else []),
                  includes=[cbuild.SHIM, cbuild.LIBOSMO_INC, cbuild.TOP_INC])
            break
        except vf.HarnessError:
            if not probe:
                raise
    rc, out = vf.sh([exe], check=True)
    kv = {}
    for ln in out.strip().split("\n"):
        t = ln.split()
        kv[t[0]] = [int(x) for x in t[1:]]
    txt = ("-- GENERATED from /repo by /verif/gen/sched_gsmtime.py -- do not edit\n"
           "namespace OsmoVerif.Gen\n"
           "/-- `ARRAY_SIZE(sched_gsmtime_events)` (layer1/sched_gsmtime.c) -/\n"
           "def sgNumEvents : Nat := %d\n"
           "/-- `SCHEDULE_AHEAD` as an `int` -/\n"
           "def sgScheduleAhead : Int := %s\n"
           "/-- `SCHEDULE_LATENCY` as an `int` -/\n"
           "def sgScheduleLatency : Int := %s\n"
           "/-- `(uint8_t) (SCHEDULE_AHEAD-SCHEDULE_LATENCY)`: the frame_offset argument of tdma_schedule_set, as the compiler converts it -/\n"
           "def sgFrameOffset : Nat := %d\n"
           "/-- `EBUSY` of the `<errno.h>` the file is compiled with -/\n"
           "def sgEBUSY : Nat := %d\n"
           "-- (bits, signed) of `evt->fn`, `evt->p3` and of the expression `evt->fn + SCHEDULE_AHEAD`\n"
           "def sgWidth_fn : Nat × Bool := (%d, %s)\n"
           "def sgWidth_p3 : Nat × Bool := (%d, %s)\n"
           "def sgWidth_sum : Nat × Bool := (%d, %s)\n"
           "-- (bits, signed) of the expression `(evt->fn + SCHEDULE_AHEAD) %% GSM_MAX_FN`\n"
           "def sgWidth_mod : Nat × Bool := (%d, %s)\n"
           "/-- `GSM_MAX_FN` (osmocom/gsm/gsm_utils.h): the modulus of the frame counter (`l1s_time_inc`, sync.c) and of `fn_sched` in `sched_gsmtime_execute` -/\n"
           "def sgGsmMaxFn : Nat := %d\n"
           "/-- `sched_gsmtime` has the type `int (const struct tdma_sched_item *, uint32_t, uint16_t)` and\n"
           "`sched_gsmtime_execute` the type `int (uint32_t)` -/\n"
           "def sgSignatures : Bool × Bool := (%s, %s)\n"
           "end OsmoVerif.Gen\n"
           % (kv["events"][0], vf.lean_int(kv["ahead"][0]), vf.lean_int(kv["latency"][0]), kv["offset"][0], kv["ebusy"][0],
              kv["w_fn"][0], "true" if kv["w_fn"][1] else "false",
              kv["w_p3"][0], "true" if kv["w_p3"][1] else "false",
              kv["w_sum"][0], "true" if kv["w_sum"][1] else "false",
              kv["w_mod"][0], "true" if kv["w_mod"][1] else "false",
              kv["max_fn"][0], "true" if kv["sig_sched"][0] else "false", "true" if kv["sig_exec"][0] else "false"))
    vf.write_if_changed(os.path.join(vf.LEAN, "OsmoVerif/Gen/SchedGsmtime.lean"), txt)
    return kv
