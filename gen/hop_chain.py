# translator / extractor for the chain part of C20 (hopping list end to end)
#
#  * pulls the CURRENT text of the glue functions out of the tree (by name + brace matching, unchanged):
#      layer23  gsm48_decode_mobile_alloc (sysinfo.c), gsm48_rr_render_ma (mobile/gsm48_rr.c), arfcn2index
#               (mobile/gsm322.c), osmo_l1_alloc + l1ctl_tx_dm_est_req_h1 (common/l1ctl.c), struct gsm48_rr_cd
#      trxcon   l1ctl_proc_est_req_h1 + l1ctl_rx_dm_est_req (trxcon/src/l1ctl.c), handle_dch_est_req (trxcon_fsm.c),
#               trxcon_phyif_handle_cmd (trxcon_main.c)
#      firmware l1ctl_rx_dm_est_req (layer1/l23_api.c)
#    into three generated C files in run.scratch (one translation unit per program: two of the functions
#    have the same name), each with the environment of its functions stubbed; harness/c/c20_glue_harness.c is
#    #included at the end of the layer23 unit;
#  * dumps the capacities / constants the glue model depends on into OsmoVerif/Gen/HopChain.lean.
import os, re
from lib import vf, cbuild
from gen import mobile_alloc

L1CTL_C = "src/host/layer23/src/common/l1ctl.c"
GSM48_RR_C = "src/host/layer23/src/mobile/gsm48_rr.c"
GSM48_RR_H = "src/host/layer23/include/osmocom/bb/mobile/gsm48_rr.h"
GSM322_C = "src/host/layer23/src/mobile/gsm322.c"
SETTINGS_H = "src/host/layer23/include/osmocom/bb/common/settings.h"
TRXCON_L1CTL_C = "src/host/trxcon/src/l1ctl.c"
TRXCON_FSM_C = "src/host/trxcon/src/trxcon_fsm.c"
TRXCON_MAIN_C = "src/host/trxcon/src/trxcon_main.c"
FW_L23_API_C = "src/target/firmware/layer1/l23_api.c"
TRXCON_INC = "src/host/trxcon/include"

GLUE_H = r'''/* what the three translation units of the glue harness exchange */
#ifndef C20_GLUE_H
#define C20_GLUE_H
#include <stdint.h>
struct glue_h1 {		/* hopping parameters as one side ends up with them */
	int called;		/* the consumer was reached */
	long long rc;		/* return code of the receiving function */
	long long hsn, maio, n;
	long long ma[256];	/* n entries (at most 256 recorded) */
};
void glue_trxcon(const uint8_t *l1ctl, unsigned int len, struct glue_h1 *out);
void glue_fw(const uint8_t *l1ctl, unsigned int len, struct glue_h1 *out);
#endif
'''

LOG_ENV = r'''
/* environment: logging is an argument sink (arguments ARE evaluated) */
enum { DRR = 1, DL1C = 2 };
#ifndef LOGL_DEBUG
enum { LOGL_DEBUG = 1, LOGL_INFO = 3, LOGL_NOTICE = 5, LOGL_ERROR = 7, LOGL_FATAL = 8 };
#endif
static volatile long glue_log_sink;
static void glue_logp(int ss, int level, const char *fmt, ...) { glue_log_sink += ss + level + (fmt != 0); }
#undef LOGP
#define LOGP(ss, level, fmt, args...) glue_logp(ss, level, fmt, ##args)
'''


def read(rel):
    return open(os.path.join(vf.REPO, rel), errors="replace").read()


C_KEYWORDS = {"if", "for", "while", "switch", "return", "sizeof", "do", "else", "defined"}


def funcs(rel, names, stubbed=()):
    """text of the named functions of a file (comments stripped first: the text of a comment is not C), each preceded by
    the static helper functions of the same file it calls (transitively) unless the environment provides them"""
    src = mobile_alloc.strip_comments(read(rel))
    seen = set(stubbed) | set(names)
    out = ""

    def helpers(text):
        res = []
        # every identifier of the body that names a static function of the file: called, or handed on as a pointer
        # (`qsort(..., cmp)`)
        body = text[text.find("{"):]
        cands = list(dict.fromkeys(re.findall(r"\b([A-Za-z_]\w*)\b", body)))
        for n in cands:
            if n in C_KEYWORDS or n in seen or n.isupper():
                continue
            if not re.search(r"\b%s\s*\(" % re.escape(n), src):
                continue                     # never followed by `(` anywhere in the file: not a function
            seen.add(n)
            h = vf.c_function(src, n)
            if h and re.search(r"\bstatic\b", h.split("{", 1)[0]):
                res += helpers(h) + [(n, h.strip())]
        return res
    for name in names:
        f = vf.c_function(src, name)
        if not f or "{" not in f:
            # moved into another file of the same directory: the file that defines it now (its static helpers come from there)
            d = os.path.dirname(os.path.join(vf.REPO, rel))
            for fn in sorted(os.listdir(d)):
                q = os.path.join(d, fn)
                if fn.endswith(".c") and q != os.path.join(vf.REPO, rel):
                    cand = mobile_alloc.strip_comments(open(q, errors="replace").read())
                    f2 = vf.c_function(cand, name)
                    if f2 and "{" in f2:
                        src, f = cand, f2
                        break
        if not f:
            raise vf.HarnessError("function %s not found in %s nor in another file of its directory" % (name, rel))
        for n, h in helpers(f):
            out += "\n/* --- %s: %s (helper) --- */\n%s\n" % (rel, n, h)
        out += "\n/* --- %s: %s --- */\n%s\n" % (rel, name, f.strip())
    return out


def func(rel, name, stubbed=()):
    return funcs(rel, [name], stubbed)


def struct(rel, name):
    m = re.search(r"struct\s+%s\s*\{.*?\n\}[^;{}]*;" % re.escape(name), mobile_alloc.strip_comments(read(rel)), re.S)
    if not m:
        raise vf.HarnessError("struct %s not found in %s" % (name, rel))
    return "\n/* --- %s --- */\n%s\n" % (rel, m.group(0))


def array_size(rel, decl_re, what):
    """the size expression of an array member, e.g. `uint8_t freq_map[128+38];`"""
    m = re.search(decl_re, mobile_alloc.strip_comments(read(rel)))
    if not m:
        raise vf.HarnessError("%s not found in %s" % (what, rel))
    expr = m.group(1).strip()
    if not re.fullmatch(r"[0-9+*() \t]+", expr):
        raise vf.HarnessError("size expression of %s not understood: %r" % (what, expr))
    return expr, int(eval(expr, {"__builtins__": {}}))


def l23_unit(run):
    ex = mobile_alloc.extract(run)
    fm_expr, _ = array_size(SETTINGS_H, r"\buint8_t\s+freq_map\s*\[([^\]]*)\]", "freq_map[]")
    txt = "/* GENERATED by /verif/gen/hop_chain.py -- extracted text is unchanged */\n"
    txt += "#include <stdint.h>\n#include <stdio.h>\n#include <stdlib.h>\n#include <string.h>\n#include <errno.h>\n#include <stdbool.h>\n"
    txt += "#include <arpa/inet.h>\n#include <osmocom/core/msgb.h>\n#include <osmocom/gsm/gsm_utils.h>\n"
    txt += "#include <osmocom/gsm/protocol/gsm_04_08.h>\n#include <l1ctl_proto.h>\n#include \"c20_glue.h\"\n"
    txt += LOG_ENV
    txt += "\n/* --- %s --- */\n%s\n%s\n" % (mobile_alloc.SYSINFO_H, "\n".join(ex["defines"]), ex["struct"])
    hopp_cap = ex.get("hopp_cap") or getattr(run, "c20_caps", {}).get("hopp_cap")
    if hopp_cap is None:
        mobile_alloc.generate(run)
        hopp_cap = ex["hopp_cap"]
    txt += "#define C20_FREQ_CAP %d\n#define C20_HOPP_CAP %d\n" % (ex["freq_cap"], hopp_cap)
    txt += r'''
/* environment of gsm48_rr_render_ma: the members it reads, sizes from the tree */
struct gsm48_sysinfo { struct gsm_sysinfo_freq freq[C20_FREQ_CAP]; };
struct gsm322_cellsel { struct gsm48_sysinfo *si; uint16_t arfcn; };
struct gsm_settings { uint8_t freq_map[%s]; };
struct osmocom_ms { struct gsm322_cellsel cellsel; struct gsm_settings settings; };
static int glue_pcs;
bool gsm_refer_pcs(uint16_t cell_arfcn, const struct gsm48_sysinfo *cell_s) { (void) cell_arfcn; (void) cell_s; return glue_pcs; }
int gsm48_decode_freq_list(struct gsm_sysinfo_freq *f, uint8_t *cd, uint8_t len, uint8_t mask, uint8_t frqt)
{ (void) f; (void) cd; (void) len; (void) mask; (void) frqt; abort(); }
const char *gsm_print_arfcn(uint16_t arfcn) { static char b[16]; snprintf(b, sizeof(b), "%%u", arfcn & 1023); return b; }
void osmo_panic(const char *fmt, ...) { (void) fmt; abort(); }
static struct msgb *glue_sent;
int osmo_send_l1(struct osmocom_ms *ms, struct msgb *msg) { (void) ms; glue_sent = msg; return 0; }
''' % fm_expr
    txt += struct(GSM48_RR_H, "gsm48_rr_cd")
    txt += func(GSM322_C, "arfcn2index")
    for h in ex.get("helpers", []):
        txt += "\n/* --- %s: helper --- */\n%s\n" % (mobile_alloc.SYSINFO_C, h)
    txt += "\n/* --- %s: %s --- */\n%s\n" % (mobile_alloc.SYSINFO_C, mobile_alloc.FUNC, ex["func"])
    txt += func(GSM48_RR_C, "gsm48_rr_render_ma")
    txt += func(L1CTL_C, "l1ctl_tx_dm_est_req_h1")            # with its static helper osmo_l1_alloc
    txt += '\n#include "%s"\n' % os.path.join(vf.ROOT, "harness/c/c20_glue_harness.c")
    return txt


def trxcon_unit(run):
    txt = "/* GENERATED by /verif/gen/hop_chain.py -- extracted text is unchanged */\n"
    txt += "#include <stdint.h>\n#include <stdio.h>\n#include <stdlib.h>\n#include <string.h>\n#include <errno.h>\n#include <stdbool.h>\n"
    txt += "#include <arpa/inet.h>\n#include <osmocom/core/fsm.h>\n#include <osmocom/core/msgb.h>\n#include <osmocom/core/utils.h>\n"
    txt += "#include <osmocom/gsm/gsm_utils.h>\n#include <l1ctl_proto.h>\n"
    txt += "#include <osmocom/bb/trxcon/trxcon.h>\n#include <osmocom/bb/trxcon/trxcon_fsm.h>\n#include <osmocom/bb/trxcon/phyif.h>\n"
    txt += "#include \"c20_glue.h\"\n"
    txt += r'''
/* environment: log category, channel mode names, the L1 scheduler (reached only AFTER the hopping parameters
 * have been handed to the PHY interface), trx_if_handle_phyif_cmd behind the real trxcon_phyif_handle_cmd (records the command) */
static int g_logc_l1c = 1;
static volatile long glue_log_sink;
void shim_log_sink(int subsys, int level, const char *file, int line, const char *fmt, ...)
{ (void) file; glue_log_sink += subsys + level + line + (fmt != 0); }
const char *shim_fsm_inst_name(const struct osmo_fsm_inst *fi) { return fi ? fi->name : "none"; }
const char *arfcn2band_name(uint16_t arfcn) { (void) arfcn; return "band"; }
const char *gsm48_chan_mode_name(uint8_t mode) { (void) mode; return "mode"; }
struct l1sched_ts { int unused; };
struct l1sched_state { struct l1sched_ts *ts[8]; };
enum gsm_phys_chan_config l1sched_chan_nr2pchan_config(uint8_t chan_nr) { (void) chan_nr; return GSM_PCHAN_SDCCH8_SACCH8C; }
void l1sched_reset(struct l1sched_state *sched, bool reset_clock) { (void) sched; (void) reset_clock; }
int l1sched_configure_ts(struct l1sched_state *sched, int tn, enum gsm_phys_chan_config config)
{ (void) sched; (void) tn; (void) config; return -1; }
void l1sched_deactivate_all_lchans(struct l1sched_ts *ts) { (void) ts; }
int l1sched_set_lchans(struct l1sched_ts *ts, uint8_t chan_nr, int active, uint8_t tch_mode, uint8_t tsc)
{ (void) ts; (void) chan_nr; (void) active; (void) tch_mode; (void) tsc; return -1; }
static struct glue_h1 *glue_out;
struct trx_instance;
int trx_if_handle_phyif_cmd(struct trx_instance *trx, const struct trxcon_phyif_cmd *cmd)
{
	unsigned int i;
	(void) trx;
	glue_out->called++;
	if (cmd->type != TRXCON_PHYIF_CMDT_SETFREQ_H1) { glue_out->hsn = -1; return 0; }
	glue_out->hsn = cmd->param.setfreq_h1.hsn;
	glue_out->maio = cmd->param.setfreq_h1.maio;
	glue_out->n = cmd->param.setfreq_h1.ma_len;
	for (i = 0; i < cmd->param.setfreq_h1.ma_len && i < 256; i++)
		glue_out->ma[i] = cmd->param.setfreq_h1.ma[i];
	return 0;
}
static void handle_dch_est_req(struct osmo_fsm_inst *fi, const struct trxcon_param_dch_est_req *req);
int osmo_fsm_inst_dispatch(struct osmo_fsm_inst *fi, uint32_t event, void *data)
{
	if (event != TRXCON_EV_DCH_EST_REQ) abort();
	handle_dch_est_req(fi, data);
	return 0;
}
'''
    txt += func(TRXCON_MAIN_C, "trxcon_phyif_handle_cmd")
    txt += func(TRXCON_L1CTL_C, "l1ctl_rx_dm_est_req", stubbed=("arfcn2band_name",))       # with its static helpers l1ctl_proc_est_req_h0 / _h1
    txt += func(TRXCON_FSM_C, "handle_dch_est_req")
    txt += r'''
void glue_trxcon(const uint8_t *l1ctl, unsigned int len, struct glue_h1 *out)
{
	static struct osmo_fsm fsm = { .name = "trxcon", .log_subsys = 0 };
	struct osmo_fsm_inst fi;
	struct trxcon_inst trxcon;
	struct l1sched_state sched;
	struct msgb *msg = msgb_alloc(len + 16, "l1ctl");
	memset(&fi, 0, sizeof(fi)); memset(&trxcon, 0, sizeof(trxcon)); memset(&sched, 0, sizeof(sched));
	fi.fsm = &fsm; fi.priv = &trxcon; fi.id = "0"; fi.name = "trxcon(0)";
	trxcon.fi = &fi; trxcon.sched = &sched;
	memset(out, 0, sizeof(*out));
	glue_out = out;
	/* the message as trxcon_l1ctl_receive() hands it on: l1h points behind struct l1ctl_hdr */
	memcpy(msgb_put(msg, len), l1ctl, len);
	msg->l1h = msg->data + sizeof(struct l1ctl_hdr);
	out->rc = l1ctl_rx_dm_est_req(&trxcon, msg);		/* frees the message */
}
'''
    return txt


def fw_unit(run):
    txt = "/* GENERATED by /verif/gen/hop_chain.py -- extracted text is unchanged */\n"
    txt += "#include <stdint.h>\n#include <stdio.h>\n#include <stdlib.h>\n#include <string.h>\n#include <arpa/inet.h>\n"
    txt += "#include <osmocom/core/msgb.h>\n#include <l1ctl_proto.h>\n#include <layer1/sync.h>\n#include \"c20_glue.h\"\n"
    txt += r'''
/* environment of l1ctl_rx_dm_est_req (firmware): everything but the copy into l1s.dedicated */
struct l1s_state l1s;
#undef printd
#define printd(fmt, args...) do { } while (0)
#undef printf
static int glue_fw_printf(const char *fmt, ...) { (void) fmt; return 0; }
#define printf glue_fw_printf
void l1a_mftask_set(uint32_t tasks) { (void) tasks; }
uint32_t chan_nr2mf_task_mask(uint8_t chan_nr, uint8_t neigh_mode) { (void) chan_nr; (void) neigh_mode; return 0; }
int l1a_tch_mode_set(uint8_t mode) { (void) mode; return 0; }
int l1a_audio_mode_set(uint8_t mode) { (void) mode; return 0; }
uint8_t l1a_tch_mode_get(void) { return 0; }
void l1a_l23api_reset_neigh(void) { }
void audio_set_enabled(uint8_t tch_mode, uint8_t audio_mode) { (void) tch_mode; (void) audio_mode; }
void mframe_disable(enum mframe_task task) { (void) task; }
void mframe_enable(enum mframe_task task) { (void) task; }
void mframe_reset(void) { }
uint8_t chan_nr2dchan_type(uint8_t chan_nr) { (void) chan_nr; return 1; }
void l1s_reset_hw(void) { }
int chan_nr_is_tch(uint8_t chan_nr) { (void) chan_nr; return 0; }
void l1a_tch_flags_set(uint8_t flags) { (void) flags; }
'''
    txt += func(FW_L23_API_C, "l1ctl_rx_dm_est_req",
                stubbed=("chan_nr2dchan_type", "chan_nr_is_tch", "chan_nr2mf_task_mask", "audio_set_enabled"))
    txt += r'''
void glue_fw(const uint8_t *l1ctl, unsigned int len, struct glue_h1 *out)
{
	unsigned int i;
	struct msgb *msg = msgb_alloc(len + 16, "l1ctl");
	memset(&l1s, 0, sizeof(l1s));
	memset(out, 0, sizeof(*out));
	memcpy(msgb_put(msg, len), l1ctl, len);
	msg->l1h = msg->data;
	l1ctl_rx_dm_est_req(msg);
	out->called = l1s.dedicated.h;
	out->hsn = l1s.dedicated.h1.hsn;
	out->maio = l1s.dedicated.h1.maio;
	out->n = l1s.dedicated.h1.n;
	for (i = 0; i < l1s.dedicated.h1.n && i < sizeof(l1s.dedicated.h1.ma) / sizeof(l1s.dedicated.h1.ma[0]); i++)
		out->ma[i] = l1s.dedicated.h1.ma[i];
	msgb_free(msg);
}
'''
    return txt


DUMP = r'''
#include <stdio.h>
#include <stdint.h>
#include <stddef.h>
#include <osmocom/gsm/gsm_utils.h>
#include <osmocom/gsm/protocol/gsm_04_08.h>
#include <l1ctl_proto.h>
int main(void)
{
	printf("%u %u %u %u %u %u\n",
	       (unsigned) (sizeof(((struct l1ctl_h1 *) 0)->ma) / sizeof(((struct l1ctl_h1 *) 0)->ma[0])),
	       (unsigned) sizeof(((struct l1ctl_h1 *) 0)->ma[0]),
	       (unsigned) ARFCN_PCS, (unsigned) ARFCN_FLAG_MASK,
	       (unsigned) GSM48_RR_CAUSE_NO_CELL_ALLOC_A, (unsigned) GSM48_RR_CAUSE_FREQ_NOT_IMPL);
	return 0;
}
'''


def generate(run):
    """Gen/HopChain.lean: capacities and constants of the glue, from the current tree"""
    src = os.path.join(run.scratch, "gen_hop_chain.c")
    exe = os.path.join(run.scratch, "gen_hop_chain")
    open(src, "w").write(DUMP)
    vf.cc([src], exe, includes=[cbuild.LIBOSMO_INC, cbuild.TOP_INC])
    rc, out = vf.sh([exe], check=True)
    l1ctl_cap, l1ctl_elem, pcs, flagmask, c_noca, c_notimpl = [int(x) for x in out.split()]
    _, fm = array_size(SETTINGS_H, r"\buint8_t\s+freq_map\s*\[([^\]]*)\]", "freq_map[]")
    _, lv = array_size(GSM48_RR_H, r"\buint8_t\s+mob_alloc_lv\s*\[([^\]]*)\]", "mob_alloc_lv[]")
    hdr = mobile_alloc.strip_comments(read(os.path.join(TRXCON_INC, "osmocom/bb/trxcon/trxcon_fsm.h")))
    m = re.search(r"struct\s+trxcon_param_dch_est_req\s*\{.*?\buint16_t\s+ma\s*\[([^\]]*)\]", hdr, re.S)
    if not m:
        raise vf.HarnessError("ma[] of struct trxcon_param_dch_est_req not found")
    trxcon_cap = int(eval(m.group(1), {"__builtins__": {}}))
    txt = ("-- GENERATED from /repo by /verif/gen/hop_chain.py -- do not edit\n"
           "namespace OsmoVerif.Gen.HopChain\n"
           "/-- entries of `struct l1ctl_h1.ma[]` (include/l1ctl_proto.h) and octets per entry -/\n"
           "def l1ctlMaCap : Nat := %d\n"
           "def l1ctlMaElem : Nat := %d\n"
           "/-- entries of `struct trxcon_param_dch_est_req.h1.ma[]` (trxcon_fsm.h) -/\n"
           "def trxconMaCap : Nat := %d\n"
           "/-- octets of `struct gsm_settings.freq_map[]` (settings.h) -/\n"
           "def freqMapSize : Nat := %d\n"
           "/-- octets of `struct gsm48_rr_cd.mob_alloc_lv[]` (gsm48_rr.h) -/\n"
           "def mobAllocLvSize : Nat := %d\n"
           "/-- `ARFCN_PCS`, `ARFCN_FLAG_MASK` (gsm_utils.h) -/\n"
           "def arfcnPcs : Nat := %d\n"
           "def arfcnFlagMask : Nat := %d\n"
           "/-- `GSM48_RR_CAUSE_NO_CELL_ALLOC_A`, `GSM48_RR_CAUSE_FREQ_NOT_IMPL` (gsm_04_08.h) -/\n"
           "def causeNoCellAllocA : Nat := %d\n"
           "def causeFreqNotImpl : Nat := %d\n"
           "end OsmoVerif.Gen.HopChain\n") % (l1ctl_cap, l1ctl_elem, trxcon_cap, fm, lv, pcs, flagmask, c_noca, c_notimpl)
    vf.write_if_changed(os.path.join(vf.LEAN, "OsmoVerif/Gen/HopChain.lean"), txt)
    return {"l1ctlMaCap": l1ctl_cap, "trxconMaCap": trxcon_cap, "freqMapSize": fm, "mobAllocLvSize": lv}
