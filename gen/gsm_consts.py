# translator: GSM time constants of both code bases -> OsmoVerif/Gen/GsmConsts.lean
import os, subprocess, json
from lib import vf

C_SRC = r'''
#include <stdio.h>
#include <osmocom/gsm/gsm_utils.h>
int main(void) { printf("%lu\n", (unsigned long) GSM_MAX_FN); return 0; }
'''

def generate(run):
    src = os.path.join(run.scratch, "gen_gsm_consts.c")
    exe = os.path.join(run.scratch, "gen_gsm_consts")
    open(src, "w").write(C_SRC)
    vf.cc([src], exe, includes=[os.path.join(vf.REPO, "src/shared/libosmocore/include")])
    rc, out = vf.sh([exe], check=True)
    c_max = int(out.strip())
    rc, out = vf.sh([vf.PY, "-c",
        "import sys, json; sys.path.insert(0, %r); import gsm_shared as g; "
        "print(json.dumps([g.GSM_HYPERFRAME, g.GSM_SUPERFRAME]))" % vf.TRX], check=True)
    hyper, sup = json.loads(out.strip().split("\n")[-1])
    txt = ("-- GENERATED from /repo by /verif/gen/gsm_consts.py -- do not edit\n"
           "namespace OsmoVerif.Gen\n"
           "/-- `GSM_MAX_FN` (src/shared/libosmocore/include/osmocom/gsm/gsm_utils.h), evaluated by the C compiler -/\n"
           "def cGsmMaxFn : Nat := %d\n"
           "/-- `GSM_HYPERFRAME` (src/target/trx_toolkit/gsm_shared.py), evaluated by the interpreter -/\n"
           "def pyGsmHyperframe : Nat := %d\n"
           "/-- `GSM_SUPERFRAME` -/\n"
           "def pyGsmSuperframe : Nat := %d\n"
           "end OsmoVerif.Gen\n") % (c_max, hyper, sup)
    vf.write_if_changed(os.path.join(vf.LEAN, "OsmoVerif/Gen/GsmConsts.lean"), txt)
    return {"cGsmMaxFn": c_max, "pyGsmHyperframe": hyper, "pyGsmSuperframe": sup}
