# translator: what DATAInterface.recv_tx_msg / recv_rx_msg (data_if.py) ask of the socket and which exception
#             classes of the message parser they swallow  -> OsmoVerif/Gen/TrxdIf.lean
# Everything is OBSERVED on the live objects of the current tree (no source pattern matching): the size
# handed to sock.recvfrom(), the default header version of a new interface, and - by letting a stand-in
# message class raise each exception class of the model from parse_msg() - whether the call returns None
# or lets the exception out.
import json, os
from lib import vf

PROBE = r'''
import sys, json, struct
sys.path.insert(0, sys.argv[1])
import logging
logging.disable(logging.CRITICAL)
import data_if, data_msg

class Sock:
    def __init__(self):
        self.asked = None
    def recvfrom(self, n):
        self.asked = n
        return b"\x00" * 8, ("127.0.0.1", 1)
    def sendto(self, data, remote):
        pass
    def getsockname(self):
        return ("127.0.0.1", 0)
    def close(self):
        pass

# the interface is built by the real DATAInterface.__init__; only the UDP socket of UDPLink is replaced
import udp_link
def _link_init(self, remote_addr, remote_port, bind_addr = '0.0.0.0', bind_port = 0):
    self.sock = Sock()
    self.remote_addr = remote_addr
    self.remote_port = remote_port
udp_link.UDPLink.__init__ = _link_init

def make_if():
    return data_if.DATAInterface("127.0.0.1", 5702, "0.0.0.0", 0)

CLASSES = [("ValueError", ValueError), ("error", struct.error), ("IndexError", IndexError),
           ("TypeError", TypeError), ("AttributeError", AttributeError)]

def catches(meth, clsname):
    out = []
    for name, exc in CLASSES:
        called = []
        real = getattr(data_if, clsname)
        class Raising(real):
            def parse_msg(self, msg):
                called.append(1)
                raise exc("injected")
        setattr(data_if, clsname, Raising)
        try:
            dif = make_if()
            try:
                getattr(dif, meth)()
                caught = True
            except exc:
                caught = False
        finally:
            setattr(data_if, clsname, real)
        if not called:
            raise SystemExit("%s does not build its message from data_if.%s: cannot observe the except clause" % (meth, clsname))
        out.append([name, caught])
    return out

dif = make_if()
_hv = [k for k in vars(dif) if k == "_hdr_ver"] or [k for k in vars(dif) if "hdr_ver" in k]
d = {"default_hdr_ver": getattr(dif, _hv[0])}
dif.recv_tx_msg(); d["tx_recv"] = dif.sock.asked
dif.sock.asked = None
dif.recv_rx_msg(); d["rx_recv"] = dif.sock.asked
d["tx_catches"] = catches("recv_tx_msg", "TxMsg")
d["rx_catches"] = catches("recv_rx_msg", "RxMsg")
print(json.dumps(d))
'''


def dump(run):
    src = os.path.join(run.scratch, "gen_trxd_if.py")
    with open(src, "w") as f:
        f.write(PROBE)
    rc, out = vf.sh([vf.PY, src, vf.TRX], check=True)
    return json.loads(out.strip().split("\n")[-1])


def generate(run):
    d = dump(run)
    tab = lambda xs: "[" + ", ".join("(%s, %s)" % (vf.lean_str(n), "true" if c else "false") for n, c in xs) + "]"
    L = [
        "-- GENERATED from /repo by /verif/gen/trxd_if.py -- do not edit",
        "-- source: src/target/trx_toolkit/data_if.py (observed on the live DATAInterface of the current tree)",
        "namespace OsmoVerif.Gen.TrxdIf",
        "/-- `self._hdr_ver` of a new `DATAInterface` -/",
        "def defaultHdrVer : Int := %s" % vf.lean_int(d["default_hdr_ver"]),
        "/-- the size `recv_tx_msg` / `recv_rx_msg` hand to `sock.recvfrom()` (through `recv_raw_data`) -/",
        "def txRecvSize : Nat := %d" % d["tx_recv"],
        "def rxRecvSize : Nat := %d" % d["rx_recv"],
        "/-- for every exception class of the model (`type(e).__name__`): does the `try: ... except` around",
        "`parse_msg` in `recv_tx_msg` / `recv_rx_msg` swallow it (observed by raising it from the parser) -/",
        "def txCatches : List (String × Bool) := %s" % tab(d["tx_catches"]),
        "def rxCatches : List (String × Bool) := %s" % tab(d["rx_catches"]),
        "end OsmoVerif.Gen.TrxdIf",
    ]
    vf.write_if_changed(os.path.join(vf.LEAN, "OsmoVerif/Gen/TrxdIf.lean"), "\n".join(L) + "\n")
    return d
