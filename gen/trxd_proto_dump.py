# runs inside the repo's interpreter: imports the LIVE trxd_proto module and prints the
# introspected definitions (AST of lib/codecdef.py) as JSON.   argv: <toolkit dir> <verif root>
import sys, json
sys.path.insert(0, sys.argv[1])
sys.path.insert(0, sys.argv[2])
import codec, trxd_proto, data_msg
from lib import codecdef as cd

CLASSES = ["PDUv0Rx", "PDUv0Tx", "PDUv1Rx", "PDUv1Tx", "PDUv2Rx", "PDUv2Tx"]

def enc(o):
    if isinstance(o, bytes):
        return {"__bytes__": o.hex()}
    raise TypeError(type(o))

out = {"classes": {}, "mts_burst_len": {}}
for name in CLASSES:
    cls = getattr(trxd_proto, name)
    out["classes"][name] = cd.introspect_env(codec, cls())
for m in range(-2, 40):
    try:
        out["mts_burst_len"][str(m)] = trxd_proto.MTS.get_burst_len(m)
    except ValueError:
        out["mts_burst_len"][str(m)] = None
out["msg_modulations"] = [[m.name, m.coding, m.bl] for m in data_msg.Modulation]
print(json.dumps(out, default=enc))
