# translator: the two RNTABLE copies of the code base -> OsmoVerif/Gen/Hopping.lean
#   * Python: gsm_shared.HoppingParams.RNTABLE, read from the live module
#   * C: `static uint8_t rn_table[114]` of firmware/layer1/rfch.c, printed by a dumper that
#     #includes the unchanged source file (the C compiler is the parser)
import json, os
from lib import vf, cbuild

C_SRC = r'''
#include <stdio.h>
#include "%s"
struct l1s_state l1s;
int main(void)
{
	unsigned i, n = sizeof(%s) / sizeof(%s[0]);
	printf("%%u %%u\n", n, (unsigned) sizeof(%s[0]));
	for (i = 0; i < n; i++)
		printf("%%u\n", (unsigned) %s[i]);
	printf("%%u\n", (unsigned) (sizeof(l1s.dedicated.h1.ma) / sizeof(l1s.dedicated.h1.ma[0])));
	return 0;
}
'''


C_SRC_CAP = r'''
#include <stdio.h>
#include "%s"
struct l1s_state l1s;
int main(void)
{
	printf("%%u\n", (unsigned) (sizeof(l1s.dedicated.h1.ma) / sizeof(l1s.dedicated.h1.ma[0])));
	return 0;
}
'''


def c_flags():
    cmd = ["-DHOST_BUILD"]
    for i in (cbuild.SHIM, cbuild.LIBOSMO_INC, cbuild.TOP_INC):
        cmd += ["-I", i]
    cmd += ["-idirafter", cbuild.FW_INC]
    return cmd


def names(run):
    """what the translation unit of rfch.c defines, found in the PREPROCESSED text (so a definition moved into a header, or
    renamed, is found where the compiler finds it): the RNTABLE copy = the array initialised with 114 integer constants
    (under the name rn_table, or the only such array), and whether the static helpers the harness can call directly exist"""
    if getattr(run, "hop_names", None):
        return run.hop_names
    rfch = os.path.join(vf.REPO, "src/target/firmware/layer1/rfch.c")
    rc, txt = vf.sh(["gcc", "-E", "-P"] + c_flags() + [rfch])
    if rc != 0:
        raise vf.HarnessError("rfch.c does not preprocess: %s" % txt[-1500:])
    import re
    tables, values, widths = [], {}, {}
    for m in re.finditer(r"\b([A-Za-z_]\w*)\s*\[[^\]]*\]\s*=\s*\{([^{}]*)\}", txt):
        items = [x for x in m.group(2).replace("\n", " ").split(",") if x.strip()]
        if len(items) == 114 and all(re.fullmatch(r"\s*(0[xX][0-9a-fA-F]+|\d+)[uUlL]*\s*", x) for x in items):
            tables.append(m.group(1))
            values[m.group(1)] = [int(re.sub(r"[uUlL]", "", x.strip()), 0) for x in items]
            head = txt[max(0, m.start() - 120):m.start()]
            widths[m.group(1)] = 1 if re.search(r"\b(uint8_t|int8_t|unsigned\s+char|char)\b[^;{}]*$", head) else (2 if re.search(r"\b(uint16_t|int16_t|short)\b[^;{}]*$", head) else 4)
    table = "rn_table" if "rn_table" in tables else (tables[0] if len(set(tables)) == 1 else None)
    if table is None:
        raise vf.HarnessError("the RNTABLE copy of rfch.c (an array of 114 integer constants) was not found in its translation unit: %r" % tables)
    defined = lambda f: re.search(r"\b%s\s*\([^;{}]*\)\s*\{" % f, txt) is not None
    run.hop_names = {"table": table, "seq_gen": defined("rfch_hop_seq_gen"), "pnm": defined("pow_nbin_mask"),
                     "values": values[table], "width": widths[table]}
    return run.hop_names


def generate(run):
    rfch = os.path.join(vf.REPO, "src/target/firmware/layer1/rfch.c")
    src = os.path.join(run.scratch, "gen_hopping.c")
    exe = os.path.join(run.scratch, "gen_hopping")
    nm = names(run)
    tname = nm["table"]
    with open(src, "w") as f:
        f.write(C_SRC % (rfch, tname, tname, tname, tname))
    try:
        vf.cc([src], exe, flags=c_flags())
        rc, out = vf.sh([exe], check=True)
        nums = out.split()
        n, width = int(nums[0]), int(nums[1])
        fw = [int(x) for x in nums[2:2 + n]]
        ma_cap = int(nums[2 + n])
    except vf.HarnessError:
        # the table is not visible at file scope (e.g. a function-local static): its 114 initialisers were read from the
        # preprocessed text; only the capacity of ma[] is asked of the compiler
        with open(src, "w") as f:
            f.write(C_SRC_CAP % rfch)
        vf.cc([src], exe, flags=c_flags())
        rc, out = vf.sh([exe], check=True)
        fw, width, ma_cap = nm["values"], nm["width"], int(out.split()[0])
    rc, out = vf.sh([vf.PY, "-c",
        "import sys, json; sys.path.insert(0, %r); import gsm_shared as g; "
        "print(json.dumps([int(x) for x in g.HoppingParams.RNTABLE]))" % vf.TRX], check=True)
    py = json.loads(out.strip().split("\n")[-1])
    txt = ("-- GENERATED from /repo by /verif/gen/hopping.py -- do not edit\n"
           "namespace OsmoVerif.Gen\n"
           "/-- `HoppingParams.RNTABLE` (src/target/trx_toolkit/gsm_shared.py), read from the live module -/\n"
           "def pyRntable : List Nat := %s\n"
           "/-- `rn_table[]` (src/target/firmware/layer1/rfch.c), printed by the C compiler's view of the file -/\n"
           "def fwRnTable : List Nat := %s\n"
           "/-- `sizeof(rn_table[0])` -/\n"
           "def fwRnTableElemSize : Nat := %d\n"
           "/-- number of elements of `l1s.dedicated.h1.ma[]` (layer1/sync.h) -/\n"
           "def fwMaCapacity : Nat := %d\n"
           "end OsmoVerif.Gen\n") % (vf.lean_nat_list(py), vf.lean_nat_list(fw), width, ma_cap)
    vf.write_if_changed(os.path.join(vf.LEAN, "OsmoVerif/Gen/Hopping.lean"), txt)
    return {"pyRntable": py, "fwRnTable": fw, "fwMaCapacity": ma_cap}
