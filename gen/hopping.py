# translator: the two RNTABLE copies of the code base -> OsmoVerif/Gen/Hopping.lean
#   * Python: gsm_shared.HoppingParams.RNTABLE, read from the live module
#   * C: `static uint8_t rn_table[114]` of firmware/layer1/rfch.c, printed by a dumper that
#     #includes the unchanged source file (the C compiler is the parser)
import json, os
from lib import vf, cbuild

C_SRC = r'''
#include <stdio.h>
#include "%s"
struct l1s_state l1s;
int main(void)
{
	unsigned i, n = sizeof(rn_table) / sizeof(rn_table[0]);
	printf("%%u %%u\n", n, (unsigned) sizeof(rn_table[0]));
	for (i = 0; i < n; i++)
		printf("%%u\n", (unsigned) rn_table[i]);
	printf("%%u\n", (unsigned) (sizeof(l1s.dedicated.h1.ma) / sizeof(l1s.dedicated.h1.ma[0])));
	return 0;
}
'''


def c_flags():
    cmd = ["-DHOST_BUILD"]
    for i in (cbuild.SHIM, cbuild.LIBOSMO_INC, cbuild.TOP_INC):
        cmd += ["-I", i]
    cmd += ["-idirafter", cbuild.FW_INC]
    return cmd


def generate(run):
    rfch = os.path.join(vf.REPO, "src/target/firmware/layer1/rfch.c")
    src = os.path.join(run.scratch, "gen_hopping.c")
    exe = os.path.join(run.scratch, "gen_hopping")
    with open(src, "w") as f:
        f.write(C_SRC % rfch)
    vf.cc([src], exe, flags=c_flags())
    rc, out = vf.sh([exe], check=True)
    nums = out.split()
    n, width = int(nums[0]), int(nums[1])
    fw = [int(x) for x in nums[2:2 + n]]
    ma_cap = int(nums[2 + n])
    rc, out = vf.sh([vf.PY, "-c",
        "import sys, json; sys.path.insert(0, %r); import gsm_shared as g; "
        "print(json.dumps([int(x) for x in g.HoppingParams.RNTABLE]))" % vf.TRX], check=True)
    py = json.loads(out.strip().split("\n")[-1])
    txt = ("-- GENERATED from /repo by /verif/gen/hopping.py -- do not edit\n"
           "namespace OsmoVerif.Gen\n"
           "/-- `HoppingParams.RNTABLE` (src/target/trx_toolkit/gsm_shared.py), read from the live module -/\n"
           "def pyRntable : List Nat := %s\n"
           "/-- `rn_table[]` (src/target/firmware/layer1/rfch.c), printed by the C compiler's view of the file -/\n"
           "def fwRnTable : List Nat := %s\n"
           "/-- `sizeof(rn_table[0])` -/\n"
           "def fwRnTableElemSize : Nat := %d\n"
           "/-- number of elements of `l1s.dedicated.h1.ma[]` (layer1/sync.h) -/\n"
           "def fwMaCapacity : Nat := %d\n"
           "end OsmoVerif.Gen\n") % (vf.lean_nat_list(py), vf.lean_nat_list(fw), width, ma_cap)
    vf.write_if_changed(os.path.join(vf.LEAN, "OsmoVerif/Gen/Hopping.lean"), txt)
    return {"pyRntable": py, "fwRnTable": fw, "fwMaCapacity": ma_cap}
