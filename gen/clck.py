# translator: constants of the clock generator of the current tree -> OsmoVerif/Gen/Clck.lean
# All values are taken from the running code (harness/py/clck_harness.py --dump):
#   tTickNs      spacing of the ticks the REAL `_worker` fires under the virtual clock with a
#                zero-cost handler, i.e. the `t_tick` the code computes (not a re-evaluation of
#                its expression)
#   clckWrap     modulus of `clck_src = (clck_src + 1) % ...`, measured by bisection on the
#                real send_clck_ind
#   gsmHyperframe, defaultIndPeriod, defaultStart   values the interpreter holds
#   indPrefix / indSuffix   octets around the decimal frame number of a real indication
import json, os
from lib import vf


def generate(run):
    rc, out = vf.sh([vf.PY, os.path.join(vf.ROOT, "harness/py/clck_harness.py"), vf.TRX, "--dump"],
                    check=True, timeout=120)
    d = json.loads(out.strip().split("\n")[-1])
    txt = ("-- GENERATED from /repo by /verif/gen/clck.py -- do not edit\n"
           "namespace OsmoVerif.Gen\n"
           "/-- `t_tick` of `CLCKGen._worker` in ns: measured spacing of zero-cost ticks of the real worker under the virtual clock -/\n"
           "def tTickNs : Nat := %d\n"
           "/-- virtual time from worker entry to the first tick -/\n"
           "def clckFirstOffsetNs : Nat := %d\n"
           "/-- modulus of the counter increment in `send_clck_ind`, measured on the real code -/\n"
           "def clckWrap : Nat := %d\n"
           "/-- `GSM_HYPERFRAME` as seen from clck_gen.py -/\n"
           "def clckGsmHyperframe : Nat := %d\n"
           "/-- default `ind_period` / `clck_start` of `CLCKGen.__init__` -/\n"
           "def clckDefaultIndPeriod : Nat := %d\n"
           "def clckDefaultStart : Nat := %d\n"
           "/-- octets before / after the decimal frame number in the indication payload -/\n"
           "def clckIndPrefix : List Nat := %s\n"
           "def clckIndSuffix : List Nat := %s\n"
           "end OsmoVerif.Gen\n") % (
        d["tTickNs"], d["firstOffsetNs"], d["clckWrap"], d["gsmHyperframe"],
        d["defaultIndPeriod"], d["defaultStart"],
        vf.lean_nat_list(d["indPrefix"]), vf.lean_nat_list(d["indSuffix"]))
    vf.write_if_changed(os.path.join(vf.LEAN, "OsmoVerif/Gen/Clck.lean"), txt)
    return d
