# translator: constants of the fake_trx world -> OsmoVerif/Gen/World.lean
import json, os, sys
from lib import vf

PROBE = r'''
import sys, json
sys.path.insert(0, sys.argv[1]); sys.path.insert(0, sys.argv[2])
sys.argv = [sys.argv[0], sys.argv[1]]
import world_harness as wh
import fake_trx, clck_gen, gsm_shared, data_msg, inspect
F = fake_trx.FakeTRX
# the wiring is OBSERVED on a world built by the real Application.__init__ (no source pattern matching):
# FakePM ranges, child management of BTS / MS, and the receive sizes asked of the sockets
app = wh.build([])
bts, ms = app.trx_list.trx_list[0], app.trx_list.trx_list[1]
asked = {}
class Spy(wh.FakeSocket):
    def recvfrom(self, n):
        asked[self.tag] = n
        return b"", ("127.0.0.1", 1)
for tag, link in (("ctrl", bts.ctrl_if), ("data", bts.data_if)):
    link.sock.__class__ = Spy
    link.sock.tag = tag
try:
    bts.ctrl_if.handle_rx()
except Exception:
    pass
try:
    bts.recv_data_msg()
except Exception:
    pass
pm = app.fake_pm
d = {"fake_pm_args": [pm.noise_min, pm.noise_max, pm.trx_min, pm.trx_max],
     "append_trx_kwargs": [{"child_mgt": bool(bts.child_mgt)}, {"child_mgt": bool(ms.child_mgt)}],
     "ctrl_recv": asked["ctrl"], "data_recv": asked["data"]}
app.clck_gen.stop()          # a no-op when no worker thread exists
d.update({
  "nominal_tx_power": F.NOMINAL_TX_POWER_DEFAULT, "tx_att": F.TX_ATT_DEFAULT, "path_loss": F.PATH_LOSS_DEFAULT,
  "toa256_base": F.TOA256_BASE_DEFAULT, "ci_base": F.CI_BASE_DEFAULT,
  "toa256_noise": F.TOA256_NOISE_DEFAULT, "rssi_noise": F.RSSI_NOISE_DEFAULT, "ci_noise": F.CI_NOISE_DEFAULT,
  "hyperframe": gsm_shared.GSM_HYPERFRAME,
  "trxc_delay_max_ms": F.TRXC_DELAY_MAX_MS,
})
sig = inspect.signature(clck_gen.CLCKGen.__init__)
d["ind_period"] = app.clck_gen.ind_period
d["clck_start"] = app.clck_gen.clck_start
bt = {b: i for i, b in enumerate(gsm_shared.BurstType)}
d["burst_types"] = [b.name for b in gsm_shared.BurstType]
d["train_seqs"] = [[ts.name, ts.tsc, ts.bt.name, list(ts.seq), ts.tsc_set] for ts in list(gsm_shared.TrainingSeqGMSK)]
import rand_burst_gen
d["dummy_burst"] = [int(x) for x in rand_burst_gen.RandBurstGen().gen_db()]   # through the public generator method, wherever the table lives
print(json.dumps(d))
'''


def generate(run):
    rc, out = vf.sh([vf.PY, "-c", PROBE, vf.TRX, os.path.join(vf.ROOT, "harness/py")], check=True)
    d = json.loads(out.strip().split("\n")[-1])
    kw = d["append_trx_kwargs"]
    assert len(kw) == 2, "Application.__init__ is expected to create exactly BTS and MS"
    L = ["-- GENERATED from /repo by /verif/gen/world.py -- do not edit",
         "namespace OsmoVerif.Gen.World",
         "def ctrlRecvSize : Nat := %d" % d["ctrl_recv"],
         "def dataRecvSize : Nat := %d" % d["data_recv"],
         "def fakePmNoiseMin : Int := %s" % vf.lean_int(d["fake_pm_args"][0]),
         "def fakePmNoiseMax : Int := %s" % vf.lean_int(d["fake_pm_args"][1]),
         "def fakePmTrxMin : Int := %s" % vf.lean_int(d["fake_pm_args"][2]),
         "def fakePmTrxMax : Int := %s" % vf.lean_int(d["fake_pm_args"][3]),
         "def btsChildMgt : Bool := %s" % str(kw[0].get("child_mgt", True)).lower(),
         "def msChildMgt : Bool := %s" % str(kw[1].get("child_mgt", True)).lower(),
         "def nominalTxPower : Int := %s" % vf.lean_int(d["nominal_tx_power"]),
         "def txAttDefault : Int := %s" % vf.lean_int(d["tx_att"]),
         "def pathLoss : Int := %s" % vf.lean_int(d["path_loss"]),
         "def toa256BaseDefault : Int := %s" % vf.lean_int(d["toa256_base"]),
         "def ciBaseDefault : Int := %s" % vf.lean_int(d["ci_base"]),
         "def toa256Noise : Int := %s" % vf.lean_int(d["toa256_noise"]),
         "def rssiNoise : Int := %s" % vf.lean_int(d["rssi_noise"]),
         "def ciNoise : Int := %s" % vf.lean_int(d["ci_noise"]),
         "def hyperframe : Nat := %d" % d["hyperframe"],
         "def trxcDelayMaxMs : Int := %s" % vf.lean_int(d["trxc_delay_max_ms"]),
         "def indPeriod : Nat := %d" % d["ind_period"],
         "def clckStart : Nat := %d" % d["clck_start"],
         "/-- burst type names, index = position in `list(BurstType)` -/",
         "def burstTypes : List String := [%s]" % ", ".join(vf.lean_str(b) for b in d["burst_types"]),
         "/-- `list(TrainingSeqGMSK)`: (name, tsc, burst type name, bits, tsc_set) in enumeration order -/",
         "def trainSeqs : List (String × Nat × String × List Nat × Nat) := ["]
    L.append(",\n".join("  (%s, %d, %s, %s, %d)" % (vf.lean_str(n), tsc, vf.lean_str(bt), vf.lean_nat_list(seq), ts)
                        for n, tsc, bt, seq, ts in d["train_seqs"]))
    L += ["]",
          "/-- `RandBurstGen.db_bits` (rand_burst_gen.py) -/",
          "def dummyBurst : List Nat := %s" % vf.lean_nat_list(d["dummy_burst"]),
          "end OsmoVerif.Gen.World", ""]
    vf.write_if_changed(os.path.join(vf.LEAN, "OsmoVerif/Gen/World.lean"), "\n".join(L))
    return d
