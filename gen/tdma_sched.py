# translator: TDMA scheduler constants of the firmware -> OsmoVerif/Gen/TdmaSched.lean
# The C compiler is the parser: the header from the current tree is #included by a
# small dumper, which prints the ring depth, bucket capacity, the field widths of
# struct tdma_sched_item / tdma_sched_bucket / tdma_scheduler and what the
# SCHED_END_FRAME() / SCHED_END_SET() / SCHED_ITEM() / SCHED_ITEM_DT() macros expand to.
import os
from lib import vf

C_SRC = r'''
#include <stdio.h>
#include <stdint.h>
#include <string.h>
#include <layer1/tdma_sched.h>
int tdma_end_set(uint8_t p1, uint8_t p2, uint16_t p3) { return 0; }
static int other_cb(uint8_t p1, uint8_t p2, uint16_t p3) { return 0; }
static const struct tdma_sched_item probe[] = {
	SCHED_END_FRAME(),
	SCHED_END_SET(),
	SCHED_ITEM(other_cb, -7, 11, 13),
	SCHED_ITEM_DT(other_cb, 5, 17, 19),
};
static int kind(tdma_sched_cb *cb) { return cb == NULL ? 0 : cb == &tdma_end_set ? 1 : 2; }
#define SGN(t) ((t)-1 < (t)0 ? 1 : 0)
int main(void)
{
	struct tdma_scheduler s; struct tdma_sched_item it; struct tdma_sched_bucket b;
	unsigned i;
	printf("frames %u\n", (unsigned) (sizeof(s.bucket) / sizeof(s.bucket[0])));
	printf("cbs %u\n", (unsigned) (sizeof(b.item) / sizeof(b.item[0])));
	printf("macro_frames %u\n", (unsigned) TDMASCHED_NUM_FRAMES);
	printf("macro_cbs %u\n", (unsigned) TDMASCHED_NUM_CB);
	printf("w_p1 %u %d\n", (unsigned) sizeof(it.p1) * 8, SGN(__typeof__(it.p1)));
	printf("w_p2 %u %d\n", (unsigned) sizeof(it.p2) * 8, SGN(__typeof__(it.p2)));
	printf("w_p3 %u %d\n", (unsigned) sizeof(it.p3) * 8, SGN(__typeof__(it.p3)));
	printf("w_prio %u %d\n", (unsigned) sizeof(it.prio) * 8, SGN(__typeof__(it.prio)));
	printf("w_flags %u %d\n", (unsigned) sizeof(it.flags) * 8, SGN(__typeof__(it.flags)));
	printf("w_num_items %u %d\n", (unsigned) sizeof(b.num_items) * 8, SGN(__typeof__(b.num_items)));
	printf("w_cur_bucket %u %d\n", (unsigned) sizeof(s.cur_bucket) * 8, SGN(__typeof__(s.cur_bucket)));
	for (i = 0; i < 4; i++)
		printf("probe%u %d %u %u %u %d %u\n", i, kind(probe[i].cb), probe[i].p1, probe[i].p2,
		       probe[i].p3, probe[i].prio, probe[i].flags);
	return 0;
}
'''

NAMES = ["tdmaEndFrame", "tdmaEndSet", "tdmaProbeItem", "tdmaProbeItemDt"]
DOC = ["`SCHED_END_FRAME()`", "`SCHED_END_SET()`", "`SCHED_ITEM(other_cb, -7, 11, 13)`", "`SCHED_ITEM_DT(other_cb, 5, 17, 19)`"]


def generate(run):
    src = os.path.join(run.scratch, "gen_tdma_sched.c")
    exe = os.path.join(run.scratch, "gen_tdma_sched")
    open(src, "w").write(C_SRC)
    vf.cc([src], exe, flags=["-idirafter", os.path.join(vf.REPO, "src/target/firmware/include")])
    rc, out = vf.sh([exe], check=True)
    kv = {}
    for ln in out.strip().split("\n"):
        t = ln.split()
        kv[t[0]] = [int(x) for x in t[1:]]
    txt = ("-- GENERATED from /repo by /verif/gen/tdma_sched.py -- do not edit\n"
           "namespace OsmoVerif.Gen\n"
           "/-- `ARRAY_SIZE(l1s.tdma_sched.bucket)` (declared with `TDMASCHED_NUM_FRAMES`, include/layer1/tdma_sched.h) -/\n"
           "def tdmaNumFrames : Nat := %d\n"
           "/-- `ARRAY_SIZE(bucket->item)` (declared with `TDMASCHED_NUM_CB`) -/\n"
           "def tdmaNumCb : Nat := %d\n"
           "/-- the macros themselves (used as loop bound / size of `seq[]` in tdma_sched.c) -/\n"
           "def tdmaMacroNumFrames : Nat := %d\n"
           "def tdmaMacroNumCb : Nat := %d\n"
           % (kv["frames"][0], kv["cbs"][0], kv["macro_frames"][0], kv["macro_cbs"][0]))
    txt += "-- (bits, signed) of the struct fields, as the compiler lays them out\n"
    for f in ("p1", "p2", "p3", "prio", "flags", "num_items", "cur_bucket"):
        txt += "def tdmaWidth_%s : Nat × Bool := (%d, %s)\n" % (f, kv["w_" + f][0], "true" if kv["w_" + f][1] else "false")
    txt += ("-- macro expansions as (cb kind, p1, p2, p3, prio, flags); cb kind 0 = NULL, "
            "1 = &tdma_end_set, 2 = any other function\n")
    for i, (n, d) in enumerate(zip(NAMES, DOC)):
        k = kv["probe%d" % i]
        txt += "/-- %s -/\ndef %s : Nat × Nat × Nat × Nat × Int × Nat := (%d, %d, %d, %d, %s, %d)\n" % (
            d, n, k[0], k[1], k[2], k[3], vf.lean_int(k[4]), k[5])
    txt += "end OsmoVerif.Gen\n"
    vf.write_if_changed(os.path.join(vf.LEAN, "OsmoVerif/Gen/TdmaSched.lean"), txt)
    return kv
