# translator: constants and tables of src/host/trxcon/src/trx_if.c (and of the headers it is
# compiled against) as the C compiler sees them -> OsmoVerif/Gen/Trxcon.lean.
# The values are printed by the trxcon harness itself (verb `tc.consts`), i.e. by the very
# translation unit that #includes the current trx_if.c; the function-local `chan_types[]`
# table of trx_if_cmd_setslot is read off the SETSLOT commands the real function emits.
import os, re
from lib import vf


def generate(run):
    from props import trxcon_part
    exe = trxcon_part.build(run)
    out = vf.run_lines([exe], ["tc.consts"])[0]
    kv = dict(x.split("=", 1) for x in out.split())
    n_pchan = int(kv["GSM_PCHAN_MAX"])
    reqs = ["tc.cmd SETSLOT 0 %d" % p for p in range(n_pchan)]
    chan = []
    for r, a in zip(reqs, vf.run_lines([exe], reqs)):
        m = re.match(r"^0 \| q 1:7:([0-9a-f]+) \|", a)
        if not m:
            raise vf.HarnessError("gen/trxcon: cannot read chan_types off %r -> %r" % (r, a))
        txt = bytes.fromhex(m.group(1)).decode("ascii")
        mm = re.match(r"^CMD SETSLOT 0 ([0-9]+)$", txt)
        if not mm:
            raise vf.HarnessError("gen/trxcon: unexpected SETSLOT text %r" % txt)
        chan.append(int(mm.group(1)))
    masks = [int(x) for x in kv["MASKS"].split(",")]
    states = [int(x) for x in kv["STATES"].split(",")]
    cmdt = [int(x) for x in kv["CMDT"].split(",")]
    c = {k: int(kv[k]) for k in ("TRXC_BUF_SIZE", "TRXD_BUF_SIZE", "TRXDv0_HDR_LEN", "GSM_TDMA_HYPERFRAME",
                                 "GSM_NBITS_NB_GMSK_BURST", "GSM_NBITS_NB_8PSK_BURST", "CMD_SIZE",
                                 "ENOMEM", "EINVAL", "ENOTSUP", "ENOSPC", "ENODEV", "EIO", "TERM_ERROR")}
    txt = ("-- GENERATED from /repo by /verif/gen/trxcon.py -- do not edit\n"
           "namespace OsmoVerif.Gen.Trxcon\n"
           "/-- `TRXC_BUF_SIZE` (trx_if.h) -/\ndef trxcBufSize : Nat := %d\n"
           "/-- `TRXD_BUF_SIZE` (trx_if.h) -/\ndef trxdBufSize : Nat := %d\n"
           "/-- `TRXDv0_HDR_LEN` (trx_if.c) -/\ndef trxdv0HdrLen : Nat := %d\n"
           "/-- `GSM_TDMA_HYPERFRAME` as trx_if.c is compiled (gsm0502.h) -/\ndef gsmTdmaHyperframe : Nat := %d\n"
           "/-- `GSM_NBITS_NB_GMSK_BURST`, `GSM_NBITS_NB_8PSK_BURST` -/\ndef nbitsGmsk : Nat := %d\ndef nbits8psk : Nat := %d\n"
           "/-- `sizeof(((struct trx_ctrl_msg *)0)->cmd)` -/\ndef cmdSize : Nat := %d\n"
           "/-- errno values of the platform -/\n"
           "def eNOMEM : Int := %d\ndef eINVAL : Int := %d\ndef eNOTSUP : Int := %d\ndef eNOSPC : Int := %d\n"
           "def eNODEV : Int := %d\ndef eIO : Int := %d\n"
           "/-- `OSMO_FSM_TERM_ERROR` -/\ndef termError : Nat := %d\n"
           % (c["TRXC_BUF_SIZE"], c["TRXD_BUF_SIZE"], c["TRXDv0_HDR_LEN"], c["GSM_TDMA_HYPERFRAME"],
              c["GSM_NBITS_NB_GMSK_BURST"], c["GSM_NBITS_NB_8PSK_BURST"], c["CMD_SIZE"],
              c["ENOMEM"], c["EINVAL"], c["ENOTSUP"], c["ENOSPC"], c["ENODEV"], c["EIO"], c["TERM_ERROR"]))
    txt += ("/-- `chan_types[]` of trx_if_cmd_setslot, indexed by `enum gsm_phys_chan_config`\n"
            "(`_GSM_PCHAN_MAX` = %d entries), read off the emitted `CMD SETSLOT 0 <type>` -/\n"
            "def chanTypes : List Nat := %s\n" % (n_pchan, vf.lean_nat_list(chan)))
    txt += ("/-- `trx_fsm_states[i].out_state_mask` -/\ndef fsmOutMask : List Nat := %s\n" % vf.lean_nat_list(masks))
    txt += ("/-- `enum trx_fsm_states`: OFFLINE, IDLE, ACTIVE, RSP_WAIT -/\n"
            "def stOffline : Nat := %d\ndef stIdle : Nat := %d\ndef stActive : Nat := %d\ndef stRspWait : Nat := %d\n" % tuple(states))
    txt += ("/-- `enum trxcon_phyif_cmd_type`: RESET, POWERON, POWEROFF, MEASURE, SETFREQ_H0, SETFREQ_H1, SETSLOT, SETTA -/\n"
            "def cmdtValues : List Nat := %s\n" % vf.lean_nat_list(cmdt))
    txt += "end OsmoVerif.Gen.Trxcon\n"
    vf.write_if_changed(os.path.join(vf.LEAN, "OsmoVerif/Gen/Trxcon.lean"), txt)
    c.update({"chanTypes": chan, "fsmOutMask": masks})
    return c
