/-
NOT part of the build.  Replacement for the `namespace OsmoVerif.Trxd … end OsmoVerif.Trxd` part of
lean/OsmoVerif/Lemmas/WorldCodec.lean once the codec worker's final Model/Trxd.lean (do-notation,
`need`, `appendBurstTo`, `appendLegacy`) and Lemmas/Trxd.lean are merged: the three facts the world
proofs use (RxMsg.genMsg_safe, TxMsg.trans_ok, TxMsg.parseMsg_sane) derived from
RxMsg.validate_iff / validate_err / genMsg_ok, translateGo_total and tabUbit2sbit_length.
Checked with `lake env lean` against /work/trxd (commit bb70d65 + working tree) on 2026-09-29.
Keep `import OsmoVerif.Lemmas.Hopping` and the `namespace OsmoVerif.Hopping` part of WorldCodec.lean.
-/
import OsmoVerif.Lemmas.Trxd
namespace OsmoVerif.Trxd
open OsmoVerif

namespace RxMsg
/-- `gen_msg` returns the octets or raises ValueError — nothing else, for every object state -/
theorem genMsg_safe (m : RxMsg) (l : Bool) :
    (∃ b, m.genMsg l = .ok b) ∨ m.genMsg l = .error .valueError := by
  cases hv : m.validate with
  | ok u => exact .inl (RxMsg.genMsg_ok m l ((RxMsg.validate_iff m).mp hv))
  | error e =>
    cases RxMsg.validate_err m e hv
    right
    simp only [genMsg, hv, bind, Except.bind]
end RxMsg

namespace TxMsg
theorem trans_ok (m : TxMsg) (v : Option Int) (hw : m.WellTyped) :
    ∃ r, m.trans v = .ok r ∧ r.fn = m.fn ∧ (r.nopeInd = false → m.burst.isSome = true) ∧
      r.ver = (match v with | none => m.ver | some v => v) := by
  unfold trans
  cases hb : m.burst with
  | none =>
    refine ⟨_, rfl, rfl, ?_, rfl⟩
    intro h; cases h
  | some b =>
    obtain ⟨s, hs, _⟩ := translateGo_total Gen.Trxd.tabUbit2sbit tabUbit2sbit_length b
      (hw b (by rw [hb]; exact rfl))
    have hs' : ubit2sbit b = .ok s := by
      simp only [ubit2sbit, translate, tabUbit2sbit_length, ne_eq, not_true_eq_false, if_false, hs]
    simp only [hs']
    refine ⟨_, rfl, rfl, ?_, rfl⟩
    intro _; rfl

theorem parseBurst_mem {b : Bytes} {x : Nat} (h : x ∈ parseBurst b) : x ∈ b := by
  unfold parseBurst at h
  simp only at h
  repeat' split at h
  all_goals first | exact h | exact List.mem_of_mem_take h

theorem parseMsg_sane {d : Bytes} {m : TxMsg} (h : parseMsg d = .ok m) (hd : ∀ x ∈ d, x < 256) :
    m.fn.isSome = true ∧ m.tn.isSome = true ∧ m.pwr.isSome = true ∧ m.WellTyped := by
  simp only [parseMsg, bind, Except.bind, pure, Except.pure, throw, throwThe, MonadExceptOf.throw] at h
  repeat' split at h
  all_goals first
    | (cases h; done)
    | (cases h
       refine ⟨rfl, rfl, rfl, ?_⟩
       intro b hb x hx
       first
         | (cases hb; done)
         | (cases hb; exact hd x (List.mem_of_mem_drop (parseBurst_mem hx))))
end TxMsg
end OsmoVerif.Trxd
