# TRXD message parser, receiving half of the TRXD interface and capture reader on ARBITRARY octets:
# helper module for the C14 check (not a registered check itself).
#
# Code under test: src/target/trx_toolkit/data_msg.py (TxMsg / RxMsg.parse_msg, parse_hdr, parse_burst, parse_mts),
# data_if.py (DATAInterface.recv_tx_msg / recv_rx_msg / match_hdr_ver / set_hdr_ver), data_dump.py (DATADumpFile.parse_msg /
# parse_all and what they call).  Lean: Model/Trxd.lean, Model/TrxdIf.lean, Model/TrxdDump.lean, Model/TrxdDumpHist.lean,
# Lemmas/TrxdParse.lean, Lemmas/TrxdIf.lean, Lemmas/TrxdDumpHist.lean, Props/C14Parsers.lean (audited as part of C14),
# Driver/Trxd.lean (`trxd.*`), Driver/TrxdIf.lean (`trxdif.*`), Driver/TrxdDump.lean (`dump.*`), Gen/TrxdConsts.lean,
# Gen/TrxdIf.lean.  Harness: harness/py/trxd_harness.py (the real classes; in-memory socket / io.BytesIO).
#
# How props/C14.py uses it:
#     LEAN_MODULES += trxd_part.C14_LEAN_MODULES;  DRIVER_MODULES += trxd_part.DRIVER_MODULES
#     gen: trxd_part.gen(run);  correspond: trxd_part.correspond_c14(run, corr);  search: found += trxd_part.oracle_c14(run, corr, deep)
#     replay: witness kinds "parser-*" / "dump-*" -> still, text = trxd_part.replay(run, w)
#
# The ORACLE (oracle_c14) never looks at the Lean model.  It judges the real code's answers against the property text:
#   (a) parse_msg on arbitrary octets returns or raises ValueError - nothing else;
#   (b) recv_tx_msg / recv_rx_msg: a message or None, never an exception; a header version other than the negotiated one -> None;
#   (c) DATADumpFile.parse_msg / parse_all on arbitrary content: never raise; None / False / message resp. False / list;
#   (d) afterwards the objects work as before: a valid datagram / record is processed as from a fresh state
#       (expected fields computed from the TRXD layout in lib/trxd.py, not from the code).
import json, os
from lib import vf
from lib import trxd as T
from gen import trxd_consts, trxd_if

C14_LEAN_MODULES = ["OsmoVerif.Props.C14Parsers"]
DRIVER_MODULES = ["Trxd", "TrxdDump", "TrxdIf"]
LEAN_MODEL_MODULES = ["OsmoVerif.Model.Trxd", "OsmoVerif.Model.TrxdIf", "OsmoVerif.Model.TrxdDump", "OsmoVerif.Model.TrxdDumpHist",
                      "OsmoVerif.Lemmas.Trxd", "OsmoVerif.Lemmas.TrxdParse", "OsmoVerif.Lemmas.TrxdIf", "OsmoVerif.Lemmas.TrxdDump",
                      "OsmoVerif.Lemmas.TrxdDumpHist"]
ASSUMPTIONS = [
    "parser half: theorems are about OsmoVerif.Model.Trxd (TxMsg/RxMsg.parse_msg, failure tagged: b[i] -> IndexError, struct.unpack on a slice of the wrong size -> struct.error, HDR_LEN on an unhandled version -> IndexError, bytes.translate table lookups -> IndexError), Model.TrxdIf (recv_tx_msg / recv_rx_msg / set_hdr_ver; the interface object = its _hdr_ver, threaded through every call) and Model.TrxdDump(Hist) (capture reader: byte list with cursor)",
    "datagrams / file contents are octet strings (elements < 256: type invariant of bytes, a hypothesis of the Rx theorems only; the Tx theorems hold for every list of numbers); idx / skip / count are non-negative ints",
    "the receive size, the default header version and WHICH exception classes the try/except of recv_tx_msg / recv_rx_msg swallows are observed on the live interface on every run (gen/trxd_if.py raises each class from a stand-in parser); the theorems need only that ValueError is swallowed, so narrowing the bare except to ValueError keeps them true - because the parser signals nothing else",
    "the log line of match_hdr_ver (msg.desc_hdr(): %u / %d of attributes guarded by `is not None`) is not modelled; the oracle runs the real method",
]
KNOWN_HASH_MSG = "41c52f04b6c133f4"
MODELLED_IF = ["recv_tx_msg", "recv_rx_msg", "match_hdr_ver", "set_hdr_ver", "recv_raw_data"]


def gen(run):
    run.trxd_consts = trxd_consts.generate(run)
    run.trxd_if = trxd_if.generate(run)


# ---- capture records, literally from the capture format (tag, length BE16, payload) ---------------------
TAG_TX, TAG_RX = 1, 2


def record(tag, payload, length=None):
    n = len(payload) if length is None else length
    return bytes([tag, (n >> 8) & 0xff, n & 0xff]) + bytes(payload)


def expected_line(kind, m):
    return ("T " + T.carried_tx(m).line()) if kind == "tx" else ("R " + T.carried_rx(m).line())


# ---- valid messages with their layout octets --------------------------------------------------------------
def small_burst(rng, kind, n):
    """burst contents that keep request lines short (long runs) but still vary"""
    if kind == "tx":
        r = rng.random()
        if r < 0.6:
            return bytes([rng.choice([0, 1])]) * n
        k = rng.randrange(n)
        return bytes([0]) * k + bytes([1]) * (n - k)
    r = rng.random()
    if r < 0.5:
        return bytes([rng.choice([0x7f, 0x81, 0x00, 0x01, 0xff])]) * n
    k = rng.randrange(n)
    return bytes([0x7f]) * k + bytes([0x81]) * (n - k)


def valid_pool(rng, rounds=1):
    """[(kind, record, legacy, octets)] - every class x version x burst length / modulation x NOPE x legacy"""
    out = []
    for _ in range(rounds):
        for ver in (0, 1):
            for blen in (148, 444):
                for legacy in (0, 1):
                    m = T.rand_valid_tx(rng, ver, blen)
                    m.burst = small_burst(rng, "tx", blen)
                    out.append(("tx", m, legacy, T.layout_tx(m, legacy)))
        for mod in ("ModGMSK", "Mod8PSK"):
            for legacy in (0, 1):
                m = T.rand_valid_rx(rng, 0, mod)
                m.burst = small_burst(rng, "rx", len(m.burst))
                out.append(("rx", m, legacy, T.layout_rx(m, legacy)))
        for mod in T.MOD_NAMES:
            m = T.rand_valid_rx(rng, 1, mod, False)
            m.burst = small_burst(rng, "rx", len(m.burst))
            out.append(("rx", m, 0, T.layout_rx(m, 0)))
        m = T.rand_valid_rx(rng, 1, None, True)
        out.append(("rx", m, 0, T.layout_rx(m, 0)))
    return out


def boundaries(kind, m, n):
    """field boundaries of the layout of a valid message of n octets"""
    if kind == "tx":
        b = [0, 1, 5, 6]
    elif m.ver == 0:
        b = [0, 1, 5, 6, 8]
    else:
        b = [0, 1, 5, 6, 8, 9, 11]
    hl = b[-1]
    if n > hl:
        b += [n - 2, n] if (m.ver == 0 and n - hl in (150, 446)) else [n]
    return b


def structured(rng, pool, per_base=1.0):
    """structured mutations of valid encodings"""
    out = []
    for kind, m, legacy, b in pool:
        n = len(b)
        for p in boundaries(kind, m, n):
            for c in (p - 1, p, p + 1):
                if 0 <= c <= n:
                    out.append(b[:c])
        for k in (1, 2, 3, 148):
            out.append(b + bytes([rng.randrange(256)]) * k)
        for tot in (511, 512, 513, 600, 1000):
            if tot > n:
                out.append(b + bytes([rng.choice([0, 1, 0x7f])]) * (tot - n))
        if rng.random() < per_base:
            for v in range(16):
                out.append(bytes([(v << 4) | (b[0] & 0x0f)]) + b[1:])
            for bit in range(8):
                out.append(bytes([b[0] ^ (1 << bit)]) + b[1:])
                if n > 8:
                    out.append(b[:8] + bytes([b[8] ^ (1 << bit)]) + b[9:])
        for _ in range(3):
            out.append(T.mutate_bytes(rng, b))
    return out


def mts_sweep(rng):
    """every MTS octet: header only, with a 148 / 444 octet burst and with an odd one"""
    out = []
    for mts in range(256):
        hdr = bytes([0x10 | rng.randrange(8)]) + T.be32(rng.randrange(T.HYPERFRAME)) + bytes([rng.randrange(256)]) + \
            T.s16be(rng.randint(-32768, 32767)) + bytes([mts]) + T.s16be(rng.randint(-32768, 32767))
        out.append(hdr)
        out.append(hdr + bytes([rng.choice([0, 0x7f, 0xfe, 0xff])]) * rng.choice([148, 444, 1, 149, 296, 592, 740]))
    return out


def length_sweep(rng, lengths, nibbles):
    """every length x version nibble, constant fill (short lines)"""
    out = []
    for v in nibbles:
        for n in lengths:
            if n == 0:
                out.append(b"")
                continue
            out.append(bytes([(v << 4) | rng.randrange(16)]) + bytes([rng.choice([0, 0, 1, 0x7f, 0xff])]) * (n - 1))
    return out


def datagrams(run, deep=False):
    """the octet strings of this run (deduplicated), and the valid pool they were derived from"""
    key = "c14p_dgrams_%s" % deep
    if getattr(run, key, None) is not None:
        return getattr(run, key)
    rng = run.rng
    mult = 3 if deep else 1
    pool = valid_pool(rng, rounds=run.scale(1, 4) * mult)
    out = [b for _, _, _, b in pool]
    out += structured(rng, pool, per_base=run.scale(0.5, 1.0))
    out += mts_sweep(rng)
    if run.thorough or deep:
        out += length_sweep(rng, list(range(0, 760)) + [1000, 2000, 4096], range(16))
    else:
        out += length_sweep(rng, list(range(0, 621)) + [751, 753, 1000, 2000], (0, 1))
        out += length_sweep(rng, list(range(0, 14)) + [154, 156, 159, 450, 452, 455, 512, 600], range(2, 16))
    for _ in range(run.scale(3000, 12000) * mult):
        out.append(T.rand_bytes(rng))
    seen, uniq = set(), []
    for b in out:
        if b not in seen:
            seen.add(b)
            uniq.append(b)
    setattr(run, key, (uniq, pool))
    return getattr(run, key)


def parse_requests(run, deep=False):
    key = "c14p_parse_%s" % deep
    if getattr(run, key, None) is None:
        bs, _ = datagrams(run, deep)
        reqs = []
        for b in bs:
            e = T.enc_octets(b)
            reqs.append("trxd.tx.parse " + e)
            reqs.append("trxd.rx.parse " + e)
        setattr(run, key, (reqs, vf.run_lines(T.HARNESS, reqs)))
    return getattr(run, key)


# ---- histories on one interface object / sequences of parses ----------------------------------------------------
def if_histories(run, deep=False):
    """[(line, ops)]; ops: ("V", ver) | ("T"|"R", octets, expectation) with expectation = None (the oracle only knows
    the datagram as octets) or (kind, record): a valid message of that kind laid out per the protocol"""
    key = "c14p_ifh_%s" % deep
    if getattr(run, key, None) is not None:
        return getattr(run, key)
    rng = run.rng
    bs, pool = datagrams(run, deep)
    short = [b for b in bs if len(b) <= 40] or bs
    out = []

    def junk():
        return rng.choice(short) if rng.random() < 0.7 else rng.choice(bs)

    def valid(side, ver=None):
        cand = [x for x in pool if x[0] == side and (ver is None or x[1].ver == ver)]
        kind, m, legacy, b = rng.choice(cand)
        return (("T" if side == "tx" else "R"), b, (kind, m))

    for i in range(run.scale(1200, 4000) * (3 if deep else 1)):
        ops = []
        cur = 0
        side = rng.choice(["tx", "rx"])
        for _ in range(rng.choice([2, 3, 4, 6])):
            r = rng.random()
            if r < 0.2:
                v = rng.choice([0, 1, 1, 2, 15, -1, 16])
                ops.append(("V", v))
            elif r < 0.6:
                ops.append((rng.choice(["T", "R"]), junk(), None))
            else:
                ops.append(valid(rng.choice(["tx", "rx"]) if rng.random() < 0.3 else side, rng.choice([None, 0, 1])))
        # ... and a valid datagram at the end: processed as from a fresh state
        ops.append(valid(side, rng.choice([0, 1])))
        out.append((if_line(ops), ops))
    setattr(run, key, out)
    return out


def if_line(ops):
    t = ["trxdif.hist"]
    for op in ops:
        t += [op[0], str(op[1]) if op[0] == "V" else T.enc_octets(op[1])]
    return " ".join(t)


def parse_sequences(run, deep=False):
    key = "c14p_seq_%s" % deep
    if getattr(run, key, None) is not None:
        return getattr(run, key)
    rng = run.rng
    bs, pool = datagrams(run, deep)
    short = [b for b in bs if len(b) <= 40] or bs
    out = []
    for _ in range(run.scale(250, 1500) * (3 if deep else 1)):
        items = []
        for _ in range(rng.choice([2, 3, 5])):
            if rng.random() < 0.6:
                items.append((rng.choice(["T", "R"]), rng.choice(short), None))
            else:
                kind, m, legacy, b = rng.choice(pool)
                items.append(("T" if kind == "tx" else "R", b, (kind, m)))
        kind, m, legacy, b = rng.choice(pool)
        items.append(("T" if kind == "tx" else "R", b, (kind, m)))
        out.append(("trxdif.parses " + " ".join(x[0] + " " + T.enc_octets(x[1]) for x in items), items))
    setattr(run, key, out)
    return out


# ---- capture contents -----------------------------------------------------------------------------------------------
def capture_msgs(rng, n):
    """n valid messages with SHORT records: (kind, record, payload octets)"""
    out = []
    for _ in range(n):
        r = rng.random()
        if r < 0.45:
            m = T.rand_valid_rx(rng, 1, None, True)                       # v1 NOPE indication: 11 octets
            out.append(("rx", m, T.layout_rx(m, 0)))
        elif r < 0.75:
            m = T.rand_valid_tx(rng, rng.choice([0, 1]), 148)
            m.burst = small_burst(rng, "tx", 148)
            out.append(("tx", m, T.layout_tx(m, 0)))
        else:
            m = T.rand_valid_rx(rng, rng.choice([0, 1]), rng.choice(["ModGMSK", "Mod8PSK"]), False)
            m.burst = small_burst(rng, "rx", len(m.burst))
            out.append(("rx", m, T.layout_rx(m, 0)))
    return out


def tag_of(kind):
    return TAG_TX if kind == "tx" else TAG_RX


def captures(run, deep=False):
    """[(content, good)]: good = list of (kind, record) the content starts with as complete valid records, or None when
    the oracle makes no statement about what is stored (garbage)"""
    key = "c14p_caps_%s" % deep
    if getattr(run, key, None) is not None:
        return getattr(run, key)
    rng = run.rng
    out = [(b"", []), (b"\x01", []), (b"\x01\x00", []), (b"\x01\x00\x00", None), (b"\x02\xff\xff", []), (b"\x00\x00\x00", []),
           (b"\x01\x00\x00" * 6, None), (b"\xff" * 40, [])]
    for _ in range(run.scale(100, 300) * (3 if deep else 1)):
        ms = capture_msgs(rng, rng.choice([1, 2, 3, 4]))
        recs = [record(tag_of(k), p) for k, m, p in ms]
        data = b"".join(recs)
        good = [(k, m) for k, m, p in ms]
        out.append((data, good))
        # truncate at every field boundary +-1 of every record
        off = 0
        cuts = set()
        for (k, m, p), r in zip(ms, recs):
            for p0 in [0, 1, 3] + [3 + x for x in boundaries(k, m, len(p))]:
                for c in (off + p0 - 1, off + p0, off + p0 + 1):
                    if 0 <= c <= len(data):
                        cuts.add(c)
            off += len(r)
        ends = [0]
        for r in recs:
            ends.append(ends[-1] + len(r))
        for c in sorted(rng.sample(sorted(cuts), min(len(cuts), run.scale(6, 40)))):
            k = max(j for j in range(len(ends)) if ends[j] <= c)
            out.append((data[:c], good[:k]))
        # one record spoiled: wrong tag, wrong length field, swapped tag, malformed payload
        j = rng.randrange(len(ms))
        k, m, p = ms[j]
        pre, post = b"".join(recs[:j]), b"".join(recs[j + 1:])
        for tag in (0x00, 0x03, 0xff, 0x10):
            out.append((pre + record(tag, p) + post, good[:j]))
        for ln in [0, 1, len(p) - 1, len(p) + 1, len(p) + 2, 0xffff, 0x8000, len(p) ^ 0x100, len(p) ^ 0x8000] + \
                [len(p) ^ (1 << rng.randrange(16)) for _ in range(2)]:
            if 0 <= ln <= 0xffff and ln != len(p):
                out.append((pre + record(tag_of(k), p, ln) + post, good[:j]))
        out.append((pre + record(TAG_TX + TAG_RX - tag_of(k), p) + post, good[:j]))
        bad = rng.choice([p[:rng.choice([0, 1, 4, 5, 7])], bytes([0x20 | (p[0] & 0x0f)]) + p[1:], bytes([0xf0]) + p[1:],
                          T.mutate_bytes(rng, p)])
        out.append((pre + record(tag_of(k), bad) + post, good[:j]))
        # extended by garbage
        out.append((data + bytes(rng.randrange(256) for _ in range(rng.choice([1, 2, 3, 4, 9]))), good))
    for _ in range(run.scale(40, 400)):
        out.append((bytes(rng.randrange(256) for _ in range(rng.choice([1, 2, 3, 4, 5, 8, 13, 30]))), None))
        g = b"".join(record(rng.choice([1, 2, 2, 1, 7]), bytes(rng.randrange(256) for _ in range(rng.randrange(0, 14))))
                     for _ in range(rng.choice([1, 2, 5])))
        out.append((g, None))
    setattr(run, key, out)
    return out


HUGE = [10 ** 6, 2 ** 70]


def dump_requests(run, deep=False):
    """[(line, expectation)] single reads by a new reader; expectation = ("msg", good, idx) | ("all", good, skip, count)"""
    key = "c14p_dreq_%s" % deep
    if getattr(run, key, None) is not None:
        return getattr(run, key)
    rng = run.rng
    out = []
    for data, good in captures(run, deep):
        e = T.enc_octets(data)
        n = len(good) if good is not None else 2
        for idx in sorted(set([0, 1, n, n + 1, rng.choice([2, 3, n + 2]), rng.choice(HUGE)])):
            if rng.random() < run.scale(0.5, 1.0):
                out.append(("dump.parsemsg %d %s" % (idx, e), ("msg", good, idx)))
        for skip in [None, 0, 1, n, n + 1, rng.choice(HUGE)]:
            count = rng.choice([None, None, 0, 1, 2, n, 10 ** 9])
            if rng.random() < run.scale(0.5, 1.0):
                out.append(("dump.parseall %s %s %s" % (T.s(skip), T.s(count), e), ("all", good, skip, count)))
    # a record whose payload cannot be a message (shorter than the common header) in the MIDDLE of valid records: the reader
    # drops it "without any effect" and goes on with the records behind it
    for _ in range(run.scale(60, 400)):
        ms = capture_msgs(rng, rng.choice([2, 3, 4, 5]))
        recs = [record(tag_of(k), p) for k, m, p in ms]
        j = rng.randrange(len(ms))
        k, m, p = ms[j]
        short = p[:rng.choice([1, 2, 3, 4, 5])]
        data = b"".join(recs[:j]) + record(tag_of(k), short) + b"".join(recs[j:])
        good = [(k2, m2) for k2, m2, _ in ms]
        out.append(("dump.parseall %s - %s" % (rng.choice(["-", "0"]), T.enc_octets(data)), ("all", good, None, None)))
    setattr(run, key, out)
    return out


def rand_read(rng, n):
    if rng.random() < 0.5:
        return ("M", rng.choice([0, 1, n, n + 1, n + 5, rng.choice(HUGE)]))
    return ("P", rng.choice([None, 0, 1, n, n + 1, rng.choice(HUGE)]), rng.choice([None, 0, 1, 2, 10 ** 9]))


def dump_hist_line(data, ops):
    t = ["dump.hist", "b", T.enc_octets(data)]
    for op in ops:
        if op[0] == "M":
            t += ["M", str(op[1])]
        elif op[0] == "P":
            t += ["P", T.s(op[1]), T.s(op[2])]
        elif op[0] == "A":
            t += ["A", "T" if op[1] == "tx" else "R", op[2].line()]
    return " ".join(t)


def dump_histories(run, deep=False):
    """[(line, data, good, pre, post)]: ONE reader object on `data`; `pre` = reads of any kind (garbage reads), `post` =
    operations the oracle has an expectation for: reads of the good records, an append of a valid message and reads"""
    key = "c14p_dhist_%s" % deep
    if getattr(run, key, None) is not None:
        return getattr(run, key)
    rng = run.rng
    caps = captures(run, deep)
    out = []
    for _ in range(run.scale(250, 1500) * (3 if deep else 1)):
        data, good = rng.choice(caps)
        n = len(good) if good is not None else 2
        pre = [rand_read(rng, n) for _ in range(rng.choice([1, 2, 3, 5]))]
        post = []
        if good:
            for _ in range(rng.choice([1, 2])):
                post.append(("M", rng.randrange(len(good))))
            if rng.random() < 0.5:
                s = rng.randrange(len(good))
                post.append(("P", s, rng.choice([1, len(good) - s])))
        if good is not None and b"".join(record(tag_of(k), T.layout_tx(m, 0) if k == "tx" else T.layout_rx(m, 0)) for k, m in good) == data:
            # the content is exactly the good records: an appended valid message must be found behind them
            k, m, p = capture_msgs(rng, 1)[0]
            post.append(("A", k, m))
            post.append(("M", len(good)))
            post.append(("P", len(good), None))
        post.append(rand_read(rng, n))
        out.append((dump_hist_line(data, pre + post), data, good, pre, post))
    setattr(run, key, out)
    return out


# ---- correspondence -----------------------------------------------------------------------------------------------------
def impl_answers(run, deep=False):
    """every request of this part against the REAL code (cached; the oracle judges the same answers)"""
    key = "c14p_impl_%s" % deep
    if getattr(run, key, None) is not None:
        return getattr(run, key)
    preqs, pimpl = parse_requests(run, deep)
    ih = if_histories(run, deep)
    ps = parse_sequences(run, deep)
    dr = dump_requests(run, deep)
    dh = dump_histories(run, deep)
    rest = [x[0] for x in ih] + [x[0] for x in ps] + [x[0] for x in dr] + [x[0] for x in dh]
    rimpl = vf.run_lines(T.HARNESS, rest)
    a, i = {}, 0
    for name, lst in (("ifh", ih), ("seq", ps), ("dreq", dr), ("dhist", dh)):
        a[name] = rimpl[i:i + len(lst)]
        i += len(lst)
    res = {"parse": (preqs, pimpl), "ifh": (ih, a["ifh"]), "seq": (ps, a["seq"]), "dreq": (dr, a["dreq"]), "dhist": (dh, a["dhist"]),
           "all_requests": preqs + rest, "all_answers": pimpl + rimpl}
    setattr(run, key, res)
    return res


def correspond_c14(run, corr):
    h = vf.src_hash_py(os.path.join(vf.TRX, "data_if.py"), MODELLED_IF)
    run.drift["data_if.py:recv"] = h
    res = impl_answers(run)
    reqs, impl = res["all_requests"], res["all_answers"]
    model = vf.run_driver(reqs)
    corr.compare(reqs, impl, model)
    preqs, pimpl = res["parse"]
    for r, a in zip(preqs, pimpl):
        t = r.split()
        b = T.dec_octets(t[1])
        ver = (b[0] >> 4) if b else None
        corr.count(r, "parser: %s ver=%s -> %s" % (t[0][5:7], ver if ver in (0, 1, None) else "other", a.split()[0]))
    for (r, ops), a in zip(*res["ifh"]):
        corr.count(r, "interface history (set_hdr_ver / recv_tx_msg / recv_rx_msg on one object)")
        corr.evaluations += len(ops) - 1
    for (r, items), a in zip(*res["seq"]):
        corr.count(r, "parse sequence in one interpreter (fresh object each)")
        corr.evaluations += len(items) - 1
    for (r, exp), a in zip(*res["dreq"]):
        corr.count(r, "capture reader on arbitrary content: %s -> %s" % (r.split()[0][5:], " ".join(a.split()[:2])[:10]))
    for x, a in zip(*res["dhist"]):
        corr.count(x[0], "capture history on one reader (garbage reads, then reads / append)")
        corr.evaluations += len(x[3]) + len(x[4]) - 1
    corr.rule += (" | parser half: octet strings = valid encodings laid out per the protocol (every class x version x modulation x NOPE x legacy) "
                  "and their structured mutations (cut at every field boundary +-1, extended by 1/2/3/148 octets and to 511/512/513/600/1000, "
                  "every version nibble, every bit of octet 0 and of the MTS octet flipped), every MTS octet (header only / with bursts), every "
                  "length 0..620 (thorough: 0..759, every nibble) with constant fill, seeded random strings; both parsers on each; interface "
                  "histories and parse sequences mixing them; capture contents = valid short records cut at every field boundary +-1, wrong / "
                  "swapped tags, length fields 0, 1, n+-1, n+2, 0xffff, bit flips, malformed payloads, garbage tails, pure garbage, with "
                  "idx/skip/count incl. 10^6 and 2^70")
    k = len(preqs) // 2
    corr.samples.append({"request": preqs[k][:200], "impl": pimpl[k][:160], "model": model[k][:160]})
    o = len(preqs)
    corr.samples.append({"request": reqs[o][:300], "impl": impl[o][:200], "model": model[o][:200]})
    corr.samples.append({"request": reqs[-1][:300], "impl": impl[-1][:200], "model": model[-1][:200]})


# ---- the property, judged on the real code's answers -----------------------------------------------------------------
def exc_name(x):
    """the harness prints type(e).__name__; struct.error's is plain `error`"""
    return "struct.error" if x.strip() == "error" else x.strip()


def judge_parse(req, a):
    """(a): returns (ok ...) or raises ValueError"""
    if a.startswith("ok ") or a == "ValueError":
        return None
    return "%s raised %s (the parser may signal ValueError only)" % ("TxMsg.parse_msg" if req.startswith("trxd.tx.") else "RxMsg.parse_msg", exc_name(a[:60]))


def split_hist(a):
    """'ok a1 ; a2 ; ... | tail' -> ([a1, ...], tail) or None"""
    if not a.startswith("ok "):
        return None
    body, sep, tail = a[3:].rpartition(" | ")
    if not sep:
        body, tail = a[3:], ""
    return [x.strip() for x in body.split(" ; ")] if body.strip() else [], tail.strip()


def judge_if(ops, a):
    """(b), (d) on one interface history: None or (index of the failing operation, what, demanded)"""
    sp = split_hist(a)
    if sp is None:
        return (0, "the history raised out of the harness: %s" % a[:80], "answers")
    ans = sp[0]
    cur = 0
    for i, op in enumerate(ops):
        if i >= len(ans):
            return (i, "no answer for operation %d" % i, "an answer")
        x = ans[i]
        if op[0] == "V":
            if op[1] in T.VERSIONS:
                cur = op[1]
            continue
        name = "recv_tx_msg" if op[0] == "T" else "recv_rx_msg"
        tag = "t" if op[0] == "T" else "r"
        if x.startswith("E "):
            return (i, "%s raised %s" % (name, exc_name(x[2:])), "a message or None")
        body = x[2:]
        b = op[1][:512]
        nib = (b[0] >> 4) if b else None
        if body == "None":
            kindok = op[2] is not None and ((op[2][0] == "tx") == (op[0] == "T")) and len(op[1]) <= 512
            if kindok and op[2][1].ver == cur:
                return (i, "%s returned None for a valid datagram of the negotiated version %d" % (name, cur),
                        tag + " " + expected_line(*op[2])[2:])
            continue
        f = body.split()
        if len(f) < 5 or not f[0].lstrip("-").isdigit():
            return (i, "%s returned %s" % (name, body[:40]), "a message or None")
        if nib != cur:
            return (i, "%s handed on a datagram with version nibble %s while version %d is negotiated" % (name, nib, cur), tag + " None")
        if int(f[0]) != cur:
            return (i, "%s returned a message of version %s while version %d is negotiated" % (name, f[0], cur), tag + " None")
        if op[2] is not None and ((op[2][0] == "tx") == (op[0] == "T")) and len(op[1]) <= 512:
            want = expected_line(*op[2])[2:]
            if body != want:
                return (i, "%s: a valid datagram after %d other operations is not decoded as from a fresh state" % (name, i), tag + " " + want)
    return None


def judge_seq(items, a):
    sp = split_hist(a)
    if sp is None:
        return (0, "the sequence raised out of the harness: %s" % a[:80], "answers")
    ans = sp[0]
    for i, it in enumerate(items):
        if i >= len(ans):
            return (i, "no answer for item %d" % i, "an answer")
        x = ans[i]
        name = "TxMsg.parse_msg" if it[0] == "T" else "RxMsg.parse_msg"
        if x.startswith("E "):
            if x != "E ValueError":
                return (i, "%s raised %s (the parser may signal ValueError only)" % (name, exc_name(x[2:])), "a message or ValueError")
            if it[2] is not None and ((it[2][0] == "tx") == (it[0] == "T")):
                return (i, "%s rejected a valid datagram after %d other parses" % (name, i), expected_line(*it[2]))
            continue
        if it[2] is not None and ((it[2][0] == "tx") == (it[0] == "T")):
            want = expected_line(*it[2])
            if x != want:
                return (i, "%s: a valid datagram after %d other parses (fresh object) is not decoded as from a fresh state" % (name, i), want)
    return None


def judge_dump_read(exp, a):
    """(c) + what is stored: None or (what, demanded)"""
    kind, good = exp[0], exp[1]
    if not a.startswith("ok "):
        return ("%s raised %s" % ("parse_msg" if kind == "msg" else "parse_all", exc_name(a[:60])), "no exception")
    body = a[3:]
    if kind == "msg":
        idx = exp[2]
        if good is not None and idx < len(good):
            want = expected_line(*good[idx])
            if body != want:
                return ("parse_msg(%d) returned %s for a completely stored valid message" % (idx, body[:80]), "ok " + want)
            return None
        if body in ("None", "False") or body[:2] in ("T ", "R "):
            return None
        return ("parse_msg(%d) returned %s" % (idx, body[:60]), "a message, None or False")
    skip, count = exp[2], exp[3]
    f = body.split()
    if body == "False":
        if skip is None:
            return ("parse_all without skip returned False", "a list")
        if good is not None and skip <= len(good):
            return ("parse_all(skip=%d) returned False although %d valid messages are stored" % (skip, len(good)), "a list")
        return None
    if not f or not f[0].isdigit():
        return ("parse_all returned %s" % body[:60], "a list or False")
    n = int(f[0])
    if count is not None and count >= 1 and n > count:
        return ("parse_all(count=%d) returned %d messages" % (count, n), "at most %d" % count)
    if good is not None and skip is not None and skip <= len(good) or (good is not None and skip is None):
        s = skip or 0
        want = good[s:]
        if count is not None and count >= 1:
            want = want[:count]
        # the stored valid messages come first (what follows them is garbage the oracle says nothing about)
        got = body[len(f[0]):].strip()
        pref = " ".join(expected_line(k, m) for k, m in want)
        if count is not None and count >= 1 and len(want) == count:
            if got != pref:
                return ("parse_all(skip=%s, count=%s) did not return the stored messages" % (skip, count), "ok %d %s" % (len(want), pref[:300]))
        elif not (got + " ").startswith(pref + " ") and pref:
            return ("parse_all(skip=%s, count=%s) did not return the stored messages first" % (skip, count), "ok n %s ..." % pref[:300])
    return None


def judge_dump_hist(data, good, pre, post, a):
    """(c), (d) on a history on one reader: None or (index, what, demanded)"""
    sp = split_hist(a)
    if sp is None:
        return (0, "the history raised out of the harness: %s" % a[:80], "answers")
    ans = sp[0]
    ops = pre + post
    stored = list(good) if good is not None else None
    for i, op in enumerate(ops):
        if i >= len(ans):
            return (i, "no answer for operation %d (an exception left a read method: %s)" % (i, ans[-1] if ans else "-"), "an answer")
        x = ans[i]
        if op[0] == "A":
            if x != "D":
                return (i, "append_msg of a valid message answered %s" % x, "D")
            stored = stored + [(op[1], op[2])]
            continue
        if x.startswith("E "):
            return (i, "%s raised %s" % ("parse_msg" if op[0] == "M" else "parse_all", exc_name(x[2:])), "no exception")
        exp = ("msg", stored, op[1]) if op[0] == "M" else ("all", stored, op[1], op[2])
        j = judge_dump_read(exp, "ok " + x[2:])
        if j:
            return (i, j[0] + (" (after %d other reads on the same object)" % i if i else ""), j[1])
    return None


def oracle_c14(run, corr, deep):
    found = 0
    rounds = [False, True] if deep else [False]
    fails = {"parser-exception": [], "parser-recv": [], "parser-sequence": [], "dump-read": [], "dump-history": []}
    for dp in rounds:
        res = impl_answers(run, dp)
        sfx = " (deep)" if dp else ""
        preqs, pimpl = res["parse"]
        for r, a in zip(preqs, pimpl):
            why = judge_parse(r, a)
            if why:
                fails["parser-exception"].append((r, a, why))
        corr.distribution["oracle: parses of arbitrary octets judged" + sfx] = len(preqs)
        n = 0
        for (r, ops), a in zip(*res["ifh"]):
            n += len(ops)
            j = judge_if(ops, a)
            if j:
                fails["parser-recv"].append((r, a, j, ops))
        corr.distribution["oracle: interface operations judged" + sfx] = n
        n = 0
        for (r, items), a in zip(*res["seq"]):
            n += len(items)
            j = judge_seq(items, a)
            if j:
                fails["parser-sequence"].append((r, a, j, items))
        corr.distribution["oracle: parses in sequences judged" + sfx] = n
        for (r, exp), a in zip(*res["dreq"]):
            j = judge_dump_read(exp, a)
            if j:
                fails["dump-read"].append((r, a, j, exp))
        corr.distribution["oracle: capture reads on arbitrary content judged" + sfx] = len(res["dreq"][0])
        n = 0
        for (r, data, good, pre, post), a in zip(*res["dhist"]):
            n += len(pre) + len(post)
            j = judge_dump_hist(data, good, pre, post, a)
            if j:
                fails["dump-history"].append((r, a, j, (data, good, pre, post)))
        corr.distribution["oracle: capture history operations judged" + sfx] = n
        if any(fails.values()):
            break
    corr.distribution["oracle: violating parser / reader cases"] = sum(len(v) for v in fails.values())
    # (a): the shortest datagram per parser and exception class
    seen = set()
    for r, a, why in sorted(fails["parser-exception"], key=lambda x: len(T.dec_octets(x[0].split()[1]))):
        sig = (r.split()[0], a)
        if sig in seen or len(seen) >= 4:
            continue
        seen.add(sig)
        b = T.dec_octets(r.split()[1])
        found += run.report_witness({"kind": "parser-exception", "request": r[:4000], "impl": a, "what": why, "demanded": "ok <message> | ValueError",
                                     "datagram_octets": len(b), "version_nibble": (b[0] >> 4) if b else None,
                                     "datagram_hex": b.hex()[:200], "failing_cases_in_this_run": len(fails["parser-exception"])})
    seen = set()
    for r, a, j, ops in sorted(fails["parser-recv"], key=lambda x: len(x[0])):
        sig = j[1].split(" for ")[0][:40]
        if sig in seen or len(seen) >= 3:
            continue
        seen.add(sig)
        small = shrink_ops(ops, lambda o: judge_if(o, vf.run_lines(T.HARNESS, [if_line(o)])[0]))
        req = if_line(small)
        a2 = vf.run_lines(T.HARNESS, [req])[0]
        j2 = judge_if(small, a2) or j
        found += run.report_witness({"kind": "parser-recv", "request": req[:6000], "impl": a2[:600], "failing_operation": j2[0], "what": j2[1],
                                     "demanded": j2[2][:400], "history": describe_if(small), "failing_cases_in_this_run": len(fails["parser-recv"])})
    seen = set()
    for r, a, j, items in sorted(fails["parser-sequence"], key=lambda x: len(x[0])):
        sig = j[1][:30]
        if sig in seen or len(seen) >= 2:
            continue
        seen.add(sig)
        small = shrink_ops(items, lambda o: judge_seq(o, vf.run_lines(T.HARNESS, [seq_line(o)])[0]))
        req = seq_line(small)
        a2 = vf.run_lines(T.HARNESS, [req])[0]
        j2 = judge_seq(small, a2) or j
        found += run.report_witness({"kind": "parser-sequence", "request": req[:6000], "impl": a2[:600], "failing_item": j2[0], "what": j2[1],
                                     "demanded": j2[2][:400], "failing_cases_in_this_run": len(fails["parser-sequence"])})
    seen = set()
    for r, a, j, exp in sorted(fails["dump-read"], key=lambda x: len(x[0])):
        sig = j[0].split(" returned")[0].split("(")[0][:30] + j[0][-12:]
        if sig in seen or len(seen) >= 3:
            continue
        seen.add(sig)
        t = r.split()
        found += run.report_witness({"kind": "dump-read", "request": r[:6000], "impl": a[:600], "what": j[0], "demanded": j[1][:400],
                                     "content_hex": T.dec_octets(t[-1]).hex()[:200], "content_octets": len(T.dec_octets(t[-1])),
                                     "args": " ".join(t[1:-1]), "valid_records_stored": None if exp[1] is None else len(exp[1]),
                                     "failing_cases_in_this_run": len(fails["dump-read"])})
    seen = set()
    for r, a, j, (data, good, pre, post) in sorted(fails["dump-history"], key=lambda x: len(x[0])):
        sig = j[1].split(" returned")[0].split("(")[0][:30]
        if sig in seen or len(seen) >= 2:
            continue
        seen.add(sig)
        found += run.report_witness({"kind": "dump-history", "request": r[:6000], "impl": a[:600], "failing_operation": j[0], "what": j[1],
                                     "demanded": j[2][:400], "content_hex": data.hex()[:200], "garbage_reads_first": len(pre),
                                     "failing_cases_in_this_run": len(fails["dump-history"])})
    return found


def seq_line(items):
    return "trxdif.parses " + " ".join(x[0] + " " + T.enc_octets(x[1]) for x in items)


def shrink_ops(ops, fails):
    """greedily drop operations while the history still violates the property (the failing operation stays last)"""
    j = fails(ops)
    if not j:
        return ops
    ops = ops[:j[0] + 1]
    for _ in range(12):
        for i in range(len(ops) - 1):
            c = ops[:i] + ops[i + 1:]
            jj = fails(c)
            if jj:
                ops = c[:jj[0] + 1]
                break
        else:
            break
    return ops


def describe_if(ops):
    out = []
    for op in ops:
        if op[0] == "V":
            out.append("set_hdr_ver(%d)" % op[1])
        else:
            b = op[1]
            what = ("valid %s v%d datagram" % (op[2][0], op[2][1].ver)) if op[2] is not None else "datagram"
            out.append("%s <- %s of %d octets%s" % ("recv_tx_msg" if op[0] == "T" else "recv_rx_msg", what, len(b),
                                                   (", version nibble %d" % (b[0] >> 4)) if b else ""))
    return "; ".join(out)


# ---- replay -------------------------------------------------------------------------------------------------------------------
def replay(run, w):
    """re-run one witness of oracle_c14 against the real code of vf.REPO; returns (still_failing, text)"""
    kind, req = w.get("kind", ""), w.get("request")
    if not req:
        return True, "witness %s carries no request line" % kind
    a = vf.run_lines(T.HARNESS, [req])[0]
    if kind == "parser-exception":
        still = judge_parse(req, a) is not None
    elif kind in ("parser-recv", "parser-sequence", "dump-history"):
        # same answer as recorded = same violation (the expectation for valid items was computed when the witness was made)
        sp = split_hist(a)
        bad = sp is None or any(x.startswith("E ") and x != "E ValueError" for x in sp[0])
        still = bad or a[:600] == w.get("impl")
    else:
        still = (not a.startswith("ok ")) or a[:600] == w.get("impl")
    return still, "replay %s: %s -> %s (demanded: %s) -> %s" % (kind, req[:160], a[:160], str(w.get("demanded"))[:120],
                                                                "VIOLATED" if still else "property holds")
