# C19, part "sch": the Synchronisation-Burst decoders of the firmware (l1s_decode_sb, prim_fbsb.c) and of trxcon
# (decode_sb, sched_lchan_sch.c) agree and invert the standard's coding of (BSIC, frame number).
# Hooked into props/C19.py (gen / correspond / search / replay dispatch on witness["part"] == "sch").
#
# Spec:   lean/OsmoVerif/Spec/SchCoding.lean (TS 44.018 9.1.30, TS 45.002 3.3.2.2.1)
# Model:  lean/OsmoVerif/Model/SchDecode.lean        theorems: lean/OsmoVerif/Props/C19Sch.lean
# Tie:    the CURRENT text of both static functions is extracted by name (+ the static helpers and #defines of the same
#         file they use) into two generated translation units, compiled (UBSan trap mode where available) and linked with
#         the unchanged in-tree gsm_utils.c; harness/c/c19_sch_harness.c speaks the line protocol of
#         lean/OsmoVerif/Driver/SchDecode.lean (verbs sch.fw, sch.trx)
# Oracle: an independent Python encoder/decoder of the standard's layout (octet figure as MSB-first bit strings, not the
#         shifts and masks of the C code) judges what the real decoders return.
import os, re
from lib import vf, cbuild

LEAN_MODULES = ["OsmoVerif.Props.C19Sch"]
DRIVER_MODULES = ["SchDecode"]
LEAN_MODEL_MODULES = ["OsmoVerif.Model.SchDecode", "OsmoVerif.Spec.SchCoding", "OsmoVerif.Lemmas.SchDecode"]
ASSUMPTIONS = [
    "sch part: theorems are about OsmoVerif.Model.SchDecode: hand model, statement by statement, of l1s_decode_sb (prim_fbsb.c) and decode_sb (sched_lchan_sch.c) with C widths (uint32_t shifts incl. the wrap of sb << 9, the (uint32_t) cast of sb_info[3] << 24 against the int-promoted sb_info[2] << 16 / sb_info[1] << 8 with signed-shift overflow as an explicit undefined-behaviour outcome, uint16_t t1, uint8_t bsic/t2/t3/t3p/tc, t3p*10+1 in int stored to uint8_t, the memset in the firmware, tc not written by trxcon); both call Model.GsmTime.cGsmTime2Fn (the C19 model of gsm_gsmtime2fn, not a copy); int is 32 bit, uint32_t is unsigned int",
    "sch part: the Spec (Spec/SchCoding.lean) is written from TS 44.018 9.1.30 (figure 9.1.30.1: BSIC | T1 high / T1 middle / T1 low | T2 | T3' high / T3' low), TS 45.002 3.3.2.2.1 (T1 = FN div 1326, T2 = FN mod 26, T3' = (T3 - 1) div 10) and clause 7 table 3 (SCH in frames 1, 11, 21, 31, 41 of the 51-multiframe), with d(8(N-1)+(M-1)) = bit M of octet N carried in bit k of the word; the standards are not available offline, the layout is stated explicitly (Spec.SchCoding.layout) and is the one of libosmocoding's gsm0503_sch_encode/decode (lsb_mode packing): what is proved is that both decoders invert this ONE encoder",
    "sch part: how the word reaches the decoders is outside the model: the firmware takes dsp_api.db_r->a_sch[3] | a_sch[4] << 16 from the DSP, trxcon the four octets of libosmocoding's gsm0503_sch_decode (which writes 25 bits; bits 1..7 of sb_info[3] are indeterminate stack content in rx_sch_fn - the theorems hold for every value of them)",
    "sch part: tied to the current tree by differential execution of the extracted function texts (by name + brace matching, static helpers and #defines of the same file included, comments stripped; logging macros are argument sinks) against the Lean driver on all single-bit words, every T3' value, T1/T2 boundaries, garbage in bits 25..31, the Lean examples and seeded random words/octets; thorough: every SCH frame of the hyperframe; the extracted units are compiled with -fsanitize=undefined in trap mode when the compiler supports it (a trapped operation is the outcome UB)",
]
MANIFEST_TEXT = (" || sch part (l1s_decode_sb of prim_fbsb.c, decode_sb of sched_lchan_sch.c; Props/C19Sch.lean): spec_layout / spec_layout_inverse (octet figure of "
                 "TS 44.018 9.1.30 = the 25-entry bit table), decoders_agree / decoders_agree_word (for all four octets resp. every 32-bit word trxcon's decoder is defined - no "
                 "int shift overflow - and yields the firmware's BSIC, T1, T2, T3, FN; it leaves tc alone), decode_encode_fw / decode_encode_trx (for every BSIC 0..63 and every "
                 "SCH frame of the hyperframe, any content of the unused bits 25..31: decoding Spec.encodeSb(bsic, fn) gives bsic and exactly gsm_fn2gsmtime(fn) incl. the "
                 "firmware's TC), encode_decode / decode_consistent_iff (a 25-bit word with T2 <= 25, T3' <= 4 is the encoding of what it decodes to; the decoded struct is "
                 "the GSM time of its own fn inside the hyperframe exactly for those words), decode_reads_layout / decode_ignores_high_bits (every word: exactly the table's "
                 "25 bits are read, no store wraps), fn_exact (T2 <= T3 + 26: no wrap, FN <= 2715668), fn_wraps_iff (the int recomposition is negative, and the uint32_t "
                 "conversion wraps to 2^32 - (51 (T2 - 27) - 1), exactly for T1 = 0, T3' = 0, T2 in 28..31), t3p_invalid_not_sch (T3' in 5..7: T3 = 51, 61, 71 stored as is, "
                 "FN mod 51 in {0, 10, 20}, never an SCH frame, struct inconsistent)")
MANIFEST_NOTE = (" || sch part: trusted additionally the extractor and generated wrappers of props/c19_sch_part.py, harness/c/c19_sch_harness.c, the compiler's UBSan trap "
                 "mode (evidence for 'no undefined shift', not proof); modelled not verified: C integer promotion / conversion rules as written in Model/SchDecode.lean; "
                 "assumed: the bit numbering of the standard as stated in Spec/SchCoding.lean (not checkable offline), the DSP's word layout for the firmware; observed, not a "
                 "violation: both decoders accept words with T2 in 26..31 or T3' in 5..7 (garbage that passed the 10-bit parity) and return a frame number outside the "
                 "SCH positions, for T1 = 0, T3' = 0, T2 >= 28 one wrapped to about 2^32 (trxcon rejects it by comparing with the burst's fn; the firmware sets its time from it)")

H = 26 * 51 * 2048
SCH_T3 = (1, 11, 21, 31, 41)
FW_C = "src/target/firmware/layer1/prim_fbsb.c"
TRX_C = "src/host/trxcon/src/sched_lchan_sch.c"
FW_FUNC = "l1s_decode_sb"
TRX_FUNC = "decode_sb"
UBSAN = ["-fsanitize=undefined", "-fsanitize-undefined-trap-on-error", "-fno-sanitize=alignment"]

PRELUDE = r'''/* GENERATED by /verif/props/c19_sch_part.py -- the extracted text is unchanged */
#include <stdint.h>
#include <stddef.h>
#include <stdbool.h>
#include <stdio.h>
#include <string.h>
#include <errno.h>
#include <osmocom/gsm/gsm_utils.h>
/* environment: logging / assertions are argument sinks (arguments ARE evaluated) */
static volatile long c19_sink;
static void c19_logp(int a, ...) { c19_sink += a; }
#define LOGP(ss, level, fmt, args...) c19_logp(0, ss, level, fmt, ##args)
#define LOGP_LCHAND(lchan, level, fmt, args...) c19_logp(0, level, fmt, ##args)
#define LOGP_LCHANC(lchan, level, fmt, args...) c19_logp(0, level, fmt, ##args)
#define OSMO_ASSERT(x) c19_logp((x) ? 0 : 1)
enum { LOGL_DEBUG = 1, LOGL_INFO = 3, LOGL_NOTICE = 5, LOGL_ERROR = 7, LOGL_FATAL = 8 };
'''

C_KEYWORDS = {"if", "for", "while", "switch", "return", "sizeof", "do", "else", "LOGP", "LOGP_LCHAND", "LOGP_LCHANC", "OSMO_ASSERT"}


# ------------------------------------------------------------------------------------------
# extraction of the functions under test

def strip_comments(src):
    src = re.sub(r"/\*.*?\*/", "", src, flags=re.S)
    return re.sub(r"//[^\n]*", "", src)


def helpers_of(src, func, seen):
    """static helper functions of the same file that `func` calls (transitively), as text, callees first"""
    out = []
    for name in re.findall(r"\b([A-Za-z_]\w*)\s*\(", func):
        if name in C_KEYWORDS or name in seen:
            continue
        seen.add(name)
        h = vf.c_function(src, name)
        if h and re.search(r"\bstatic\b", h.split("{", 1)[0]):
            out += helpers_of(src, h, seen) + [h.strip()]
    return out


def macros_used(src, text):
    """#define lines (with continuations) of the same file whose name occurs in the extracted text (transitively)"""
    defs = {}
    for m in re.finditer(r"^[ \t]*#[ \t]*define[ \t]+(\w+)((?:[^\n\\]|\\.|\\\n)*)$", src, re.M):
        defs.setdefault(m.group(1), m.group(0))
    out, seen, todo = [], set(), [text]
    while todo:
        t = todo.pop()
        for name in re.findall(r"\b[A-Za-z_]\w*\b", t):
            if name in defs and name not in seen:
                seen.add(name)
                out.append(defs[name])
                todo.append(defs[name])
    return out


def extract(rel, func):
    path = os.path.join(vf.REPO, rel)
    src = strip_comments(open(path, errors="replace").read())
    body = vf.c_function(src, func)
    if not body:
        raise vf.HarnessError("function %s not found in %s" % (func, rel))
    helpers = helpers_of(src, body, {func})
    macros = macros_used(src, "\n".join(helpers + [body]))
    return {"func": body.strip(), "helpers": helpers, "macros": macros}


def unit_text(rel, func, wrapper):
    ex = extract(rel, func)
    txt = PRELUDE
    if ex["macros"]:
        txt += "\n/* --- %s: macros --- */\n%s\n" % (rel, "\n".join(ex["macros"]))
    for h in ex["helpers"]:
        txt += "\n/* --- %s: helper --- */\n%s\n" % (rel, h)
    txt += "\n/* --- %s: %s --- */\n%s\n\n%s\n" % (rel, func, ex["func"], wrapper)
    return txt


FW_WRAPPER = "uint8_t c19_fw_decode_sb(struct gsm_time *time, uint32_t sb)\n{\n\treturn %s(time, sb);\n}\n" % FW_FUNC
TRX_WRAPPER = ("void c19_trx_decode_sb(struct gsm_time *time, uint8_t *bsic, uint8_t *sb_info)\n{\n\t%s(time, bsic, sb_info);\n}\n"
               % TRX_FUNC)


# C19 speaks about gsm_fn2gsmtime / gsm_gsmtime2fn, l1s_time_inc and HoppingParams.fn2gsm_time, not about the SCH decoders
# that consume them.  The decoders are an EXTENSION of the model: theorems, tie and oracle are built, run and reported in the
# evidence on every run, but a decoder that differs from its model or from the standard's coding is printed as a NOTE and
# counted in the evidence ("extension(sch): ...") - it is not a violation of C19 (whose own check still judges the time
# arithmetic the decoders call).  True = such findings and a broken tie of this part are reported as violations too.
SCH_DECIDES = False


def build_harness(run):
    if getattr(run, "c19_sch_exe", None):
        return run.c19_sch_exe
    units = []
    for name, rel, func, wrapper in (("c19_sch_fw", FW_C, FW_FUNC, FW_WRAPPER), ("c19_sch_trx", TRX_C, TRX_FUNC, TRX_WRAPPER)):
        src = os.path.join(run.scratch, name + ".c")
        with open(src, "w") as f:
            f.write(unit_text(rel, func, wrapper))
        units.append((src, name))
    objs = []
    run.c19_sch_ubsan = True
    for src, name in units:
        try:
            if not run.c19_sch_ubsan:
                raise vf.HarnessError("no ubsan")
            objs.append(cbuild.obj(run, src, name, flags=cbuild.CONSOLE_FLAGS + UBSAN, includes=[cbuild.LIBOSMO_INC]))
        except vf.HarnessError:
            # a compiler without the trap mode: plain build (the tie then sees only the values)
            run.c19_sch_ubsan = False
            objs.append(cbuild.obj(run, src, name, flags=cbuild.CONSOLE_FLAGS, includes=[cbuild.LIBOSMO_INC]))
    gu = cbuild.libosmocore_obj(run, "gsm/gsm_utils.c", "c19_sch_gsm_utils", extra_flags=cbuild.CONSOLE_FLAGS)
    h = cbuild.obj(run, os.path.join(vf.ROOT, "harness/c/c19_sch_harness.c"), "c19_sch_harness", includes=[cbuild.LIBOSMO_INC])
    run.c19_sch_exe = cbuild.link(run, [h] + objs + [gu, cbuild.console_sink(run)], "c19_sch_harness.bin", ignore_unresolved=True)
    return run.c19_sch_exe


# ------------------------------------------------------------------------------------------
# the standard, independently of the C code and of the Lean spec: figure 9.1.30.1 of TS 44.018 as MSB-first bit strings

def msb(v, n):
    return [(v >> (n - 1 - i)) & 1 for i in range(n)]


def val(bits):
    v = 0
    for b in bits:
        v = 2 * v + b
    return v


def std_octets(bsic, t1, t2, t3p):
    """the four octets of the SCH information, each written bit 8 first"""
    B, T1, T2, T3P = msb(bsic, 6), msb(t1, 11), msb(t2, 5), msb(t3p, 3)
    o1 = B + T1[0:2]                 # BSIC | T1 (high)
    o2 = T1[2:10]                    # T1 (middle)
    o3 = T1[10:11] + T2 + T3P[0:2]   # T1 (low) | T2 | T3' (high)
    o4 = [0] * 7 + T3P[2:3]          # T3' (low) in bit 1
    return [val(o) for o in (o1, o2, o3, o4)]


def std_word(octets):
    """d(8(N-1)+(M-1)) = bit M of octet N, d(k) carried in bit k of the word"""
    d = []
    for o in octets:
        d += [(o >> (m - 1)) & 1 for m in range(1, 9)]
    return sum(b << k for k, b in enumerate(d))


def std_encode(bsic, fn):
    """TS 45.002 3.3.2.2.1; defined for BSIC 0..63 and SCH frames of the hyperframe"""
    if not (0 <= bsic < 64 and 0 <= fn < H and fn % 51 in SCH_T3):
        return None
    return std_word(std_octets(bsic, fn // (26 * 51), fn % 26, (fn % 51 - 1) // 10))


def std_fields(word):
    """(bsic, t1, t2, t3p) of the low 25 bits of a word, read off the figure"""
    d = [(word >> k) & 1 for k in range(25)] + [0] * 7
    octs = [[d[8 * n + (m - 1)] for m in range(8, 0, -1)] for n in range(4)]     # each bit 8 first
    o1, o2, o3, o4 = octs
    return val(o1[0:6]), val(o1[6:8] + o2 + o3[0:1]), val(o3[1:6]), val(o3[6:8] + o4[7:8])


def std_time(fn):
    return (fn, fn // 1326, fn % 26, fn % 51, (fn // 51) % 8)


def valid_fields(word):
    b, t1, t2, t3p = std_fields(word)
    return t2 < 26 and t3p < 5


def frame_of(word):
    """the (bsic, fn) a word with valid fields is the encoding of (Chinese remainder by search over the superframe)"""
    b, t1, t2, t3p = std_fields(word)
    t3 = 10 * t3p + 1
    for r in range(t3, 1326, 51):
        if r % 26 == t2:
            return b, r + 1326 * t1
    return None


# ------------------------------------------------------------------------------------------
# inputs

def octets_of(word):
    return [(word >> (8 * i)) & 255 for i in range(4)]


def boundary_words():
    ws = {0, 0xffffffff, 0x1ffffff, 0x7c0000, 0x1d3ff03}
    ws.update(1 << k for k in range(32))                        # every single bit
    ws.update(0xffffffff ^ (1 << k) for k in range(32))         # every single hole
    for t3p in range(8):                                        # every T3' value (0..4 valid, 5..7 not)
        for t2 in (0, 1, 12, 24, 25, 26, 27, 28, 31):
            for t1 in (0, 1, 2, 511, 512, 1023, 1024, 2046, 2047):
                for bsic in (0, 63):
                    ws.add(std_word(std_octets(bsic, t1, t2, t3p)))
    return sorted(ws)


def boundary_frames():
    fs = set()
    for base in (0, 51, 1326, 2 * 1326, 512 * 1326, 1024 * 1326, H // 2, H - 1326, H - 51):
        for k in range(-60, 61):
            fn = base + k
            if 0 <= fn < H and fn % 51 in SCH_T3:
                fs.add(fn)
    return sorted(fs)


def random_frame(rng):
    return rng.randrange(0, H // 51) * 51 + rng.choice(SCH_T3)


def in_domain(req):
    """inside the property's quantifier: the word is the standard's encoding of some (BSIC, SCH frame of the hyperframe),
    i.e. its T2 field is <= 25 and its T3' field <= 4.  trxcon: any content of bits 1..7 of sb_info[3] (rx_sch_fn leaves
    them uninitialised); firmware: bits 25..31 zero.  Other words (garbage that passed the parity check) are still run and
    compared - the model claims the C behaviour there too - but a difference is evidence, not a broken tie."""
    t = req.split()
    try:
        if t[0] == "sch.fw":
            w = int(t[1])
            return 0 <= w < (1 << 25) and valid_fields(w)
        if t[0] == "sch.trx":
            o = [int(x) for x in t[1:5]]
            return all(0 <= x < 256 for x in o) and valid_fields(sum(x << (8 * i) for i, x in enumerate(o)))
    except (ValueError, IndexError):
        return False
    return False


def requests_for(words):
    reqs = []
    for w in words:
        reqs.append("sch.fw %d" % w)
        reqs.append("sch.trx %d %d %d %d" % tuple(octets_of(w)))
    return reqs


# ------------------------------------------------------------------------------------------
# correspondence

def correspond(run, corr):
    exe = build_harness(run)
    run.drift["prim_fbsb.c:l1s_decode_sb"] = vf.src_hash_c(os.path.join(vf.REPO, FW_C), [FW_FUNC])
    run.drift["sched_lchan_sch.c:decode_sb"] = vf.src_hash_c(os.path.join(vf.REPO, TRX_C), [TRX_FUNC])
    rng = run.rng
    words = set(boundary_words())
    for fn in boundary_frames():
        for bsic in (0, 21, 63):
            words.add(std_encode(bsic, fn))
    n = run.scale(3000, 60000)
    for _ in range(n):
        w = std_encode(rng.randrange(0, 64), random_frame(rng))
        words.add(w)
        words.add(w | (rng.randrange(1, 128) << 25))            # garbage above bit 24
        words.add(rng.randrange(0, 1 << 32))                    # anything
        words.add(rng.randrange(0, 1 << 25))
    words = sorted(words)
    reqs = requests_for(words)
    bad = ["sch.fw", "sch.fw 4294967296", "sch.trx 1 2 3", "sch.trx 256 0 0 0", "sch.trx 0 0 0 256", "sch.bogus 1", "sch.fw 1 2"]
    impl = vf.run_lines([exe], reqs + bad)
    model = vf.run_driver(reqs + bad)
    corr.compare(reqs + bad, impl, model, in_domain=lambda r: SCH_DECIDES and (in_domain(r) or r in bad))
    ndiff = sum(1 for r, a, b in zip(reqs + bad, impl, model) if a != b and (in_domain(r) or r in bad))
    corr.distribution["extension(sch): differences decoders vs model on valid words (reported here, not a C19 violation)"] = ndiff
    if ndiff and not SCH_DECIDES:
        print("NOTE: C19 extension 'sch': the SCH decoders differ from Model/SchDecode on %d valid words (the theorems of Props/C19Sch "
              "are not about this tree; C19 itself is decided without them)" % ndiff)
    for r in reqs:
        corr.count(r, r.split()[0] + (" valid-fields" if in_domain(r) else " other"))
    corr.distribution["sch: extracted units compiled with UBSan trap mode"] = int(bool(getattr(run, "c19_sch_ubsan", False)))
    # the oracle's own encoder / field reader against the Lean Spec (a difference is a defect of the check, not of the code)
    frames = [(rng.randrange(0, 64), random_frame(rng)) for _ in range(run.scale(500, 5000))] + \
             [(b, fn) for fn in boundary_frames()[:200] for b in (0, 63)] + [(64, 1), (0, 0), (0, 2), (0, H + 1), (5, 10), (63, H - 10)]
    sreqs = ["sch.enc %d %d" % bf for bf in frames] + ["sch.lay %d" % w for w in words[:3000]]
    smodel = vf.run_driver(sreqs)
    swant = [("none" if std_encode(b, fn) is None else str(std_encode(b, fn))) for b, fn in frames] + \
            ["%d %d %d %d" % std_fields(w) for w in words[:3000]]
    for r, a, b in zip(sreqs, swant, smodel):
        if a != b:
            raise vf.InternalError("the Python oracle's reading of the standard and Spec.SchCoding differ on %r: %s vs %s" % (r, a, b))
    corr.distribution["sch: oracle encoder/decoder vs Lean Spec (lines)"] = len(sreqs)
    if run.thorough:
        # every SCH frame of the hyperframe, one BSIC each (cycling), through model and code
        reqs2 = []
        k = 0
        for fn in range(0, H):
            if fn % 51 in SCH_T3:
                w = std_encode(k % 64, fn)
                k += 1
                reqs2.append("sch.fw %d" % w)
                reqs2.append("sch.trx %d %d %d %d" % tuple(octets_of(w | ((k % 128) << 25))))
        impl2 = vf.run_lines([exe], reqs2)
        model2 = vf.run_driver(reqs2)
        corr.compare(reqs2, impl2, model2, in_domain=lambda r: SCH_DECIDES and in_domain(r))
        corr.evaluations += len(reqs2)
        corr.distribution["sch: every SCH frame of the hyperframe, model-vs-code lines"] = len(reqs2)
    corr.rule = (corr.rule + " || sch part: a case is one decoder call (sch.fw WORD / sch.trx O0 O1 O2 O3); words: every single-bit word and its "
                 "complement, every T3' value 0..7 x T2 in {0,1,12,24..28,31} x T1 at the boundaries of its three parts x BSIC {0,63}, the encodings of the SCH frames "
                 "around the superframe / T1-part / hyperframe boundaries, seeded random SCH frames with and without garbage in bits 25..31, random 32-bit and 25-bit "
                 "words; both decoders get every word; words whose T2/T3' fields are outside the standard's ranges are compared as outside-domain evidence; thorough "
                 "adds every SCH frame of the hyperframe")
    corr.samples += [{"request": r, "impl": a, "model": b} for r, a, b in list(zip(reqs, impl, model))[200:204]]


# ------------------------------------------------------------------------------------------
# the property oracle on the real code (independent of the Lean model)
#   (b) for every BSIC 0..63 and every SCH frame fn of the hyperframe: the firmware decoder returns bsic and
#       (fn, fn div 1326, fn mod 26, fn mod 51, (fn div 51) mod 8) on the standard's word; the trxcon decoder returns bsic and
#       (fn, T1, T2, T3) on its four octets, whatever bits 1..7 of the fourth octet hold;
#   (a) on those inputs the two decoders agree (implied by (b); reported separately when only one of them is wrong).

REQUIRES = ("decoding the standard's word of (BSIC, FN) - TS 44.018 9.1.30 layout, T1 = FN div 1326, T2 = FN mod 26, T3' = (FN mod 51 - 1) div 10 - returns BSIC and "
            "exactly gsm_fn2gsmtime(FN): fn, t1, t2, t3 (firmware also tc = (FN div 51) mod 8); both decoders agree; bits 1..7 of sb_info[3] are ignored by trxcon")


def judge(bsic, fn, g, fw_ans, trx_ans):
    """None if the property holds for this (bsic, fn, garbage), else (which, what)"""
    want_fw = "%d %d %d %d %d %d" % ((bsic,) + std_time(fn))
    want_trx = "%d %d %d %d %d" % ((bsic,) + std_time(fn)[:4])
    fw_bad = fw_ans != want_fw
    trx_bad = trx_ans != want_trx
    if not fw_bad and not trx_bad:
        return None
    if fw_bad and trx_bad:
        which = "both"
    else:
        which = "firmware" if fw_bad else "trxcon"
    what = []
    if fw_bad:
        what.append("l1s_decode_sb returned %s, the standard gives %s" % (fw_ans, want_fw))
    if trx_bad:
        what.append("decode_sb returned %s, the standard gives %s" % (trx_ans, want_trx))
    if fw_ans.split()[:5] != trx_ans.split():
        what.append("the two decoders disagree on the same word")
    return which, "; ".join(what)


def check_cases(exe, cases):
    """cases: [(bsic, fn, garbage)] -> list of (case, word, octets, fw_ans, trx_ans, verdict)"""
    reqs = []
    meta = []
    for bsic, fn, g in cases:
        w = std_encode(bsic, fn)
        o = octets_of(w | (g << 25))
        reqs.append("sch.fw %d" % w)
        reqs.append("sch.trx %d %d %d %d" % tuple(o))
        meta.append((w, o))
    out = vf.run_lines([exe], reqs)
    res = []
    for i, (case, (w, o)) in enumerate(zip(cases, meta)):
        fw_ans, trx_ans = out[2 * i], out[2 * i + 1]
        res.append((case, w, o, fw_ans, trx_ans, judge(case[0], case[1], case[2], fw_ans, trx_ans)))
    return res


def report(run, case, w, o, fw_ans, trx_ans, verdict):
    bsic, fn, g = case
    which, what = verdict
    if not SCH_DECIDES:
        EXT_NOTES.append("%s: bsic %d fn %d word 0x%08x: %s" % (which, bsic, fn, w, what) if len(EXT_NOTES) < 50 else "")
        return 0
    wit = {"part": "sch", "kind": "sch-decode", "decoder": which, "bsic": bsic, "fn": fn, "t3": fn % 51,
           "word": w, "word_hex": "0x%08x" % w, "sb_info": o, "garbage_bits_25_31": g,
           "impl_fw": fw_ans, "impl_trx": trx_ans,
           "spec_fw": "%d %d %d %d %d %d" % ((bsic,) + std_time(fn)), "spec_trx": "%d %d %d %d %d" % ((bsic,) + std_time(fn)[:4]),
           "fails": what, "property_requires": REQUIRES}
    return run.report_witness(wit)


def oracle_cases(run, deep):
    rng = run.rng
    cases = []
    for fn in boundary_frames():
        for bsic in (0, 42, 63):
            cases.append((bsic, fn, 0))
            cases.append((bsic, fn, rng.choice([1, 64, 127, rng.randrange(1, 128)])))
    n = run.scale(4000, 40000) * (3 if deep else 1)
    for _ in range(n):
        cases.append((rng.randrange(0, 64), random_frame(rng), rng.choice([0, 0, 127, 64, rng.randrange(0, 128)])))
    # every T3 position x every T2 x T1 boundaries (reduced domain of the field extraction)
    for t1 in (0, 1, 2, 3, 255, 256, 511, 512, 513, 1023, 1024, 1535, 1536, 2046, 2047):
        for r in range(0, 1326):
            if r % 51 in SCH_T3:
                cases.append(((t1 + r) % 64, 1326 * t1 + r, (r * 7) % 128))
    return cases


EXT_NOTES = []


def search(run, corr, deep):
    del EXT_NOTES[:]
    try:
        return search_(run, corr, deep)
    finally:
        corr.distribution["extension(sch): (bsic, frame) cases on which a real decoder does not return the standard's fields (not a C19 violation by itself)"] = len(EXT_NOTES)
        if EXT_NOTES:
            print("NOTE: C19 extension 'sch': %d decoder findings, first: %s" % (len(EXT_NOTES), EXT_NOTES[0][:200]))


def search_(run, corr, deep):
    exe = build_harness(run)
    cases = []
    # inputs on which the tie broke, if they are inside the domain
    for d in corr.disagreements:
        r = d.get("request", "")
        if r.startswith("sch.") and in_domain(r):
            t = r.split()
            w = int(t[1]) if t[0] == "sch.fw" else sum(int(x) << (8 * i) for i, x in enumerate(t[1:5]))
            bf = frame_of(w & 0x1ffffff)
            if bf:
                cases.append((bf[0], bf[1], w >> 25))
    cases += oracle_cases(run, deep)
    cases = list(dict.fromkeys(cases))
    found = 0
    stats = {"ok": 0, "fail": 0}
    for res in check_cases(exe, cases):
        if res[5] is None:
            stats["ok"] += 1
        else:
            stats["fail"] += 1
            if found < 3:
                found += report(run, *res)
    corr.distribution["sch oracle: (bsic, SCH frame, garbage) cases judged on the real decoders"] = len(cases)
    if run.thorough or deep:
        # every SCH frame of the hyperframe x 3 BSICs through encode -> real decoders
        bad = 0
        total = 0
        for bsic0 in (0, 63, run.rng.randrange(1, 63)):
            chunk = []
            for fn in range(0, H):
                if fn % 51 in SCH_T3:
                    chunk.append(((bsic0 + fn) % 64 if bsic0 not in (0, 63) else bsic0, fn, (fn // 51) % 128))
            total += len(chunk)
            for res in check_cases(exe, chunk):
                if res[5] is not None:
                    bad += 1
                    if found < 3:
                        found += report(run, *res)
        corr.distribution["sch oracle: every SCH frame of the hyperframe x 3 BSICs (cases)"] = total
        corr.distribution["sch oracle: failing cases in the exhaustive sweep"] = bad
    return found


def replay_witness(run, w):
    """re-run one recorded witness; True if the property still fails on it"""
    exe = build_harness(run)
    res = check_cases(exe, [(w["bsic"], w["fn"], w.get("garbage_bits_25_31", 0))])[0]
    print("replay sch bsic=%d fn=%d word=%s sb_info=%s\n  l1s_decode_sb -> %s (standard: %s)\n  decode_sb     -> %s (standard: %s)\n  verdict=%s"
          % (w["bsic"], w["fn"], w["word_hex"], res[2], res[3], w["spec_fw"], res[4], w["spec_trx"],
             res[5][1] if res[5] else "property holds"))
    return res[5] is not None
