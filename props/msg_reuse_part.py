# History oracle shared by C01 / C04 / C13: ONE message object (TxMsg / RxMsg) is encoded and sent, is then given other field
# values (attributes assigned; or its burst overwritten in place) and is encoded and sent again.  The second use must yield
# exactly what a FRESH object with the same fields yields: the same octets (C01 / C04: the octets follow the layout of the
# message as it is now) or the same refusal (C13: encoding is refused for exactly the messages that do not validate - as they
# are now, not as they were when last checked).  Real code only (harness verbs trxd.*.gen2 / gen1); no model involved.
from lib import vf
from lib import trxd as T


def variants(rng, kind, m):
    """second records for a first record m: other valid messages come from the caller; here: the same header with a burst that
    makes it invalid / different"""
    out = []
    if m.burst is not None:
        n = len(m.burst)
        base = bytes(m.burst)
        flipped = bytes((b ^ 1) if kind == "tx" else (0x7f if b != 0x7f else 0x01) for b in base)
        out.append(m.copy(burst=flipped))                                    # same length, other content
        out.append(m.copy(burst=base[: n - 1]))                              # wrong length
        out.append(m.copy(burst=None))                                       # no burst
        out.append(m.copy(burst=base + base[:1]))
    else:
        out.append(m.copy(burst=T.const_burst(148, 1 if kind == "tx" else 0x7f)))   # a burst added (NOPE.ind / header only)
    return out


def run(run_, corr, pool, only_valid_second, tag):
    """pool: [(kind, record, legacy)] of first messages; -> list of (kind, mode, m1, l1, m2, l2, got, want)"""
    rng = run_.rng
    reqs, refs, meta = [], [], []
    n = run_.scale(1500, 20000)
    by = {"tx": [x for x in pool if x[0] == "tx"], "rx": [x for x in pool if x[0] == "rx"]}
    for _ in range(n):
        kind = rng.choice(["tx", "rx"])
        if len(by[kind]) < 2:
            continue
        _, m1, l1 = rng.choice(by[kind])
        if rng.random() < 0.5:
            _, m2, l2 = rng.choice(by[kind])
        else:
            vs = variants(rng, kind, m1)
            m2, l2 = rng.choice(vs), l1
        if only_valid_second and not (T.in_range_tx(m2) if kind == "tx" else T.in_range_rx(m2)):
            continue
        for mode in ("a", "i"):
            reqs.append("trxd.%s.gen2 %s %d %s %d %s" % (kind, mode, l1, m1.line(), l2, m2.line()))
            refs.append("trxd.%s.gen1 %d %s" % (kind, l2, m2.line()))
            meta.append((kind, mode, m1, l1, m2, l2))
    got = vf.run_lines(T.HARNESS, reqs)
    want = vf.run_lines(T.HARNESS, list(dict.fromkeys(refs)))
    wmap = dict(zip(dict.fromkeys(refs), want))
    fails = []
    for (kind, mode, m1, l1, m2, l2), r, a in zip(meta, refs, got):
        if a != wmap[r]:
            fails.append((kind, mode, m1, l1, m2, l2, a, wmap[r]))
    corr.distribution["oracle(%s): second uses of ONE message object compared with a fresh object" % tag] = len(reqs)
    return fails


def witness(f, nfails):
    kind, mode, m1, l1, m2, l2, a, want = f
    return {"kind": "message-object-reused", "class": "TxMsg" if kind == "tx" else "RxMsg", "mode": "attributes assigned" if mode == "a" else "burst overwritten in place",
            "first_line": m1.line(), "first_legacy": l1, "line": m2.line(), "legacy": l2,
            "request": "trxd.%s.gen2 %s %d %s %d %s" % (kind, mode, l1, m1.line(), l2, m2.line()),
            "reference": "trxd.%s.gen1 %d %s" % (kind, l2, m2.line()),
            "second_use": a[:300], "fresh_object": want[:300],
            "what": "a message object that was encoded/sent before and then given these fields behaves differently from a fresh object with "
                    "the same fields (gen_msg | send_msg)", "failing_cases_in_this_run": nfails}


def replay(w):
    a, b = vf.run_lines(T.HARNESS, [w["request"], w["reference"]])
    return a != b, "replay re-used %s: second use -> %s ; fresh object -> %s : %s" % (
        w["class"], a[:120], b[:120], "VIOLATED" if a != b else "property holds")
