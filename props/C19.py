# C19 — GSM time arithmetic is consistent across the code base
import json, os
from lib import vf, cbuild
from gen import gsm_consts
from props import c19_sch_part as sch      # part "sch": the Synchronisation-Burst decoders (l1s_decode_sb, decode_sb)

ID = "C19"
LEVEL = "proof"
LEAN_MODULES = ["OsmoVerif.Props.C19"]
DRIVER_MODULES = ["GsmTime"]
LEAN_MODEL_MODULES = ["OsmoVerif.Model.GsmTime", "OsmoVerif.Lemmas.GsmTime"]
ASSUMPTIONS = [
    "theorems are about OsmoVerif.Model.GsmTime (hand model of gsm_fn2gsmtime, gsm_gsmtime2fn, ADD_MODULO, l1s_time_inc, fn2gsm_time with C widths)",
    "model tied to /repo by differential execution of the unchanged C files (gsm_utils.c, sync.c compiled for the host) and gsm_shared.py on boundary-dense inputs, in and outside the valid domain",
    "GSM_MAX_FN / GSM_HYPERFRAME regenerated from the tree on every run and used by the theorems",
    "firmware environment headers replaced by harness/c/shim (interrupt primitives only); unresolved firmware symbols are never called by l1s_time_inc",
]
MANIFEST = {
    "text": "Lean 4 theorems (decomp_recomp, time_inc for every FN of the hyperframe and every delta < hyperframe incl. the incremental carry path and the wrap, py_eq_c) over a hand model with C integer widths; GSM_MAX_FN/GSM_HYPERFRAME regenerated from the tree; the model is compared with the unchanged C (gsm_utils.c, sync.c) and Python code on boundary-dense and out-of-domain inputs, thorough tier over the whole hyperframe; an independent TS 45.002 oracle walks the hyperframe on the real C code for every delta",
    "note": "trusted: Lean kernel (+propext, Classical.choice, Quot.sound), gen/gsm_consts.py, the differential harness (harness/c/c19_harness.c, harness/py/gsmtime_harness.py), shim asm/system.h; modelled not verified: C integer promotion rules as written in Model/GsmTime.lean",
    "technique": "Lean 4 proof (CRT by kernel-evaluated residues + omega) over a C-width model; differential correspondence with the compiled C and Python",
    "design_ref": "DESIGN.md section 5 C19",
}
LEAN_MODULES += sch.LEAN_MODULES
DRIVER_MODULES += sch.DRIVER_MODULES
LEAN_MODEL_MODULES += sch.LEAN_MODEL_MODULES
ASSUMPTIONS += sch.ASSUMPTIONS
MANIFEST = dict(MANIFEST, text=MANIFEST["text"] + sch.MANIFEST_TEXT, note=MANIFEST["note"] + sch.MANIFEST_NOTE)
H = 26 * 51 * 2048
DELTAS = [1] + list(range(2, 61)) + [1325, 1326, 2715647]


def gen(run):
    run.consts = gsm_consts.generate(run)


def build_harness(run):
    if getattr(run, "c19_exe", None):
        return run.c19_exe
    gu = cbuild.libosmocore_obj(run, "gsm/gsm_utils.c", "gsm_utils", extra_flags=cbuild.CONSOLE_FLAGS)
    h = cbuild.obj(run, os.path.join(vf.ROOT, "harness/c/c19_harness.c"), "c19_harness",
                   includes=[cbuild.LIBOSMO_INC])
    # l1s_time_inc() wherever it lives in layer1/ (sync.c in the unchanged tree)
    sync_objs = cbuild.firmware_objs_for(run, "layer1/sync.c", ["l1s_time_inc"], "sync", extra_flags=cbuild.CONSOLE_FLAGS)
    run.c19_exe = cbuild.link(run, [h] + sync_objs + [gu, cbuild.console_sink(run)], "c19_harness.bin", ignore_unresolved=True)
    return run.c19_exe


def spec(fn):
    return (fn // 1326, fn % 26, fn % 51, (fn // 51) % 8)


def interesting_fns(run, n_rand):
    s = set()
    for base in (0, 26, 51, 408, 1326, 10608, H // 2, H - 1326, H):
        for k in range(0, 4):
            for d in range(-3, 4):
                v = base * (k + 1) + d if base else d
                if 0 <= v:
                    s.add(v)
    for m in (26, 51, 1326, 408):
        for _ in range(n_rand // 40):
            v = run.rng.randrange(0, H // m) * m
            s.update(x for x in (v - 1, v, v + 1) if x >= 0)
    for _ in range(n_rand):
        s.add(run.rng.randrange(0, H))
    return sorted(s)


def in_domain(req):
    """inside the property's quantifier: frame numbers of the hyperframe, (T1, T2, T3) that decompose one, a running time
    that is the decomposition of its frame number, deltas 1..GSM_MAX_FN-1.  uint32 frame numbers beyond the hyperframe,
    arbitrary struct contents and deltas of a hyperframe or more are still run and compared (the model claims the C widths
    there too), but a difference is listed in the evidence and is not a broken tie."""
    t = req.split()
    try:
        v = [int(x) for x in t[1:]]
        if t[0] in ("gt.fn2time", "gt.py"):
            return 0 <= v[0] < H
        if t[0] == "gt.time2fn":
            return v[0] < 2048 and v[1] < 26 and v[2] < 51      # 26 and 51 are coprime: every such triple is the time of a frame
        if t[0] == "gt.inc":
            fn, t1, t2, t3, tc, d = v
            return 0 <= fn < H and (t1, t2, t3, tc) == tuple(spec(fn)) and 1 <= d < H
    except (ValueError, IndexError):
        return False
    return True


def correspond(run, corr):
    exe = build_harness(run)
    run.drift["sync.c:l1s_time_inc"] = vf.src_hash_c(os.path.join(vf.REPO, "src/target/firmware/layer1/sync.c"), ["l1s_time_inc"])
    run.drift["gsm_utils.c"] = vf.src_hash_c(os.path.join(vf.REPO, "src/shared/libosmocore/src/gsm/gsm_utils.c"), ["gsm_fn2gsmtime", "gsm_gsmtime2fn"])
    n = run.scale(4000, 200000)
    fns = interesting_fns(run, n)
    reqs = []
    for fn in fns:
        reqs.append("gt.fn2time %d" % fn)
        t = spec(fn % H)
        reqs.append("gt.time2fn %d %d %d" % t[:3])
        for d in ([1] + run.rng.sample(DELTAS, 3)):
            reqs.append("gt.inc %d %d %d %d %d %d" % ((fn % H,) + t + (d,)))
    # outside the valid domain: the model claims the C widths too
    for _ in range(n // 4):
        reqs.append("gt.fn2time %d" % run.rng.choice([run.rng.randrange(H, 2 ** 32), 2 ** 32 - 1 - run.rng.randrange(0, 5000)]))
        reqs.append("gt.time2fn %d %d %d" % (run.rng.randrange(0, 65536), run.rng.randrange(0, 256), run.rng.randrange(0, 256)))
        reqs.append("gt.inc %d %d %d %d %d %d" % (run.rng.randrange(0, 2 ** 32), run.rng.randrange(0, 65536),
                    run.rng.randrange(0, 256), run.rng.randrange(0, 256), run.rng.randrange(0, 256),
                    run.rng.choice([1, 1, run.rng.randrange(0, 2 ** 32)])))
    impl = vf.run_lines([exe], reqs)
    model = vf.run_driver(reqs)
    corr.compare(reqs, impl, model, in_domain=in_domain)
    for r, a in zip(reqs, impl):
        corr.count(r, r.split()[0])
    # python side
    preqs = ["gt.py %d" % fn for fn in fns]
    pimpl = vf.run_lines([vf.PY, os.path.join(vf.ROOT, "harness/py/gsmtime_harness.py"), vf.TRX], preqs)
    pmodel = vf.run_driver(preqs)
    corr.compare(preqs, pimpl, pmodel, in_domain=in_domain)
    for r in preqs:
        corr.count(r, "gt.py")
    if run.thorough:
        # whole hyperframe through model and code (fn2time + delta-1 step)
        step = 1
        reqs2 = []
        for fn in range(0, H, step):
            t = spec(fn)
            reqs2.append("gt.fn2time %d" % fn)
            reqs2.append("gt.inc %d %d %d %d %d 1" % ((fn,) + t))
        impl2 = vf.run_lines([exe], reqs2)
        model2 = vf.run_driver(reqs2)
        corr.compare(reqs2, impl2, model2)
        corr.evaluations += len(reqs2)
        corr.distribution["full-hyperframe model-vs-code lines"] = len(reqs2)
        corr.exhaustive = True
    corr.rule = ("requests = boundary lattice around multiples of 26/51/408/1326/10608 and the wrap, plus seeded random FNs, "
                 "deltas from {1,2..60,1325,1326,2715647}, plus out-of-domain values (uint32 FNs, arbitrary struct contents); "
                 "a case is a distinct request line; all are non-trivial (each exercises the code under test); thorough adds every FN of the hyperframe")
    corr.samples = [{"request": r, "impl": a, "model": b} for r, a, b in list(zip(reqs, impl, model))[:4]] + \
                   [{"request": r, "impl": a, "model": b} for r, a, b in list(zip(preqs, pimpl, pmodel))[:2]]
    sch.correspond(run, corr)


def oracle_case(run, exe_lines, fn, d):
    """property oracle on the implementation for one (fn, delta); returns witness or None"""
    return None


def search(run, corr, deep):
    """property-level oracle on the real code (independent of the Lean model)"""
    exe = build_harness(run)
    found = 0
    # 1. exhaustive C walk: quick = delta 1 and two others, thorough/deep = every delta of the property
    deltas = DELTAS if (deep or run.thorough) else [1, 2, 1326, 2715647]
    out = vf.run_lines([exe], ["walk %d" % d for d in deltas])
    for d, ln in zip(deltas, out):
        tok = dict(x.split("=") for x in ln.split()[2:])
        if int(tok["bad"]):
            fn = int(tok["first"])
            w = {"kind": "c-time", "fn": fn, "delta": d, "bad_count": int(tok["bad"]),
                 "impl": vf.run_lines([exe], ["gt.fn2time %d" % fn, "gt.inc %d %d %d %d %d %d" % ((fn,) + spec(fn) + (d,))]),
                 "spec_new": [(fn + d) % H] + list(spec((fn + d) % H))}
            found += run.report_witness(w)
    corr.distribution["oracle: exhaustive C walks (deltas)"] = len(deltas)
    # 2. python fn2gsm_time vs spec
    # the property's quantifier: frame numbers of the hyperframe (what the toolkit does with other integers is compared
    # with the model in the correspondence, as evidence)
    fns = range(0, H) if (run.thorough or deep) else [f for f in interesting_fns(run, 20000) if 0 <= f < H]
    preqs = ["gt.py %d" % fn for fn in fns]
    pimpl = vf.run_lines([vf.PY, os.path.join(vf.ROOT, "harness/py/gsmtime_harness.py"), vf.TRX], preqs)
    for fn, a in zip(fns, pimpl):
        want = "%d %d %d %d" % spec(fn)
        if a != want:
            found += run.report_witness({"kind": "py-time", "fn": fn, "impl": a, "spec": want})
            break
    corr.distribution["oracle: python fn2gsm_time FNs"] = len(preqs)
    return found + sch.search(run, corr, deep)


def replay(run, path):
    rp = json.load(open(path))
    exe = build_harness(run)
    bad = 0
    for v in rp.get("violations", []):
        w = v.get("witness")
        if not w:
            print("replay: no concrete input recorded (%s)" % json.dumps(v.get("broken"))[:400])
            continue
        if w.get("part") == "sch":
            bad += sch.replay_witness(run, w)
        elif w["kind"] == "c-time":
            fn, d = w["fn"], w["delta"]
            out = vf.run_lines([exe], ["gt.fn2time %d" % fn, "gt.inc %d %d %d %d %d %d" % ((fn,) + spec(fn) + (d,))])
            want = ["%d %d %d %d %d" % ((fn,) + spec(fn)), "%d %d %d %d %d" % (((fn + d) % H,) + spec((fn + d) % H))]
            print("replay fn=%d delta=%d impl=%s spec=%s" % (fn, d, out, want))
            bad += out != want
        else:
            fn = w["fn"]
            out = vf.run_lines([vf.PY, os.path.join(vf.ROOT, "harness/py/gsmtime_harness.py"), vf.TRX], ["gt.py %d" % fn])
            print("replay py fn=%d impl=%s spec=%s" % (fn, out[0], "%d %d %d %d" % spec(fn)))
            bad += out[0] != "%d %d %d %d" % spec(fn)
    if bad:
        print("VIOLATION property=C19 replay=%s" % path)
    return 1 if bad else 0
