# C06, second part: the message buffers under the serial link (msgb.h / msgb.c / linuxlist.h queue), sercomm.c on
# these buffers, and osmocon's host-side use of the link (handle_sercomm_write, hdlc_send_to_phone, handle_buffer /
# handle_read / serial_read).
#   Lean:   Model/Msgb.lean, Model/SercommMsgb.lean, Model/Osmocon.lean; Lemmas/Msgb.lean, Lemmas/SercommMsgb.lean,
#           Lemmas/Osmocon.lean; Props/C06Msgb.lean, Props/C06Osmocon.lean; Driver/Msgb.lean (mb.*), Driver/Osmocon.lean (oc.*)
#   tie:    harness/c/c06_msgb_harness.c (the real msgb operations), harness/c/c06_osmocon_harness.c (the real osmocon.c
#           functions with a scripted serial fd), both with the real sercomm.c / msgb.c / talloc.c under ASan/UBSan;
#           the histories of the first part are additionally run on the model WITH real buffers (mb.sc / mb.sct)
#   oracle: an independent Python statement of what a message buffer / the host side of the link must do (below).
import hashlib, json, os
from lib import vf, cbuild
from gen import osmocon as gen_osmocon

LEAN_MODULES = ["OsmoVerif.Props.C06Msgb", "OsmoVerif.Props.C06Osmocon"]
LEAN_MODEL_MODULES = ["OsmoVerif.Model.Msgb", "OsmoVerif.Model.SercommMsgb", "OsmoVerif.Model.Osmocon",
                      "OsmoVerif.Lemmas.Msgb", "OsmoVerif.Lemmas.SercommMsgb", "OsmoVerif.Lemmas.Osmocon"]
DRIVER_MODULES = ["Msgb", "Osmocon"]
SAN = ["-fsanitize=address,undefined", "-fno-sanitize-recover=all", "-fno-omit-frame-pointer"]
ENV = {"ASAN_OPTIONS": "detect_leaks=0:abort_on_error=0", "UBSAN_OPTIONS": "print_stacktrace=0"}


def build(run):
    """the two harnesses: real msgb.h/msgb.c/talloc.c (+ sercomm.h), real osmocon.c + sercomm.c"""
    if getattr(run, "c06m_exe", None):
        return run.c06m_exe
    fw = os.path.join(vf.REPO, "src/target/firmware")
    lo = os.path.join(vf.REPO, "src/shared/libosmocore/src")
    cfgi = os.path.join(cbuild.SHIM, "cfg/a/b")
    inc = [cfgi, cbuild.LIBOSMO_INC, os.path.join(cbuild.FW_INC, "comm")]
    flags = SAN + ["-DHOST_BUILD"]
    msgb = cbuild.obj(run, os.path.join(lo, "msgb.c"), "c06m_msgb", flags=SAN, includes=[cfgi, cbuild.LIBOSMO_INC], compiler="clang")
    talloc = cbuild.obj(run, os.path.join(lo, "talloc.c"), "c06m_talloc", flags=SAN, includes=[cfgi, cbuild.LIBOSMO_INC], compiler="clang")
    exes = {}
    h = cbuild.obj(run, os.path.join(vf.ROOT, "harness/c/c06_msgb_harness.c"), "c06m_harness", flags=flags, includes=inc, compiler="clang")
    exes["msgb"] = cbuild.link(run, [h, msgb, talloc], "c06m_harness.bin", flags=SAN, compiler="clang")
    sc = cbuild.obj(run, os.path.join(fw, "comm/sercomm.c"), "c06m_sercomm", flags=flags, includes=inc, compiler="clang")
    oinc = [os.path.join(vf.ROOT, "harness/c/shim_osmocon")] + inc + [cbuild.TOP_INC]
    oc = cbuild.obj(run, os.path.join(vf.ROOT, "harness/c/c06_osmocon_harness.c"), "c06m_osmocon",
                    flags=flags + ['-DOSMOCON_C="%s"' % os.path.join(vf.REPO, "src/host/osmocon/osmocon.c")],
                    includes=oinc, compiler="clang")
    exes["osmocon"] = cbuild.link(run, [oc, sc, msgb, talloc], "c06m_osmocon.bin", flags=SAN, compiler="clang")
    run.c06m_exe = exes
    return exes


def gen(run):
    exes = build(run)
    run.c06m_consts = gen_osmocon.generate(run, exes["osmocon"], ENV)
