# C06, second part: the message buffers under the serial link (msgb.h / msgb.c / linuxlist.h queue), sercomm.c on
# these buffers, and osmocon's host-side use of the link (handle_sercomm_write, hdlc_send_to_phone, handle_buffer /
# handle_read / serial_read).
#   Lean:   Model/Msgb.lean, Model/SercommMsgb.lean, Model/Osmocon.lean; Lemmas/Msgb.lean, Lemmas/SercommMsgb.lean,
#           Lemmas/Osmocon.lean; Props/C06Msgb.lean, Props/C06Osmocon.lean; Driver/Msgb.lean (mb.*), Driver/Osmocon.lean (oc.*)
#   tie:    harness/c/c06_msgb_harness.c (the real msgb operations), harness/c/c06_osmocon_harness.c (the real osmocon.c
#           functions with a scripted serial fd), both with the real sercomm.c / msgb.c / talloc.c under ASan/UBSan;
#           the histories of the first part are additionally run on the model WITH real buffers (mb.sc / mb.sct)
#   oracle: an independent Python statement of what a message buffer / the host side of the link must do (below).
import hashlib, json, os
from lib import vf, cbuild
from gen import osmocon as gen_osmocon

LEAN_MODULES = ["OsmoVerif.Props.C06Msgb", "OsmoVerif.Props.C06Osmocon"]
LEAN_MODEL_MODULES = ["OsmoVerif.Model.Msgb", "OsmoVerif.Model.SercommMsgb", "OsmoVerif.Model.Osmocon",
                      "OsmoVerif.Lemmas.Msgb", "OsmoVerif.Lemmas.SercommMsgb", "OsmoVerif.Lemmas.Osmocon"]
DRIVER_MODULES = ["Msgb", "Osmocon"]
SAN = ["-fsanitize=address,undefined", "-fno-sanitize-recover=all", "-fno-omit-frame-pointer"]
ENV = {"ASAN_OPTIONS": "detect_leaks=0:abort_on_error=0", "UBSAN_OPTIONS": "print_stacktrace=0"}


def build(run):
    """the two harnesses: real msgb.h/msgb.c/talloc.c (+ sercomm.h), real osmocon.c + sercomm.c"""
    if getattr(run, "c06m_exe", None):
        return run.c06m_exe
    fw = os.path.join(vf.REPO, "src/target/firmware")
    lo = os.path.join(vf.REPO, "src/shared/libosmocore/src")
    cfgi = os.path.join(cbuild.SHIM, "cfg/a/b")
    inc = [cfgi, cbuild.LIBOSMO_INC, os.path.join(cbuild.FW_INC, "comm")]
    flags = SAN + ["-DHOST_BUILD"]
    msgb = cbuild.obj(run, os.path.join(lo, "msgb.c"), "c06m_msgb", flags=SAN, includes=[cfgi, cbuild.LIBOSMO_INC], compiler="clang")
    talloc = cbuild.obj(run, os.path.join(lo, "talloc.c"), "c06m_talloc", flags=SAN, includes=[cfgi, cbuild.LIBOSMO_INC], compiler="clang")
    exes = {}
    h = cbuild.obj(run, os.path.join(vf.ROOT, "harness/c/c06_msgb_harness.c"), "c06m_harness", flags=flags, includes=inc, compiler="clang")
    exes["msgb"] = cbuild.link(run, [h, msgb, talloc], "c06m_harness.bin", flags=SAN, compiler="clang")
    from gen import sercomm as _sg
    sc = [cbuild.obj(run, q, "c06m_sercomm%d" % i, flags=flags, includes=inc, compiler="clang") for i, q in enumerate(_sg.sercomm_sources())]
    oinc = [os.path.join(vf.ROOT, "harness/c/shim_osmocon")] + inc + [cbuild.TOP_INC]
    oc = cbuild.obj(run, os.path.join(vf.ROOT, "harness/c/c06_osmocon_harness.c"), "c06m_osmocon",
                    flags=flags + ['-DOSMOCON_C="%s"' % os.path.join(vf.REPO, "src/host/osmocon/osmocon.c")],
                    includes=oinc, compiler="clang")
    # symbols of the libosmocore environment that the functions under test never call (main(), the tool sockets, the loaders
    # may reference more of them after a change) must not keep the harness from linking
    exes["osmocon"] = cbuild.link(run, [oc] + sc + [msgb, talloc], "c06m_osmocon.bin",
                                  flags=SAN + ["-Wl,--unresolved-symbols=ignore-all"], compiler="clang")
    run.c06m_exe = exes
    return exes


def gen(run):
    exes = build(run)
    run.c06m_consts = gen_osmocon.generate(run, exes["osmocon"], ENV)


ASSUMPTIONS = [
    "message buffers: theorems are about OsmoVerif.Model.Msgb, a statement-level model of msgb.h (msgb_put/_u8/_u16/_u32, msgb_get*, msgb_push, msgb_pull*, msgb_reserve, msgb_trim, msgb_tailroom/headroom/headlen, msgb_alloc_headroom), msgb.c (msgb_alloc, msgb_reset, msgb_length, msgb_enqueue, msgb_dequeue), linuxlist.h (__llist_add, llist_add_tail, __llist_del, llist_del, llist_empty) and sercomm_alloc_msgb with the C widths (uint16_t data_len/len, int results, (int) len in the checks); where the header has no check the model's outcome is an explicit out-of-bounds tag (pointer formed outside _data[0..data_len] or dereferenced outside it), the VLA of osmo_static_assert on run-time values and the int shift of msgb_get/pull_u32 are explicit undefined-behaviour tags; tied to the tree by differential execution of the unchanged msgb.h/msgb.c/talloc.c/linuxlist.h under clang ASan+UBSan on scripts of operations (state after every operation, returned pointers and values, final memory)",
    "sercomm on real buffers: OsmoVerif.Model.SercommMsgb repeats the link of Model/Sercomm with every buffer a Model.Msgb buffer and every access the msgb.h operation sercomm.c calls there; Props/C06Msgb proves the simulation (same observations, no MSGB_ABORT / out-of-bounds access reachable) for every history whose sercomm_sendmsg calls have a queue index inside the array and a caller buffer from sercomm_alloc_msgb(a), 1 <= a <= 65531, holding at most a octets; the histories of the first part are run on this model too and compared with the real code; allocation failure (NULL) is not modelled",
    "osmocon: OsmoVerif.Model.Osmocon models handle_sercomm_write, hdlc_send_to_phone, handle_buffer, handle_read (Compal mode, dnload.filename == NULL, no chain loading) and the serial_read loop statement by statement; write()/read() on the serial fd are environment parameters (scripted in the harness by renaming them inside the #included osmocon.c); the libosmocore select/timer/serial API is stubbed (shim header adds the OSMO_FD_* names the in-tree libosmocore copy lacks); constants (256 octet write buffer, 512 octet send bound and allocation, 7 octet window, prompt tables, dnload_state values) are regenerated from the tree",
    "recorded here, not in known_findings.json (the coordinator decides): G1 handle_sercomm_write loses the octets a short or failed write() did not take (Props/C06Osmocon.write_lossless_full_fails; witness replayed on the real osmocon.c on every run); observations outside the property's paths: msgb_get returns data-len instead of the removed octets (Props/C06Msgb.get_u8_after_put_u8_full_fails), msgb_trim ignores the headroom in its bound (trim_full_fails)",
]

# findings of this part that are not (yet) in known_findings.json; same matching rule as vf.match_known.  An entry with the
# same match in known_findings.json takes precedence (run.known_match is consulted first).
LOCAL_KNOWN = []      # the finding of this part (short write) is recorded in /verif/known_findings.json as F23


def report(run, w):
    """report_witness with the part's own provisional findings"""
    w = dict(w, part="msgb")
    if run.known_match(w) is None:
        for k in LOCAL_KNOWN:
            if vf.match_known(k, w):
                if k["id"] not in [x["id"] for x in run.known_hits]:
                    run.known_hits.append(k)
                return False
    return bool(run.report_witness(w))


def hx(b):
    return bytes(b).hex() if len(b) else "-"


def impl(run, which, lines):
    return vf.run_lines([build(run)[which]], lines, env=ENV)


# ------------------------------------------------------------------------------------------------------------------
# reference: what a message buffer is (written from the API description in msgb.h: "modelled after struct skb":
# headroom | message | tailroom inside one array of data_len octets; put appends, push prepends, pull removes from the
# front, get removes from the end; an operation for which there is no room must not go through)

class RefMsgb:
    def __init__(self, size, headroom=0):
        self.size = size
        self.hr = headroom
        self.msg = []                 # octets of the message
        self.valid = True             # False once an operation outside its room was requested

    @property
    def tr(self):
        return self.size - self.hr - len(self.msg)

    def state(self):
        return (0, self.hr, self.hr + len(self.msg), len(self.msg), self.size)


U32 = 1 << 32


def be(v, n):
    return [(v >> (8 * (n - 1 - i))) & 0xFF for i in range(n)]


def gen_script(rng, sc_headroom=4, sc_slack=0):
    """-> (request line, expectations) where expectations[i] for token i is None (not judged) or a dict:
    state (h,d,t,l,dl), ret ('-', 'p<n>', 'v<n>'), or 'abort': True.  Judged only while the reference is valid."""
    r = rng.random()
    toks = []
    exp = []
    if r < 0.35:
        size = rng.choice([1, 2, 4, 8, 16, 33, 64, 255, 256, 300, 1024] * 4 + [4096, 65535])
        ref = RefMsgb(size)
        toks += ["alloc", str(size)]
    elif r < 0.7:
        n = rng.choice([1, 2, 3, 8, 16, 100, 255, 256, 512] * 4 + [2048, 65535 - sc_headroom - sc_slack])      # uint16_t size
        # what sercomm_alloc_msgb(n) promises: n octets of tailroom; the headroom is what the running code shows (translator)
        ref = RefMsgb(n + sc_slack + sc_headroom, sc_headroom)
        toks += ["scalloc", str(n)]
    elif r < 0.9:
        size = rng.choice([5, 6, 8, 12, 16, 40, 64, 300])
        h = rng.choice([0, 1, 2, 4, size - 1, rng.randrange(0, size)])
        ref = RefMsgb(size, h)
        toks += ["allochr", str(size), str(h)]
    else:
        # outside the reference: wrapped / degenerate allocations (model vs code only)
        c = rng.choice([("alloc", 65536), ("alloc", 65537), ("alloc", 70000), ("alloc", 0), ("scalloc", 0), ("scalloc", 65532),
                        ("scalloc", 65535), ("scalloc", 65536), ("scalloc", 65540), ("allochr", 8, 8), ("allochr", 8, 9),
                        ("allochr", 4, 3), ("allochr", 65540, 2), ("alloc", -1)])
        toks += [str(x) for x in c]
        ref = None
    exp.append({"state": ref.state(), "ret": "-"} if ref else None)
    nops = rng.choice([1, 2, 3, 5, 8, 13, 20])
    for _ in range(nops):
        room_t = ref.tr if ref and ref.valid else rng.randrange(0, 20)
        room_h = ref.hr if ref and ref.valid else rng.randrange(0, 20)
        ln = len(ref.msg) if ref and ref.valid else rng.randrange(0, 20)

        def around(x):
            # mostly inside the room (0, 1, 2, half, room-1, room), sometimes just beyond it
            if rng.random() < 0.12:
                return x + rng.choice([1, 1, 2, 3])
            return max(0, min(x, rng.choice([0, 1, 2, 3, x - 1, x, x, x // 2, rng.randrange(0, x + 1)])))
        cand = ["put", "putd", "putd", "pu8", "pu16", "pu32", "push", "pushd", "tr", "hr", "len", "hl", "trim", "reserve"]
        if ln >= 1:
            cand += ["pull", "pull", "get", "lu8", "gu8"]
        if ln >= 2:
            cand += ["lu16", "gu16"]
        if ln >= 4:
            cand += ["lu32", "gu32"]
        if rng.random() < 0.08:
            cand = ["pull", "get", "lu8", "lu16", "lu32", "gu8", "gu16", "gu32", "reset", "huge"]
        op = rng.choice(cand)
        e = None
        live = ref is not None and ref.valid
        if op == "put":
            n = around(room_t)
            toks += ["put", str(n)]
            if live:
                if n <= ref.tr:
                    e = {"ret": "p%d" % (ref.hr + len(ref.msg))}
                    ref.msg += [None] * n          # content not written by the call
                    e["state"] = ref.state()
                else:
                    e = {"abort": True}
                    ref.valid = False
        elif op == "putd":
            n = min(around(room_t), 4000)
            d = [rng.randrange(256) for _ in range(n)]
            toks += ["putd", hx(d)]
            if live:
                if n <= ref.tr:
                    ref.msg += d
                    e = {"ret": "-", "state": ref.state()}
                else:
                    e = {"abort": True}
                    ref.valid = False
        elif op in ("pu8", "pu16", "pu32"):
            w = {"pu8": 1, "pu16": 2, "pu32": 4}[op]
            v = rng.choice([0, 1, 0x7F, 0x80, 0xFF, 0x1234, 0x7FFFFFFF, 0x80000000, 0xFFFFFFFF, rng.randrange(U32)])
            toks += [op, str(v)]
            if live:
                if w <= ref.tr:
                    ref.msg += be(v % (1 << (8 * w)), w)
                    e = {"ret": "-", "state": ref.state()}
                else:
                    e = {"abort": True}
                    ref.valid = False
        elif op == "push":
            n = around(room_h)
            toks += ["push", str(n)]
            if live:
                if n <= ref.hr:
                    ref.hr -= n
                    ref.msg = [None] * n + ref.msg
                    e = {"ret": "p%d" % ref.hr, "state": ref.state()}
                else:
                    e = {"abort": True}
                    ref.valid = False
        elif op == "pushd":
            n = min(around(room_h), 4000)
            d = [rng.randrange(256) for _ in range(n)]
            toks += ["pushd", hx(d)]
            if live:
                if n <= ref.hr:
                    ref.hr -= n
                    ref.msg = d + ref.msg
                    e = {"ret": "-", "state": ref.state()}
                else:
                    e = {"abort": True}
                    ref.valid = False
        elif op == "pull":
            n = around(ln)
            toks += ["pull", str(n)]
            if live:
                if n <= len(ref.msg):
                    ref.msg = ref.msg[n:]
                    ref.hr += n
                    e = {"ret": "p%d" % ref.hr, "state": ref.state()}
                else:
                    ref.valid = False        # no check in the header: outside the contract, nothing demanded
        elif op in ("lu8", "lu16", "lu32"):
            w = {"lu8": 1, "lu16": 2, "lu32": 4}[op]
            toks += [op]
            if live:
                if w <= len(ref.msg):
                    front = ref.msg[:w]
                    ref.msg = ref.msg[w:]
                    ref.hr += w
                    if w == 4 and (front[0] is None or front[0] >= 0x80):
                        ref.valid = False                # (possible) int shift overflow in the accessor: undefined, nothing demanded
                    elif None in front:
                        e = {"state": ref.state()}       # octets the script never wrote: the value is not judged
                    else:
                        e = {"ret": "v%d" % int.from_bytes(bytes(front), "big"), "state": ref.state()}
                else:
                    ref.valid = False
        elif op == "get":
            n = around(ln)
            toks += ["get", str(n)]
            if live:
                if n <= len(ref.msg) and n <= ref.hr:
                    ref.msg = ref.msg[:len(ref.msg) - n]
                    e = {"state": ref.state()}             # the returned pointer is not judged (see ASSUMPTIONS)
                elif n > len(ref.msg) and n <= ref.hr:
                    e = {"abort": True}
                    ref.valid = False
                else:
                    ref.valid = False
        elif op in ("gu8", "gu16", "gu32"):
            w = {"gu8": 1, "gu16": 2, "gu32": 4}[op]
            toks += [op]
            if live:
                if w <= len(ref.msg) and w <= ref.hr:
                    ref.msg = ref.msg[:len(ref.msg) - w]
                    ref.valid = ref.valid and op != "gu32"      # value read from the headroom; u32 may overflow the shift
                    e = {"state": ref.state()} if op != "gu32" else None
                else:
                    ref.valid = False
        elif op in ("tr", "hr", "len"):
            toks += [op]
            if live:
                v = {"tr": ref.tr, "hr": ref.hr, "len": len(ref.msg)}[op]
                e = {"ret": "v%d" % v, "state": ref.state()}
        elif op == "hl":
            toks += [op]
            if live:
                e = {"state": ref.state()}               # msgb_headlen's value is not part of any contract used here
        elif op == "reset":
            toks += [op]
            if live:
                ref.hr = 0
                ref.msg = []
                e = {"ret": "-", "state": ref.state()}
        elif op == "trim":
            n = rng.choice([0, 1, ln, ln + 1, max(0, ln - 1), room_t + ln, room_t + ln + 1, -1, 70000])
            toks += ["trim", str(n)]
            if live:
                if 0 <= n <= ref.tr + len(ref.msg):
                    old = ref.msg
                    ref.msg = (old + [None] * n)[:n]
                    e = {"ret": "v0", "state": ref.state()}
                elif n > ref.size:
                    e = {"ret": "v-1", "state": ref.state()}
                else:
                    ref.valid = False
        elif op == "reserve":
            n = rng.choice([0, 1, 2, 4, room_t, room_t + 1, -1, -room_h, -room_h - 1])
            toks += ["reserve", str(n)]
            if live:
                if len(ref.msg) == 0 and -ref.hr <= n <= ref.tr:
                    ref.hr += n
                    e = {"ret": "-", "state": ref.state()}
                else:
                    ref.valid = False
        else:
            n = rng.choice([2147483647, 2147483648, 4294967295, 4294967294, 65536, 65535])
            which = rng.choice(["put", "push", "pull", "get"])
            toks += [which, str(n)]
            if live:
                if which in ("put", "push") and 65536 <= n < 2147483648:
                    e = {"abort": True}
                ref.valid = False
        exp.append(e)
    mem = None
    if ref is not None and ref.valid:
        mem = (ref.hr, list(ref.msg))
    return "mb.run " + " ".join(toks), exp, mem


def contract_len(exp, mem):
    """number of answer tokens that lie inside the buffer contract: everything up to and including the last operation the
    reference has an expectation for (an allocation or operation outside the contract - degenerate sizes, an unchecked
    operation beyond its room - is compared with the model too, but a difference there is not a broken tie: the property
    says nothing about it, a hardening change may define it)"""
    if mem is not None:
        return None                      # the whole script, final memory included
    n = 0
    for i, e in enumerate(exp):
        if e is not None:
            n = i + 1
    return n


def split_answer(ans):
    return ans.split()


def judge_script(line, exp, mem, ans):
    """the reference's demands on the real code's answer; None or a reason"""
    toks = split_answer(ans)
    for i, e in enumerate(exp):
        if e is None:
            continue
        if i >= len(toks):
            return "operation %d: no answer (answer ends with %r)" % (i, toks[-1:] and toks[-1])
        t = toks[i]
        if e.get("abort"):
            if t != "ABORT":
                return "operation %d has no room and must not go through; the code answered %s" % (i, t)
            return None
        if t in ("ABORT", "CRASH", "X:oob"):
            return "operation %d is inside its room (reference state %s) but the code answered %s" % (i, e.get("state"), t)
        if "/" not in t:
            return "operation %d: unexpected answer %s" % (i, t)
        ret, st = t.split("/")
        if "ret" in e and ret != e["ret"]:
            return "operation %d returned %s, the buffer contract gives %s" % (i, ret, e["ret"])
        if "state" in e and tuple(int(x) for x in st.split(",")) != tuple(e["state"]):
            return "operation %d left head,data,tail,len,data_len = %s, the buffer contract gives %s" % (i, st, e["state"])
    if mem is not None and len(toks) > len(exp) and toks[len(exp)].startswith("m:"):
        hr, msg = mem
        h = toks[len(exp)][2:]
        got = list(bytes.fromhex(h)) if h != "-" else []
        for k, v in enumerate(msg):
            if v is not None and (hr + k >= len(got) or got[hr + k] != v):
                return "message octet %d is %s, written was %d" % (k, got[hr + k] if hr + k < len(got) else None, v)
    return None


def gen_queue(rng):
    """legal queue history -> (line, expected tokens)"""
    toks, exp = [], []
    live, q = [], []
    for _ in range(rng.choice([2, 4, 8, 16, 30])):
        r = rng.random()
        free_ids = [i for i in range(16) if i not in live]
        idle = [i for i in live if i not in q]
        if r < 0.3 and free_ids:
            i = rng.choice(free_ids)
            live.append(i)
            toks += ["new", str(i)]
            pre = ""
        elif r < 0.65 and idle:
            i = rng.choice(idle)
            q.append(i)
            toks += ["enq", str(i)]
            pre = ""
        elif r < 0.92:
            toks += ["deq"]
            if q:
                pre = "q:%d;" % q.pop(0)
            else:
                pre = "q:none;"
        elif idle:
            i = rng.choice(idle)
            live.remove(i)
            toks += ["free", str(i)]
            pre = ""
        else:
            continue
        f = ",".join(map(str, q)) or "-"
        b = ",".join(map(str, reversed(q))) or "-"
        exp.append("%sf:%s;b:%s" % (pre, f, b))
    return "mb.q " + " ".join(toks), (exp or ["ok"])


def compare_ub(corr, reqs, impl_ans, model_ans, limit=50, domain=None):
    """token-wise comparison; where the model's answer ends in UB:<tag> only the tokens before it are compared (the unchanged
    code's behaviour there is undefined: whatever it does refines the model).  domain[i]: None = the whole answer is inside
    the property's domain, k = only the first k tokens are (a difference behind them is recorded, not a broken tie)."""
    for idx, (r, a, b) in enumerate(zip(reqs, impl_ans, model_ans)):
        ta, tb = a.split(), b.split()
        k = domain[idx] if domain is not None else None
        if k is not None and ta != tb:
            pre_b = tb[:k]
            if pre_b and pre_b[-1].startswith("UB:"):
                pre_b = pre_b[:-1]
            if ta[:len(pre_b)] == pre_b:
                corr.outside += 1
                key = "outside the property's domain: code and model differ behind the in-domain prefix"
                if tb and tb[-1].startswith("UB:") and ta[:len(tb) - 1] == tb[:-1]:
                    key = "model UB: %s -> %s" % (tb[-1], (ta[len(tb) - 1:] or ["(nothing)"])[0].split("/")[0][:12])
                corr.distribution[key] = corr.distribution.get(key, 0) + 1
                if len(corr.outside_samples) < 5:
                    corr.outside_samples.append({"request": r[:300], "impl": a[:200], "model": b[:200]})
                continue
        if tb and tb[-1].startswith("UB:"):
            pre = tb[:-1]
            if ta[:len(pre)] == pre:
                corr.outside += 1
                tag = "%s -> %s" % (tb[-1], (ta[len(pre):] or ["(nothing)"])[0].split("/")[0][:12])
                corr.distribution["model UB: " + tag] = corr.distribution.get("model UB: " + tag, 0) + 1
                if len(corr.outside_samples) < 5:
                    corr.outside_samples.append({"request": r[:300], "impl": a[:200], "model": b[:200]})
                continue
        elif ta == tb:
            continue
        if len(corr.disagreements) < limit:
            i = next((k for k in range(min(len(ta), len(tb))) if ta[k] != tb[k]), min(len(ta), len(tb)))
            corr.disagreements.append({"request": r[:1200], "first_difference_at_token": i,
                                       "impl": " ".join(ta[max(0, i - 2):i + 3])[:400], "model": " ".join(tb[max(0, i - 2):i + 3])[:400]})


def without_rx_rc(ans):
    out = []
    for t in ans.split():
        if t == "o":
            continue
        if t.startswith("p:") and out and out[-1].startswith("p:"):
            out[-1] += t[2:]
        else:
            out.append(t)
    return " ".join(out)


# ------------------------------------------------------------------------------------------------------------------
# osmocon histories

FLAG = 0x7E


def esc(octets):
    out = []
    for c in octets:
        if c in (0x7E, 0x7D, 0x00):
            out += [0x7D, c ^ 0x20]
        else:
            out.append(c)
    return out


def frame(d, p):
    return [FLAG] + esc([d, 0x03] + list(p)) + [FLAG]


PROMPTS = ["1bf60200410140", "1bf60200410243", "1bf60200410342", "1bf60200410357", "1bf60200455316", "66746d746f6f6c"]
HOST_DLCIS = [4, 5, 9, 10]


def rand_payload(rng, n):
    style = rng.choice(["dense", "any", "plain", "one"])
    if style == "dense":
        return [rng.choice([0x7E, 0x7D, 0x00, 0x5E, 0x5D, 0x20, 0x03, 0xFF]) for _ in range(n)]
    if style == "any":
        return [rng.randrange(256) for _ in range(n)]
    if style == "one":
        return [rng.choice([0x7E, 0x7D, 0x00, 0x41])] * n
    return [rng.randrange(1, 0x7D) for _ in range(n)]


class HostLink:
    """what must appear on the serial line: waiting messages; at a frame start the oldest one of the lowest DLCI"""

    def __init__(self):
        self.pending = []
        self.cur = []          # octets of the frame in transmission still to go

    def send(self, d, p):
        self.pending.append((d, list(p)))

    def take(self, n):
        out = []
        while len(out) < n:
            if not self.cur:
                if not self.pending:
                    break
                low = min(m[0] for m in self.pending)
                i = next(i for i, m in enumerate(self.pending) if m[0] == low)
                self.cur = frame(*self.pending.pop(i))
            k = min(n - len(out), len(self.cur))
            out += self.cur[:k]
            self.cur = self.cur[k:]
        return out

    def due(self):
        return len(self.cur) + sum(len(frame(*m)) for m in self.pending)


def gen_write_history(rng, complete, lens=None):
    """sends (lengths the property covers: shorter than the phone's 256 octet buffer, plus up to the host's 512 bound) and
    write calls.  -> (line, case)"""
    toks = []
    msgs = []
    ops = []
    for _ in range(rng.choice([1, 2, 3, 6])):
        d = rng.choice(HOST_DLCIS)
        ln = rng.choice(lens or [0, 1, 2, 3, 10, 100, 125, 126, 127, 200, 254, 255, 256, 257, 400, 511, 512])
        p = rand_payload(rng, ln)
        ops.append(("send", d, p))
        if rng.random() < 0.4:
            ops.append(("wr", "f" if complete else rng.choice(["f", 0, 1, 2, 5, 100, 255, -1])))
    n_wr = 2 + sum(len(frame(o[1], o[2])) for o in ops if o[0] == "send") // 256 + 2
    for _ in range(n_wr):
        ops.append(("wr", "f" if complete else rng.choice(["f", "f", 0, 1, 7, 255, -1])))
    if not complete:
        ops += [("wr", "f")] * 3
    for o in ops:
        if o[0] == "send":
            toks += ["send", str(o[1]), str(len(o[2])), hx(o[2])]
        else:
            toks += ["wr", str(o[1])]
    return "oc.run " + " ".join(toks), {"kind": "host-write", "ops": ops, "complete": complete}


def judge_write(case, ans):
    """every queued message must reach the line: the octets write() accepted, in order, are the frames of the queued
    messages in priority order; the writer is switched off only when nothing is left"""
    toks = ans.split()
    link = HostLink()
    line = []
    expected = []
    i = 0
    lost = 0
    for o in case["ops"]:
        if i >= len(toks):
            return ("host-write-stream", "no answer for operation %d" % i, 0)
        t = toks[i]
        i += 1
        if t in ("CRASH", "ABORT", "ASSERT") or t.startswith("EXIT"):
            return ("crash", "the code answered %s" % t, 0)
        if o[0] == "send":
            f = t.split(":")
            if f[0] != "s":
                return ("host-write-stream", "unexpected answer %s" % t, 0)
            if len(o[2]) < 256 and (f[2] != "1" or int(f[1]) < 1):
                return ("host-send-refused", "hdlc_send_to_phone did not queue a message of %d octets (answer %s)" % (len(o[2]), t), 0)
            if f[2] == "1":
                link.send(o[1], o[2])
        else:
            f = t.split(":")
            if f[0] != "w":
                return ("host-write-stream", "unexpected answer %s" % t, 0)
            offered = list(bytes.fromhex(f[1])) if f[1] != "-" else []
            rc = None if f[2] == "n" else int(f[2])
            want = link.take(len(offered))
            if offered != want:
                return ("host-write-stream", "write() was offered %s.., the queued frames continue with %s.." % (hx(offered[:24]), hx(want[:24])), 0)
            took = offered[:max(rc, 0)] if rc is not None else []
            line += took
            lost += len(offered) - len(took)
            if f[3] == "1" and link.due() > 0:
                return ("host-write-stalls", "the writer was switched off with %d octets still queued" % link.due(), 0)
            if rc is None and f[3] != "1" and link.due() == 0 and not offered:
                return ("host-write-stalls", "nothing to send but the writer stays on", 0)
    if link.due():
        return ("host-write-stalls", "%d octets never offered to write()" % link.due(), 0)
    if lost:
        return ("short-write-loses-octets", "%d octets were handed to write() calls that took fewer and were never offered again; "
                "the line carries %d octets of the %d queued" % (lost, len(line), len(line) + lost), lost)
    return None


def gen_read_history(rng, in_property):
    """octets arriving from the phone, read in arbitrary chunks.  in_property: whole frames on registered transparent DLCIs,
    payload shorter than the host's buffer, flag-free noise without prompt sequences in between.
    -> (line, case)"""
    regs = sorted(set(rng.sample(HOST_DLCIS, rng.choice([1, 2, 4])) + rng.sample([d for d in range(1, 125) if d != 0x7D], 2)))
    toks = []
    for d in regs:
        toks += ["reg", str(d)]
    toks += ["hdlc", "1"]
    expect = []
    stream_ops = []
    stream = []
    for _ in range(rng.choice([1, 2, 3, 6, 12])):
        r = rng.random()
        if r < 0.7 or in_property:
            d = rng.choice(regs)
            p = rand_payload(rng, rng.choice([0, 1, 2, 3, 7, 8, 30, 100] * 5 + [255, 256, 600, 2047]))
            stream += frame(d, p)
            expect.append((d, p))
            if rng.random() < 0.3:
                nz = [rng.choice([0x03, 0x04, 0x55, 0xFF, 0x7D, 0x20, 0x41]) for _ in range(rng.randrange(1, 9))]
                stream += nz
        elif r < 0.8:
            stream += list(bytes.fromhex(rng.choice(PROMPTS)))
        elif r < 0.9:
            stream += [rng.randrange(256) for _ in range(rng.randrange(1, 20))]
        else:
            f = frame(rng.choice(regs), rand_payload(rng, rng.randrange(0, 9)))
            stream += f[:rng.randrange(1, len(f))]
    # deliver the stream in pieces, read with rd / srd, with read() chunk limits
    i = 0
    while i < len(stream):
        n = rng.choice([1, 2, 3, 7, 8, 20, 100, len(stream)])
        toks += ["in", hx(stream[i:i + n])]
        i += n
        if rng.random() < 0.3:
            toks += ["chunk", str(rng.choice([0, 1, 2, 3, 7]))]
        toks += [rng.choice(["srd", "srd", "rd"])]
    toks += ["chunk", "0", "srd"]
    return "oc.run " + " ".join(toks), {"kind": "host-read", "expect": expect, "regs": regs, "stream_len": len(stream),
                                        "pure": bool(in_property)}


def judge_read(case, ans):
    toks = ans.split()
    for t in toks:
        if t in ("CRASH", "ABORT", "ASSERT") or t.startswith("EXIT"):
            return ("crash", "the code answered %s" % t)
    got = []
    for t in toks:
        if t.startswith("c:"):
            _, d, h = t.split(":")
            got.append((int(d), list(bytes.fromhex(h)) if h != "-" else []))
    if got != case["expect"]:
        k = next((i for i in range(min(len(got), len(case["expect"]))) if got[i] != case["expect"][i]), min(len(got), len(case["expect"])))
        return ("host-read-delivery", "%d frames were sent by the phone, %d callbacks were made; first difference at message %d" %
                (len(case["expect"]), len(got), k))
    return None


# ------------------------------------------------------------------------------------------------------------------
# correspondence

def sc_room(run):
    """(headroom, slack) of sercomm_alloc_msgb as the translator of the first part observed them on the running code"""
    c = (getattr(run, "consts", None) or {}).get("host", {})
    h, s = c.get("alloc_headroom", 4), c.get("alloc_slack", 0)
    return (h if h >= 0 else 4, s if s >= 0 else 0)


def correspond(run, corr, first_part=()):
    """first_part: [(flavour, lines, impl answers)] of the sercomm histories of props/C06.py"""
    build(run)
    rng = run.rng
    lo = os.path.join(vf.REPO, "src/shared/libosmocore")
    run.drift["msgb.h"] = vf.src_hash_c(os.path.join(lo, "include/osmocom/core/msgb.h"),
                                        ["msgb_put", "msgb_push", "msgb_pull", "msgb_get", "msgb_trim", "msgb_reserve",
                                         "msgb_tailroom", "msgb_headroom", "msgb_alloc_headroom"])
    run.drift["msgb.c"] = vf.src_hash_c(os.path.join(lo, "src/msgb.c"), ["msgb_alloc", "msgb_enqueue", "msgb_dequeue", "msgb_reset"])
    run.drift["osmocon.c"] = vf.src_hash_c(os.path.join(vf.REPO, "src/host/osmocon/osmocon.c"),
                                           ["handle_sercomm_write", "hdlc_send_to_phone", "handle_buffer", "handle_read", "serial_read"])
    # the model's sercomm_alloc_msgb has the tree's literals (len + 4, 4 octets of headroom) written into it; when the running
    # code shows other values (gen/sercomm.py observes them) the model of that one function is stale: its scripts and the
    # replay of the sercomm histories on real buffers are then evidence only, the oracle below still judges the real code
    hr, slack = sc_room(run)
    stale = (hr, slack) != (4, 0)
    if stale:
        corr.notes.append("sercomm_alloc_msgb now gives %d octets of headroom and %d of slack (model: 4, 0): the scripts that use it and "
                          "the sercomm histories on real buffers are not compared as a tie" % (hr, slack))
    # 1. scripts of msgb operations
    scripts = [gen_script(rng, hr, slack) for _ in range(run.scale(2000, 20000))]
    lines = [s[0] for s in scripts]
    a = impl(run, "msgb", lines)
    b = vf.run_driver(lines)
    compare_ub(corr, lines, a, b, domain=[0 if (stale and sc[0].startswith("mb.run scalloc")) else contract_len(sc[1], sc[2]) for sc in scripts])
    run.c06m_scripts = list(zip(scripts, a))
    for l, x in zip(lines, a):
        last = x.split()[-1] if x.split() else ""
        cls = last if last in ("ABORT", "CRASH", "X:oob") else "ran to the end"
        corr.count(hashlib.md5(l.encode()).hexdigest()[:16], "msgb script: " + cls)
    # 2. queues
    queues = [gen_queue(rng) for _ in range(run.scale(400, 4000))]
    ql = [q[0] for q in queues]
    qa = impl(run, "msgb", ql)
    qb = vf.run_driver(ql)
    compare_ub(corr, ql, qa, qb)
    run.c06m_queues = list(zip(queues, qa))
    for l in ql:
        corr.count(hashlib.md5(l.encode()).hexdigest()[:16], "msgb queue history")
    # 3. the sercomm histories of the first part on the model with real message buffers
    n3 = 0
    for flavour, flines, fimpl in first_part:
        verb = {"host": ("sc.run", "mb.sc"), "target": ("sc.runt", "mb.sct")}[flavour]
        pick = [i for i, l in enumerate(flines) if len(l) < 20000]
        cap_n = 600 if flavour == "target" else 70          # the host histories are long (2048 octet buffer)
        if not run.thorough and len(pick) > cap_n:
            pick = sorted(rng.sample(pick, cap_n))
        ml = [verb[1] + flines[i][len(verb[0]):] for i in pick]
        mb = vf.run_driver(ml)
        for i, l, m in zip(pick, ml, mb):
            x = fimpl[i]
            n3 += 1
            corr.count(hashlib.md5(l.encode()).hexdigest()[:16], "%s: sercomm history on real msgbs" % flavour)
            if x == m:
                continue
            if m == "CRASH" or stale:
                corr.outside += 1
                continue
            if without_rx_rc(x) == without_rx_rc(m):
                corr.outside += 1          # only the return value of sercomm_drv_rx_char() differs (see props/C06.py)
                continue
            if len(corr.disagreements) < 50:
                k = next((j for j in range(min(len(x), len(m))) if x[j] != m[j]), min(len(x), len(m)))
                corr.disagreements.append({"request": l[:1500], "first_difference_at": k,
                                           "impl": x[max(0, k - 80):k + 200], "model": m[max(0, k - 80):k + 200]})
    # 4. osmocon: write path (complete and short writes), send bound, read path
    oc = []
    for _ in range(run.scale(400, 3000)):
        oc.append(gen_write_history(rng, complete=rng.random() < 0.5))
    for ln in (0, 1, 255, 256, 511, 512, 513, 514, 600, 1000, 70000, -1, -5):
        for extra in (0, 1, -1):
            n = max(0, (ln if 0 <= ln <= 1100 else 8) + extra)
            oc.append(("oc.run send 5 %d %s wr f wr f wr f wr f" % (ln, hx([0x41 + (i % 7) for i in range(n)])),
                       {"kind": "host-send-bound", "len": ln, "have": n}))
    for d in (0, 4, 127, 128, 129, 200, 255):
        oc.append(("oc.run send %d 2 4142 wr f wr f" % d, {"kind": "host-send-dlci", "dlci": d}))
    for _ in range(run.scale(300, 3000)):
        oc.append(gen_read_history(rng, in_property=rng.random() < 0.4))
    for p in PROMPTS:
        for pre in ("", "7e0503417e", "1bf602"):
            oc.append(("oc.run reg 5 hdlc 1 in %s%s7e0503427e chunk %d srd in 7e0503437e srd" % (pre, p, rng.choice([0, 1, 3])),
                       {"kind": "host-prompt"}))
    ol = [o[0] for o in oc]
    oa = impl(run, "osmocon", ol)
    ob = vf.run_driver(ol)
    # inside the property's domain: writes, sends of 0..255 octets (shorter than the phone's buffer) on the DLCIs of the
    # tools, streams of whole frames with prompt-free noise; the rest (longer or negative lengths, other DLCIs, prompt
    # sequences, random garbage, truncated frames) is compared with the model but is not the property's business
    def oc_domain(c):
        if c["kind"] == "host-write":
            return None
        if c["kind"] == "host-read":
            return None if c.get("pure") else 0
        if c["kind"] == "host-send-bound":
            return None if 0 <= c["len"] < 256 and c["have"] >= c["len"] else 0
        return 0
    compare_ub(corr, ol, oa, ob, domain=[oc_domain(c) for _, c in oc])
    run.c06m_osmocon = list(zip(oc, oa))
    for (l, c), x in zip(oc, oa):
        corr.count(hashlib.md5(l.encode()).hexdigest()[:16], "osmocon: " + c["kind"] + (" (complete writes)" if c.get("complete") else ""))
        for t in x.split():
            if t.startswith("w:") and t.split(":")[2] not in ("n",):
                f = t.split(":")
                n_off = 0 if f[1] == "-" else len(f[1]) // 2
                key = "osmocon: write() calls that took fewer octets than offered" if int(f[2]) != n_off else "osmocon: write() calls that took everything"
                corr.distribution[key] = corr.distribution.get(key, 0) + 1
    corr.samples += [{"request": l[:200], "impl": x[:200], "model": y[:200]} for l, x, y in
                     (list(zip(lines, a, b))[:2] + list(zip(ql, qa, qb))[:1] + list(zip(ol, oa, ob))[:2])]
    corr.rule += (" | msgb part: a case is one script of msgb operations on a fresh buffer (allocation x sizes around the uint16_t limit, "
                  "operation arguments around the current head/tail room: room-1, room, room+1, 0, 2^31, 2^32-1), one queue history, one sercomm "
                  "history of the first part replayed on the model with real buffers (%d), or one osmocon history (sends with lengths "
                  "around 255/256/512/513 and negative, write() scripts full/short/failing, phone streams with frames, noise, prompts, "
                  "truncated frames in arbitrary read() chunking)." % n3)


# ------------------------------------------------------------------------------------------------------------------
# property oracle on the real code

def witness(kind, line, ans, why, **kw):
    w = {"part": "msgb", "kind": kind, "line": line[:6000], "impl": ans[:2000], "why": why}
    w.update(kw)
    return w


def oracle(run, corr, deep):
    found = 0
    judged = 0
    seen = set()

    def rep(kind, line, ans, why, **kw):
        nonlocal found
        if kind in seen and kind != "short-write-loses-octets":
            return
        if kind == "short-write-loses-octets" and kind in seen:
            return
        seen.add(kind)
        found += bool(report(run, witness(kind, line, ans, why, **kw)))

    # 1. the buffer contract on the scripts of the correspondence run (+ more when something broke)
    scripts = list(getattr(run, "c06m_scripts", []))
    if deep or not scripts:
        extra = [gen_script(run.rng, *sc_room(run)) for _ in range(run.scale(6000, 20000))]
        ea = impl(run, "msgb", [s[0] for s in extra])
        scripts += list(zip(extra, ea))
    for (line, exp, mem), ans in scripts:
        judged += 1
        why = judge_script(line, exp, mem, ans)
        if why:
            short = shrink_script(run, line, exp, mem)
            n = len(short.split()) and short.count(" ")          # expectations of the prefix
            k = n_ops(short)
            rep("msgb-contract", short, ans, why, exp=exp[:k], mem=(mem if short == line else None))
    # 2. queues: first in, first out; forward and backward links agree
    queues = list(getattr(run, "c06m_queues", []))
    if deep or not queues:
        extra = [gen_queue(run.rng) for _ in range(run.scale(800, 4000))]
        qa = impl(run, "msgb", [q[0] for q in extra])
        queues += list(zip(extra, qa))
    for (line, exp), ans in queues:
        judged += 1
        toks = ans.split()
        if toks != exp:
            k = next((i for i in range(min(len(toks), len(exp))) if toks[i] != exp[i]), min(len(toks), len(exp)))
            rep("msgb-queue-fifo", line, ans, "operation %d: a first-in-first-out queue gives %s, the code %s" %
                (k, exp[k] if k < len(exp) else None, toks[k] if k < len(toks) else None), expq=exp)
    # 3. osmocon
    oc = list(getattr(run, "c06m_osmocon", []))
    if deep or not oc:
        extra = [gen_write_history(run.rng, complete=True) for _ in range(run.scale(600, 3000))] + \
                [gen_read_history(run.rng, in_property=True) for _ in range(run.scale(600, 3000))]
        xa = impl(run, "osmocon", [o[0] for o in extra])
        oc += list(zip(extra, xa))
    # always: a fixed short-write history (finding G1) and an in-property pair
    fixed = [("oc.run send 5 1 41 wr 2 wr f send 5 1 42 wr f wr f",
              {"kind": "host-write", "complete": False,
               "ops": [("send", 5, [0x41]), ("wr", 2), ("wr", "f"), ("send", 5, [0x42]), ("wr", "f"), ("wr", "f")]})]
    # small in-property read histories first, so that a broken read path is reported on a short input
    for line, expect in (("oc.run reg 5 hdlc 1 in 7e0503417e srd", [(5, [0x41])]),
                         ("oc.run reg 5 hdlc 1 in 7e0503417e7e0503427e srd", [(5, [0x41]), (5, [0x42])]),
                         ("oc.run reg 5 hdlc 1 chunk 1 in 7e0503417e7e0503427e srd", [(5, [0x41]), (5, [0x42])]),
                         ("oc.run reg 5 hdlc 1 in 7e05 srd in 03417e srd in 7e05037d5e7e srd", [(5, [0x41]), (5, [0x7E])]),
                         ("oc.run reg 5 reg 10 hdlc 1 in 7e0a0341424344454647487e7e0503417e rd rd rd rd rd rd rd rd rd rd rd rd rd",
                          [(10, [0x41, 0x42, 0x43, 0x44, 0x45, 0x46, 0x47, 0x48]), (5, [0x41])])):
        fixed.append((line, {"kind": "host-read", "expect": expect, "pure": True}))
    fa = impl(run, "osmocon", [f[0] for f in fixed])
    oc = list(zip(fixed, fa)) + oc
    for (line, case), ans in oc:
        if case["kind"] == "host-write":
            judged += 1
            r = judge_write(case, ans)
            if r:
                kind, why, lost = r
                if kind == "short-write-loses-octets" and case.get("complete"):
                    kind = "host-write-stream"
                rep(kind, line, ans, why, lost=lost, history=[[o[0], o[1]] + ([list(o[2])] if o[0] == "send" else []) for o in case["ops"]])
        elif case["kind"] == "host-read" and case.get("in_property", True) and is_in_property_read(case, line):
            judged += 1
            r = judge_read(case, ans)
            if r:
                rep(r[0], line, ans, r[1], expect=[[d, hx(p)] for d, p in case["expect"]][:40])
        elif case["kind"] == "host-send-bound":
            judged += 1
            t = ans.split()
            if 0 <= case["len"] < 256 and case["have"] >= case["len"] and (not t or not t[0].startswith("s:1:1")):
                rep("host-send-refused", line, ans, "a message of %d octets (shorter than the phone's receive buffer) was not queued" % case["len"])
            died = [x for x in t if x in ("CRASH", "ABORT", "ASSERT") or x.startswith("EXIT")]
            if died and 0 <= case["len"] <= case["have"]:
                rep("crash", line, ans, "hdlc_send_to_phone with %d octets of data: the process %s" % (
                    case["len"], {"ABORT": "reached MSGB_ABORT (osmo_panic)", "CRASH": "died (sanitizer report / signal)"}.get(died[0], "stopped: " + died[0])))
    corr.distribution["oracle (msgb part): cases judged on the real code"] = judged
    return found


def is_in_property_read(case, line):
    # histories generated with in_property=True contain only whole frames and prompt-free noise; the others (prompts,
    # random garbage with flags, truncated frames) are compared with the model only
    return case.get("pure", False)


def split_ops(line):
    toks = line.split()
    n_alloc = {"alloc": 2, "allochr": 3, "scalloc": 2}[toks[1]]
    ops = [toks[1:1 + n_alloc]]
    i = 1 + n_alloc
    one = {"reset", "tr", "hr", "hl", "len", "gu8", "gu16", "gu32", "lu8", "lu16", "lu32"}
    while i < len(toks):
        k = 1 if toks[i] in one else 2
        ops.append(toks[i:i + k])
        i += k
    return ops


def n_ops(line):
    return len(split_ops(line))


def shrink_script(run, line, exp, mem):
    """shortest failing prefix of the script (the operations are sequential)"""
    ops = split_ops(line)
    for n in range(1, len(ops) + 1):
        l = "mb.run " + " ".join(" ".join(o) for o in ops[:n])
        a = impl(run, "msgb", [l])[0]
        if judge_script(l, exp[:n], None, a):
            return l
    return line


def replay(run, w):
    """re-run the recorded request on the real code and judge it again -> (still failing, text)"""
    line = w["line"]
    kind = w["kind"]
    which = "osmocon" if line.startswith("oc.") else "msgb"
    ans = impl(run, which, [line])[0]
    model = vf.run_driver([line])[0] if os.path.exists(vf.driver_exe()) else "(driver not built)"
    still = None
    if kind in ("short-write-loses-octets", "host-write-stream", "host-write-stalls", "host-send-refused") and "history" in w:
        case = {"kind": "host-write", "complete": False,
                "ops": [(o[0], o[1], o[2]) if o[0] == "send" else (o[0], o[1]) for o in w["history"]]}
        r = judge_write(case, ans)
        still = r[1] if r else None
    elif kind == "host-read-delivery" and "expect" in w:
        case = {"expect": [(d, list(bytes.fromhex(h)) if h != "-" else []) for d, h in w["expect"]]}
        r = judge_read(case, ans)
        still = r[1] if r else None
    elif kind == "msgb-contract" and "exp" in w:
        still = judge_script(line, w["exp"], tuple(w["mem"]) if w.get("mem") else None, ans)
    elif kind == "msgb-queue-fifo" and "expq" in w:
        still = None if ans.split() == list(w["expq"]) else "the queue does not behave first-in-first-out: %s" % ans[:200]
    else:
        still = ("the code answers %s" % ans.split()[-1]) if ans.split()[-1:] in (["CRASH"], ["ABORT"], ["ASSERT"]) else None
    text = "replay %s (msgb part)\n  request : %s\n  impl now: %s\n  model   : %s\n  property: %s" % (
        kind, line[:600], ans[:600], model[:600], still or "holds on this input")
    return bool(still), text
