# C01 — TRXD messages survive encode/decode unchanged
import json, os
from lib import vf
from lib import trxd as T
from props import msg_reuse_part as reuse
from gen import trxd_consts

ID = "C01"
LEVEL = "proof"
LEAN_MODULES = ["OsmoVerif.Props.C01"]
DRIVER_MODULES = ["Trxd"]
LEAN_MODEL_MODULES = ["OsmoVerif.Model.Trxd", "OsmoVerif.Spec.TrxdRanges", "OsmoVerif.Spec.TrxdLayout", "OsmoVerif.Lemmas.Trxd"]
ASSUMPTIONS = [
    "theorems are about OsmoVerif.Model.Trxd (hand model of TxMsg/RxMsg gen_msg and parse_msg on a fresh object; Python ints unbounded, bytes / array('b') as lists with their element ranges, struct.pack/unpack and bytearray.append failure rules as documented at the top of the model)",
    "validity is definitionally validate() = ok; soft bits range over -127..127 (the property's domain; -128 is shown not to round-trip)",
    "bounds, header lengths, the Modulation enum and the four 256-entry soft-bit tables are regenerated from the tree on every run and the table/MTS round trips are re-proved by kernel evaluation",
    "gen_msg / parse_msg control flow is hand-modelled and tied to the real classes by differential execution on valid boundary-lattice messages of every class/version/modulation/NOPE/legacy and on arbitrary and mutated octet strings",
]
MANIFEST = {
    "text": "Lean 4 theorems tx_roundtrip, rx_roundtrip (parse(gen(m, legacy)) = carried m for ALL valid messages: every FN/TN/attenuation/RSSI/ToA256/C-I value, both header versions, all six modulations x TSC set x TSC, NOPE indications, every burst content with soft bits in -127..127, legacy padding on/off), legacy_same_tx/rx (v0: same decoding with and without the two padding octets, Rx for every burst content), carried_v0_mod; soft-bit tables and MTS coding regenerated from the tree and re-proved by kernel evaluation; model tied to the real TxMsg/RxMsg by differential execution (generated valid lattice + random messages, arbitrary and mutated octet strings: outcome class and all parsed fields); independent oracle parse(gen(m)) == carried(m) on the real code",
    "note": "trusted: Lean kernel (+propext, Classical.choice, Quot.sound), gen/trxd_consts.py, harness/py/trxd_harness.py, generators in lib/trxd.py; 'equal in every field' is read as every field the header version transports (carried: v0 does not transport modulation/TSC set/TSC/C-I/NOPE flag, a NOPE indication transports neither modulation nor TSC); parse_msg is modelled on a fresh object (RxMsg.parseMsgFrom models reuse and is covered by the correspondence only)",
    "technique": "Lean 4 proof (list algebra, omega for BE32/BE16/two's complement, decide +kernel over regenerated tables) over a hand model; differential correspondence; round-trip oracle on the real code",
    "design_ref": "DESIGN.md section 5 C01",
}
MODELLED = ["gen_msg", "parse_msg", "append_hdr_to", "parse_hdr", "append_burst_to", "parse_burst", "_parse_burst_v0",
            "gen_mts", "parse_mts", "pick", "pick_by_bl", "usbit2sbit", "sbit2usbit", "HDR_LEN", "CHDR_LEN", "validate"]
KNOWN_HASH = "41c52f04b6c133f4"


def gen(run):
    run.trxd_consts = trxd_consts.generate(run)


def drift(run):
    h = vf.src_hash_py(os.path.join(vf.TRX, "data_msg.py"), MODELLED)
    run.drift["data_msg.py:gen_msg/parse_msg"] = h
    run.drift["changed_since_model_was_written"] = (h != KNOWN_HASH)
    return h != KNOWN_HASH


def messages(run, deep=False):
    """valid messages of this run: (kind, record, legacy)"""
    key = "c01_msgs_%s" % deep
    if getattr(run, key, None) is not None:
        return getattr(run, key)
    mult = (2 if drift(run) else 1) * (4 if deep else 1)
    out = []
    for rep in range(run.scale(2, 10)):
        for m in T.valid_lattice_tx(run.rng):
            for l in (0, 1):
                out.append(("tx", m, l))
        for m in T.valid_lattice_rx(run.rng):
            for l in (0, 1):
                out.append(("rx", m, l))
    for _ in range(run.scale(6000, 100000) * mult):
        m = T.rand_valid_tx(run.rng)
        m.burst = T.hard_burst(run.rng, len(m.burst))
        out.append(("tx", m, run.rng.randrange(2)))
    for _ in range(run.scale(14000, 200000) * mult):
        m = T.rand_valid_rx(run.rng)
        if m.burst is not None:
            m.burst = T.soft_burst(run.rng, len(m.burst))
        out.append(("rx", m, run.rng.randrange(2)))
    setattr(run, key, out)
    return out


def rt_requests(msgs):
    return ["trxd.%s.rt %d %s" % (k, l, m.line()) for k, m, l in msgs]


def in_quantifier(kind, m):
    """C01's quantifier: a message inside the protocol ranges whose hard bits are 0/1 (Tx) resp. whose soft bits are -127..127 (Rx)"""
    try:
        if kind == "tx":
            return T.in_range_tx(m) and set(bytes(m.burst)) <= {0, 1}
        return T.in_range_rx(m) and not (m.burst is not None and 0x80 in bytes(m.burst))
    except (TypeError, ValueError, KeyError):
        return False


def request_in_domain(req, model_answer):
    """a request of the correspondence is inside the property's domain iff it encodes / round-trips a message of the quantifier,
    or parses octets that ARE such a message (per the model); how anything else is treated (other octet values in a burst,
    garbage octets, which exception) is compared and recorded, but is not what C01 speaks about"""
    t = req.split()
    kind = "tx" if ".tx." in t[0] else "rx"
    try:
        if t[0].endswith(".rt") or t[0].endswith(".gen"):
            m = (T.parse_tx_answer if kind == "tx" else T.parse_rx_answer)("ok " + " ".join(t[2:]))
            return m is not None and in_quantifier(kind, m)
        if t[0].endswith(".rt2"):
            return True
        if not model_answer.startswith("ok"):
            return False
        m = (T.parse_tx_answer if kind == "tx" else T.parse_rx_answer)(model_answer)
        if m is None or not in_quantifier(kind, m):
            return False
        # ... and the octets ARE an encoding of that message (with or without legacy padding): octets no encoder emits
        # (a reserved bit set, a burst length that does not fit the modulation, ...) are not what C01 speaks about
        octs = bytes(T.dec_octets(t[-1]))
        lay = T.layout_tx if kind == "tx" else T.layout_rx
        return any(bytes(lay(m, l)) == octs for l in (0, 1))
    except (IndexError, ValueError, KeyError, TypeError):
        return False


def impl_rt(run, deep=False):
    key = "c01_impl_%s" % deep
    if getattr(run, key, None) is None:
        msgs = messages(run, deep)
        reqs = rt_requests(msgs)
        setattr(run, key, (msgs, reqs, vf.run_lines(T.HARNESS, reqs)))
    return getattr(run, key)


def byte_strings(run):
    """arbitrary and mutated octet strings for the parsers"""
    out = []
    n = run.scale(9000, 150000) * (2 if run.drift.get("changed_since_model_was_written") else 1)
    for _ in range(n):
        out.append(T.rand_bytes(run.rng))
    # mutations of valid encodings: produced by the real encoder
    seeds = []
    for _ in range(n // 12):
        seeds.append("trxd.tx.gen %d %s" % (run.rng.randrange(2), T.rand_valid_tx(run.rng).line()))
        seeds.append("trxd.rx.gen %d %s" % (run.rng.randrange(2), T.rand_valid_rx(run.rng).line()))
    enc = [T.dec_octets(a[3:]) for a in vf.run_lines(T.HARNESS, seeds) if a.startswith("ok ")]
    for b in enc:
        out.append(b)
        for _ in range(6):
            out.append(T.mutate_bytes(run.rng, b))
    return out


def correspond(run, corr):
    msgs, reqs, impl = impl_rt(run)
    # gen_msg of the same messages (emitted octets), in addition to the round trip
    greqs = ["trxd.%s.gen %d %s" % (k, l, m.line()) for k, m, l in msgs[::3]]
    gimpl = vf.run_lines(T.HARNESS, greqs)
    # parsers on arbitrary / mutated octet strings; parse on a used object for a part of them
    bs = byte_strings(run)
    preqs = []
    for i, b in enumerate(bs):
        e = T.enc_octets(b)
        preqs.append("trxd.tx.parse " + e)
        preqs.append("trxd.rx.parse " + e)
        if i % 5 == 0:
            preqs.append("trxd.rx.reparse %s %s" % (T.rand_valid_rx(run.rng).line(), e))
    pimpl = vf.run_lines(T.HARNESS, preqs)
    allreq = reqs + greqs + preqs
    model = vf.run_driver(allreq)
    mans = dict(zip(allreq, model))
    corr.compare(allreq, impl + gimpl + pimpl, model, in_domain=lambda r: request_in_domain(r, mans.get(r, "")))
    for (k, m, l), a in zip(msgs, impl):
        if k == "tx":
            b = "tx v%d len%d legacy%d" % (m.ver, len(m.burst), l)
        else:
            b = "rx v%d %s legacy%d" % (m.ver, "NOPE" if (m.nope and m.ver == 1) else (m.mod if m.ver == 1 else "len%d" % len(m.burst)), l)
        corr.count("rt %s %d %s" % (k, l, m.line()), b if a.startswith("ok") else b + " -> " + a)
    for r, a in zip(greqs, gimpl):
        corr.count(r, "gen")
    for r, a in zip(preqs, pimpl):
        corr.count(r, "%s -> %s" % (r.split()[0], a.split()[0]))
    corr.rule = ("round trips: valid boundary-lattice messages (every class x version x modulation/burst length x NOPE x legacy, each "
                 "transported field at lo, lo+1, mid, hi-1, hi, every TSC set/TSC) and seeded valid messages with patterned/random bursts; "
                 "parsers: arbitrary octet strings with boundary lengths and mutated valid encodings (truncate, extend, flip, version nibble, MTS octet); "
                 "a case is a distinct request line; all reach the code under test")
    for i in (0, len(reqs) // 2, len(reqs) - 1):
        corr.samples.append({"request": reqs[i][:200], "impl": impl[i][:160], "model": model[i][:160]})
    o = len(reqs) + len(greqs)
    for i in (0, len(preqs) // 2, len(preqs) - 1):
        corr.samples.append({"request": preqs[i][:200], "impl": pimpl[i][:160], "model": model[o + i][:160]})


def judge(kind, m, l, a):
    """property on the real code: parse(gen(m, legacy)) == carried(m)"""
    got = T.parse_tx_answer(a) if kind == "tx" else T.parse_rx_answer(a)
    if got is None:
        return "a valid message does not survive gen_msg/parse_msg: %s" % a
    try:
        want = T.carried_tx(m) if kind == "tx" else T.carried_rx(m)
    except (KeyError, ValueError, TypeError):
        # the real code accepted a message outside the protocol ranges (that is C13's matter) for which no reference decoding
        # exists (e.g. a version-0 burst length the version cannot tell apart): it did decode, nothing to compare with
        return None
    if got.line() != want.line():
        diff = [f for f in want.__slots__ if getattr(got, f) != getattr(want, f)]
        return "decoded message differs from the encoded one in %s" % ",".join(diff)
    return None


def judge_reused(kind, m, a):
    """the same through a decoder object that decoded another message before: equal in every field the header version
    transports (a field the version does not carry keeps whatever the object held - that is not part of the message)"""
    got = T.parse_tx_answer(a) if kind == "tx" else T.parse_rx_answer(a)
    if got is None:
        return "a valid message does not survive gen_msg/parse_msg: %s" % a
    want = T.carried_tx(m) if kind == "tx" else T.carried_rx(m)
    if kind == "tx":
        fields = want.__slots__
    elif m.ver == 0:
        fields = ("ver", "fn", "tn", "rssi", "toa", "mod", "burst")
    elif m.nope:
        fields = ("ver", "fn", "tn", "rssi", "toa", "nope", "ci", "burst")
    else:
        fields = want.__slots__
    diff = [f for f in fields if getattr(got, f) != getattr(want, f)]
    if diff:
        return "decoded message differs from the encoded one in %s" % ",".join(diff)
    return None


def rt_fails(kind, m, l, legacy_pair):
    if legacy_pair:
        a = vf.run_lines(T.HARNESS, ["trxd.%s.rt 0 %s" % (kind, m.line()), "trxd.%s.rt 1 %s" % (kind, m.line())])
        return a[0] != a[1]
    a = vf.run_lines(T.HARNESS, ["trxd.%s.rt %d %s" % (kind, l, m.line())])[0]
    return judge(kind, m, l, a) is not None


def shrink_burst(kind, m, l, legacy_pair=False):
    """make the witness readable: try a constant burst, then a single deviating position"""
    if m.burst is None:
        return m
    base = 1 if kind == "tx" else 0x7f
    n = len(m.burst)
    if rt_fails(kind, m.copy(burst=bytes([base]) * n), l, legacy_pair):
        return m.copy(burst=bytes([base]) * n)
    for v in sorted(set(m.burst)):
        mm = m.copy(burst=bytes([base]) * (n - 1) + bytes([v]))
        if rt_fails(kind, mm, l, legacy_pair):
            return mm
    return m


def search(run, corr, deep):
    found = 0
    fails = []
    for dp in ([False, True] if deep else [False]):
        msgs, reqs, impl = impl_rt(run, dp)
        for (k, m, l), a in zip(msgs, impl):
            if not in_quantifier(k, m):
                continue
            why = judge(k, m, l, a)
            if why:
                fails.append((k, m, l, a, why))
        corr.distribution["oracle: round trips judged" + (" (deep)" if dp else "")] = len(msgs)
        # "every message the toolkit ACCEPTS as valid": also take the boundary lattice around every range
        # (values the protocol excludes included) and judge whatever the real validate()/gen_msg() lets through
        extra = [("tx", m, l) for m in T.tx_lattice() for l in (0, 1)] + \
                [("rx", m, l) for m in T.rx_lattice(run.rng, pairs=run.scale(200, 2000)) for l in (0, 1)]
        extra = [(k, m, l) for (k, m, l) in extra if not (k == "rx" and m.burst is not None and 0x80 in bytes(m.burst))
                 and not (k == "tx" and m.burst is not None and not set(bytes(m.burst)) <= {0, 1})]
        ea = vf.run_lines(T.HARNESS, ["trxd.%s.rt %d %s" % (k, l, m.line()) for k, m, l in extra])
        nacc = 0
        # a round trip that did not come back: refused by the real encoder (not a message the toolkit accepts), or accepted
        # and encoded but then not decodable - the second is a violation
        notok = [(k, m, l) for (k, m, l), a in zip(extra, ea) if not a.startswith("ok")]
        ga = vf.run_lines(T.HARNESS, ["trxd.%s.gen %d %s" % (k, l, m.line()) for k, m, l in notok])
        encoded = {(k, l, m.line()) for (k, m, l), g in zip(notok, ga) if g.startswith("ok")}
        for (k, m, l), a in zip(extra, ea):
            if not a.startswith("ok"):
                if (k, l, m.line()) in encoded:
                    nacc += 1
                    fails.append((k, m, l, a, "a message the real validate()/gen_msg() accepts does not decode from its own encoding: %s" % a))
                continue
            nacc += 1
            why = judge(k, m, l, a)
            if why:
                fails.append((k, m, l, a, why + " (message accepted by the real validate())"))
        corr.distribution["oracle: boundary-lattice messages accepted by the real validate() and judged" + (" (deep)" if dp else "")] = nacc
        # legacy: v0 decodes the same with and without padding
        v0 = [(k, m) for k, m, l in msgs if m.ver == 0 and in_quantifier(k, m)][: run.scale(3000, 60000)]
        lreq = []
        for k, m in v0:
            lreq += ["trxd.%s.rt 0 %s" % (k, m.line()), "trxd.%s.rt 1 %s" % (k, m.line())]
        la = vf.run_lines(T.HARNESS, lreq)
        for i, (k, m) in enumerate(v0):
            if la[2 * i] != la[2 * i + 1]:
                fails.append((k, m, 1, la[2 * i + 1], "legacy padding changes the decoded message (without: %s)" % la[2 * i][:80]))
        corr.distribution["oracle: legacy pairs judged" + (" (deep)" if dp else "")] = len(v0)
        # decoder re-use: a decoder object that decoded another message before still yields the encoded message
        # (every field the version transports)
        pool = {"tx": [(m, l) for k, m, l in msgs if k == "tx" and in_quantifier(k, m)],
                "rx": [(m, l) for k, m, l in msgs if k == "rx" and in_quantifier(k, m)]}
        rreq, rmeta = [], []
        for k in ("tx", "rx"):
            if len(pool[k]) < 2:
                continue
            nob = [x for x in pool[k] if x[0].burst is None] or pool[k]
            for _ in range(run.scale(1500, 20000)):
                m1, l1 = run.rng.choice(pool[k])
                m2, l2 = run.rng.choice(nob if run.rng.random() < 0.5 else pool[k])
                rreq.append("trxd.%s.rt2 %d %s %d %s" % (k, l1, m1.line(), l2, m2.line()))
                rmeta.append((k, m1, l1, m2, l2))
        ra = vf.run_lines(T.HARNESS, rreq)
        for (k, m1, l1, m2, l2), a in zip(rmeta, ra):
            why = judge_reused(k, m2, a)
            if why:
                fails.append((k, m2, l2, a, why + " (decoder object re-used after: %s legacy=%d)" % (m1.line()[:120], l1), (m1, l1)))
        corr.distribution["oracle: round trips through a re-used decoder object" + (" (deep)" if dp else "")] = len(rreq)
        if fails:
            break
    # the encoder on a message object that was encoded before (fields assigned / burst overwritten in place since)
    rf = reuse.run(run, corr, [x for x in messages(run) if in_quantifier(x[0], x[1])][:: 3], True, "C01")
    if rf:
        found += run.report_witness(reuse.witness(rf[0], len(rf)))
    corr.distribution["oracle: violating round trips"] = len(fails)
    seen = set()
    for f in fails:
        k, m, l, a, why = f[:5]
        prev = f[5] if len(f) > 5 else None
        sig = (k, m.ver, why.split(" (decoder object")[0], prev is not None,
               getattr(m, "mod", None) if (k == "rx" and m.ver == 1) else len(m.burst or b""))
        if sig in seen or len(seen) >= 3:
            continue
        seen.add(sig)
        if prev is not None:
            want = T.carried_tx(m) if k == "tx" else T.carried_rx(m)
            w = m.asdict()
            w.update({"line": m.line(), "kind": "roundtrip-reused-decoder", "legacy": l, "what": why, "decoded": a,
                      "expected": want.line(), "first_line": prev[0].line(), "first_legacy": prev[1],
                      "failing_cases_in_this_run": len(fails)})
            found += run.report_witness(w)
            continue
        mm = shrink_burst(k, m, l, "legacy padding" in why)
        a2 = vf.run_lines(T.HARNESS, ["trxd.%s.rt %d %s" % (k, l, mm.line())])[0]
        w = mm.asdict()
        try:
            expected = (T.carried_tx(mm) if k == "tx" else T.carried_rx(mm)).line()
            what = judge(k, mm, l, a2) or why
        except (KeyError, ValueError, TypeError):
            # a message outside the protocol ranges that the real code nevertheless accepted: there is no reference decoding
            expected, what = mm.line(), why
        w.update({"line": mm.line(), "kind": "roundtrip", "legacy": l, "what": what, "decoded": a2,
                  "expected": expected, "failing_cases_in_this_run": len(fails)})
        found += run.report_witness(w)
    return found


def replay(run, path):
    rp = json.load(open(path))
    bad = 0
    for v in rp.get("violations", []):
        w = v.get("witness")
        if not w:
            print("replay: no concrete input recorded (%s)" % json.dumps(v.get("broken"))[:400])
            continue
        if w.get("kind") == "message-object-reused":
            still, text = reuse.replay(w)
            print(text)
            bad += still
            continue
        kind = "tx" if w["class"] == "TxMsg" else "rx"
        l = w.get("legacy", 0)
        if w.get("kind") == "roundtrip-reused-decoder":
            a = vf.run_lines(T.HARNESS, ["trxd.%s.rt2 %d %s %d %s" % (kind, w["first_legacy"], w["first_line"], l, w["line"])])[0]
        else:
            a = vf.run_lines(T.HARNESS, ["trxd.%s.rt %d %s" % (kind, l, w["line"])])[0]
        ok = a == "ok " + w["expected"]
        if w.get("kind") == "roundtrip-reused-decoder":
            mm = (T.parse_tx_answer if kind == "tx" else T.parse_rx_answer)("ok " + w["line"])
            ok = judge_reused(kind, mm, a) is None
        print("replay %s legacy=%d: decoded=%s expected=%s -> %s" % (w["line"][:100], l, a[:100], w["expected"][:100],
                                                                     "property holds" if ok else "VIOLATED"))
        bad += not ok
    if bad:
        print("VIOLATION property=C01 replay=%s" % path)
    return 1 if bad else 0
