# C11, firmware side: the runtime of mframe_sched.c beyond the tables - mframe_enable / mframe_disable /
# mframe_set / mframe_reset and mframe_schedule() with its safe_fn latching.  Helper of props/C11.py:
# request generators (`mf.run`), the real outputs, the correspondence part and the property oracle.
from lib import vf

CYCLE = 51 * 26 * 8
H = 26 * 51 * 2048


def rvs_str(nsets, rng, profile):
    if profile == "six":
        return ",".join(["6"] * nsets)
    if profile == "small":
        return ",".join(str(rng.choice([2, 3, 4, 5, 6])) for _ in range(nsets))
    if profile == "edge":
        return ",".join(str(rng.choice([-1, 0, 1, 2, 3, 6, 7, 100, 1357824, 2715648, 2715650, -1000000, 1000000]))
                        for _ in range(nsets))
    return ",".join(str(rng.randrange(-3, 12)) for _ in range(nsets))


def valid_tasks(fw):
    return [i for i, x in enumerate(fw["sched_set_for_task"]) if x is not None]


def gen_cycle_histories(fw, rng, count):
    """reset, a task set, then the full 51*26*8 cycle in segments with enable / disable / set in between"""
    nsets = len(fw["sets"])
    valid = valid_tasks(fw)
    reqs = []
    for j in range(count):
        prof = ["six", "small", "any", "six"][j % 4]
        rvs = rvs_str(nsets, rng, prof)
        mask = 0
        for t in rng.sample(valid, min(len(valid), rng.randrange(1, 7))):
            mask |= 1 << t
        ops = ["r", "s%d" % mask]
        hist = [("r",), ("s", mask)]
        fn = 0
        while fn < CYCLE:
            n = min(CYCLE - fn, rng.choice([1, 2, 3, 7, 26, 51, 102, 104, 400, 900, 2000]))
            ops.append("t%d,%d" % (fn, n))
            hist.append(("t", fn, n))
            fn += n
            r = rng.random()
            t = rng.choice(valid)
            if r < 0.45:
                ops.append("e%d" % t)
                hist.append(("e", t))
            elif r < 0.8:
                ops.append("d%d" % t)
                hist.append(("d", t))
            elif r < 0.9:
                m2 = 0
                for t2 in rng.sample(valid, min(len(valid), rng.randrange(0, 5))):
                    m2 |= 1 << t2
                ops.append("s%d" % m2)
                hist.append(("s", m2))
        ops.append("p")
        hist.append(("p",))
        reqs.append(("mf.run %s 0,0,0 %s" % (rvs, " ".join(ops)),
                     {"kind": "cycle", "hist": hist, "rvs": [int(x) for x in rvs.split(",")], "init": (0, 0, 0)}))
    return reqs


def gen_edges(fw, rng, count):
    """arbitrary scheduler states and ticks: safe_fn around the tick, at the half hyperframe, invalid; the
    hyperframe and uint32 wrap; return values of the TDMA scheduler incl. the error value"""
    nsets = len(fw["sets"])
    valid = valid_tasks(fw)
    reqs = []
    for _ in range(count):
        rvs = rvs_str(nsets, rng, rng.choice(["edge", "any", "small"]))
        fn = rng.choice([0, 1, 5, rng.randrange(H), H - 1, H - 2, H, 2 ** 32 - 1, 2 ** 32 - 3, H // 2, H // 2 + 1])
        d = rng.choice([-2, -1, 0, 1, 2, 3, 4, 10, H // 2 - 1, H // 2, H // 2 + 1, H - 1, -(H // 2), rng.randrange(-50, 50)])
        safe = rng.choice([(fn + d) % 2 ** 32, (fn + d) % H, H, H - 1, 2 ** 32 - 1, 0, rng.randrange(2 ** 32)])
        t = g = 0
        for x in rng.sample(valid, min(len(valid), rng.randrange(0, 5))):
            t |= 1 << x
        for x in rng.sample(valid, min(len(valid), rng.randrange(0, 5))):
            g |= 1 << x
        if rng.random() < 0.3:
            g = t
        ops = []
        for _ in range(rng.randrange(1, 6)):
            r = rng.random()
            if r < 0.5:
                ops.append("t%d,%d" % (fn, rng.choice([1, 1, 2, 5, 30])))
                fn = rng.choice([fn + 1, fn + 30, (fn + 1) % H, rng.randrange(H)])
            elif r < 0.65:
                ops.append("e%d" % rng.choice(valid + [31, 30]))
            elif r < 0.8:
                ops.append("d%d" % rng.choice(valid + [31, 0]))
            elif r < 0.9:
                ops.append("s%d" % rng.choice([0, g, t, 2 ** 32 - 1 if rng.random() < 0.2 else g | t]))
            else:
                ops.append(rng.choice(["r", "p"]))
        ops.append("t%d,3" % fn)
        reqs.append(("mf.run %s %d,%d,%d %s" % (rvs, t, g, safe, " ".join(ops)), {"kind": "edge"}))
    six = rvs_str(nsets, rng, "six")
    for line in ("mf.run %s 0,0,0 e32" % six, "mf.run %s 0,0,0 p d40 p" % six, "mf.run %s 0,0,0 e31 p d31 p e0 e1 d0 p" % six,
                 "mf.run %s 0,0,0 r e31 t0,5" % six, "mf.run %s 0,0,0 r s%d t0,2" % (six, 1 << 30), "mf.run %s 0,0,0" % six,
                 "mf.run %s 0,0,0 r s4294967295 p t7,0 p" % six, "mf.run %s 5,4,4294967295 t0,60 p" % six):
        reqs.append((line, {"kind": "edge"}))
    return reqs


def requests(run, fw):
    rng = run.rng
    return gen_cycle_histories(fw, rng, run.scale(6, 40)) + gen_edges(fw, rng, run.scale(300, 3000))


def real(run, fw, exe):
    if getattr(run, "c11_fwrt_real", None) is None:
        reqs = requests(run, fw)
        out = vf.run_lines([exe], [r for r, _ in reqs])
        run.c11_fwrt_real = (reqs, out)
    return run.c11_fwrt_real


def in_domain(fw, req):
    """task bitmaps built from the enumerators of enum mframe_task, frame numbers below the hyperframe"""
    toks = req.split()
    if len(toks) < 3 or toks[0] != "mf.run":
        return False
    valid = 0
    for _, v in fw["tasks"]:
        valid |= 1 << v
    try:
        t, g, sf = [int(x) for x in toks[2].split(",")]
        if (t | g) & ~valid:
            return False
        for op in toks[3:]:
            if op in ("r", "p"):
                continue
            if op[0] == "s":
                if int(op[1:]) & ~valid:
                    return False
            elif op[0] in "ed":
                if not (valid >> int(op[1:])) & 1:
                    return False
            elif op[0] == "t":
                a, b = [int(x) for x in op[1:].split(",")]
                if a + b > H:
                    return False
            else:
                return False
    except ValueError:
        return False
    return True


def correspond(run, corr, fw, exe):
    reqs, impl = real(run, fw, exe)
    lines = [r for r, _ in reqs]
    model = vf.run_driver(lines)
    corr.compare(lines, impl, model, in_domain=lambda r: in_domain(fw, r), model_ub=lambda b: b.startswith("crash:"))
    for (r, m), a in zip(reqs, impl):
        corr.count(r, "mf.run %s%s" % (m["kind"], " crash" if a.startswith("crash") else ""))
    corr.samples.append({"request": lines[0][:300], "impl": impl[0][:300], "model": model[0][:300]})


# ----------------------------------------------------------------------------

def parse_tick(tok):
    """`<calls or ->@tasks.safe` -> (list of (fn, off, set, p3), tasks, safe_fn)"""
    ev, st = tok.rsplit("@", 1)
    tasks, safe = st.split(".")
    calls = []
    if ev != "-":
        for c in ev.split(","):
            fn, off, name, p3 = c.split(":")
            calls.append((int(fn), int(off), name, int(p3)))
    return calls, int(tasks), int(safe)


def expected_calls(fw, tasks, fn):
    """the calls the tables prescribe at tick fn for active bitmap `tasks`: for every task bit in ascending order every
    row whose trigger fires ((fn + SCHEDULE_AHEAD) mod modulo = frame_nr mod modulo), in table order, with frame offset
    SCHEDULE_AHEAD - SCHEDULE_LATENCY and p3 = task id | flags << 8"""
    ahead, lat = fw["consts"]["SCHEDULE_AHEAD"], fw["consts"]["SCHEDULE_LATENCY"]
    exp = []
    for t in range(32):
        if not (tasks >> t) & 1 or t >= len(fw["sched_set_for_task"]):
            continue
        name = fw["sched_set_for_task"][t]
        for st, mod, fnr, fl in fw["tables"].get(name, []) if name else []:
            if mod and (fn + ahead) % mod == fnr % mod:
                exp.append((fn, ahead - lat, st, (t | (fl << 8)) & 0xffff))
    return exp


def judge(req, m, ans, fw):
    """witnesses of one `cycle` history: at every tick the calls must be exactly those the tables prescribe for the
    active tasks, in task order, each once; a disabled task is not scheduled from the next mframe_schedule() on; the
    active set never exceeds the target set and equals it when nothing scheduled is in the way."""
    if ans.startswith("crash"):
        return [{"kind": "fw-runtime", "what": "mframe_schedule() faulted: %s" % ans, "request": req[:200],
                 "replay": {"request": req, "meta": m}}]
    ops = ans.split("|")
    tgt = m["init"][1]
    maxrv = max([2] + list(m["rvs"]))
    quiet = 10 ** 9          # ticks since the last call (start: reset => nothing in the way)
    for h, o in zip(m["hist"], ops):
        if h[0] == "r":
            tgt = 0
            quiet = 10 ** 9
        elif h[0] == "s":
            tgt = h[1]
        elif h[0] == "e":
            tgt |= 1 << h[1]
        elif h[0] == "d":
            tgt &= ~(1 << h[1])
        if h[0] != "t":
            continue
        for k, tok in enumerate(o.split(" ") if o != "-" else []):
            fn = h[1] + k
            calls, tasks, safe = parse_tick(tok)
            exp = expected_calls(fw, tasks, fn)
            bad = None
            if tasks & ~tgt:
                bad = "a task that is not in the target set is active"
            elif calls != exp:
                bad = "the calls of the tick are not the firing rows of the active tasks"
            elif quiet > maxrv + 2 and tasks != tgt:
                bad = "nothing scheduled is in the way, but the active set is not the target set"
            if bad:
                return [{"kind": "fw-runtime", "fn": fn, "tasks_active": tasks, "tasks_target": tgt, "safe_fn": safe,
                         "calls": [list(c) for c in calls[:8]], "expected": [list(c) for c in exp[:8]], "what": bad,
                         "request": req[:200], "replay": {"request": req, "meta": m}}]
            quiet = 0 if calls else quiet + 1
    return []


def oracle(run, fw, exe):
    reqs, out = real(run, fw, exe)
    wit = []
    for (req, m), ans in zip(reqs, out):
        if m["kind"] == "cycle":
            wit += judge(req, m, ans, fw)
    return wit


def replay_witness(run, exe, w, fw):
    rp = w.get("replay") or {}
    if "request" not in rp:
        return None
    m = rp["meta"]
    m = dict(m, hist=[tuple(h) for h in m["hist"]])
    ans = vf.run_lines([exe], [rp["request"]])[0]
    return judge(rp["request"], m, ans, fw)
