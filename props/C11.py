# C11 — Firmware and trxcon agree on the multiframe mapping of every logical channel
import json
import os

from lib import vf, cbuild
from gen import mframe
from props import c11_sched, c11_fwrt

ID = "C11"
LEVEL = "proof"
LEAN_MODULES = ["OsmoVerif.Props.C11", "OsmoVerif.Props.C11Trx", "OsmoVerif.Props.C11Fw"]
DRIVER_MODULES = ["Mframe", "TrxSched"]
LEAN_MODEL_MODULES = ["OsmoVerif.Model.Mframe", "OsmoVerif.Model.TrxSched", "OsmoVerif.Spec.Mframe",
                      "OsmoVerif.Lemmas.Mframe", "OsmoVerif.Lemmas.MframeRt", "OsmoVerif.Lemmas.TrxSched",
                      "OsmoVerif.Gen.FwMframe", "OsmoVerif.Gen.TrxconMframe", "OsmoVerif.Gen.TrxconLchanDesc"]
ASSUMPTIONS = [
    "theorems are about OsmoVerif.Model.Mframe (hand models of mframe_schedule_set's trigger arithmetic and of the mframe_schedule() task loop with the C widths; of l1sched_mframe_layout(); of the frames[fn % period] lookup of sched_trx.c) over tables regenerated on every run: every mf_*[] table, sched_set_for_task[], SCHEDULE_AHEAD/LATENCY, MF_F_*; layouts[] and every frame_*[] table with the enumerator names",
    "the only hand-written bridge is OsmoVerif.Spec.Mframe: firmware task <-> (channel combination, logical channel, SACCH channel, directions, valid timeslots), written from TS 45.002 clause 7; direction served by each firmware sched set (nb_sched_set = Downlink block, nb_sched_set_ul = Uplink block, tch_sched_set / tch_a_sched_set = one burst received and transmitted in the same frame, tch_d_sched_set and neigh_pm_sched_set own no frame) is part of that Spec",
    "modelled, not verified: the first burst of a set handed to tdma_schedule_set(frame_offset = SCHEDULE_AHEAD - SCHEDULE_LATENCY, ...) at tick fn is on the air in frame fn + frame_offset + 1 (Calypso DSP executes a command one frame after it is written to the API page; the contents of the sched sets in prim_rx_nb.c / prim_tx_nb.c / prim_tch.c are outside the anchored code); SCHEDULE_LATENCY must equal that hardware latency for theorem trigger_air_frame",
    "modelled, not verified (note N15): layouts[0] = GSM_PCHAN_NONE has period 0 and frames NULL, a frame lookup in it divides by zero (theorem none_layout_excluded); the callers never configure it: l1sched_configure_ts() is only reached from trxcon_fsm.c with a combination derived by l1sched_chan_nr2pchan_config() / l1ctl ccch_mode, none of which yields GSM_PCHAN_NONE, and l1sched_pull_burst() / the Downlink path return early when ts->mf_layout == NULL; these guards are listed, not proved",
    "left out because only one stack implements it: Uplink of PDTCH (firmware mf_gprs_pdtch is a receive-only task), PTCCH (firmware mf_gprs_ptcch is empty), extended BCCH (no lchan in trxcon, the block is CCCH there), FCCH/SCH/RACH (not multiframe tasks in the firmware), neighbour measurement and the TX test task (no logical channel); theorems spec_covers_layouts / spec_covers_tasks / dl_only_channels_have_no_uplink prove that nothing else is left out",
    "firmware runtime (Props/C11Fw): mframe_enable / mframe_disable / mframe_set / mframe_reset and mframe_schedule() with the tasks_tgt -> tasks latch and the safe_fn bookkeeping (ADD_MODULO, uint32_t / int conversions) are modelled statement by statement; the value tdma_schedule_set() returns (frames the set spans, or the bucket-overflow error) is the environment: a function of the sched set supplied with every request; `1 << 31` is taken as the bit pattern 0x80000000; task ids >= 32 (undefined shift) and task bits without a table (NULL dereference) are explicit crash outcomes, outside the property's domain (the 29 enumerators of enum mframe_task)",
    "trxcon consumers (Props/C11Trx): sched_trx.c is compiled unchanged (clang, ASan+UBSan) against declaration-only shim headers (harness/c/shim_trxsched over shim_trxcon: talloc -> calloc, libosmocore list primitives, RSL channel numbers, GSM_TDMA_FN_INC) together with the unchanged sched_lchan_desc.c and sched_mframe.c; the environment is the harness: the lchan Rx/Tx handlers named in sched_lchan_desc.c record (lchan type, tn, fn, bid) and do nothing else, the primitive sink records the PCHAN_COMB indications, talloc never fails, the Tx primitive queue is empty (no handover-RACH override in l1sched_pull_burst), A5 is off; modelled state of a timeslot: mf_layout, list-head-initialised flag, channel states in list order with type / active / tdma statistics (unsigned long = 64 bit); not modelled: burst buffers, AMR/SACCH/measurement state",
    "out-of-table detection on the real code: the linker option --wrap=l1sched_mframe_layout hands sched_trx.c a copy of the layout the real function returned whose frame table (true length taken from the array definition) lies between ASan-poisoned guard rows; every request runs in a forked child, a poisoned read is reported as crash:out-of-table, a division by zero as crash:period-zero, a NULL dereference as crash:null",
    "modelled, not verified: GSM_TDMA_HYPERFRAME = 2715648 and the errno names come from the environment (libosmocore / libc); frame numbers handed to l1sched_handle_rx_burst are below the hyperframe (trx_if.c drops others) and tn is 0..7 (callers mask with 7): hypotheses of the theorems, larger values are in the differential tie but outside the property's domain",
    "known and excluded by hypothesis (reported, not a C11 violation): a FIRST l1sched_configure_ts() that fails with -EINVAL (no layout for the combination and timeslot) leaves a talloc_zero'ed timeslot whose list head was never initialised; a following l1sched_del_ts / l1sched_reset / l1sched_reset_ts / l1sched_configure_ts on it walks a NULL list head (theorem failed_first_configure_then_delete; the real code crashes the same way in the tie); the callers only pass combinations that have layouts",
    "libosmocore environment of sched_mframe.c replaced by declaration-only shim headers (harness/c/shim_trxcon; enum gsm_phys_chan_config in the upstream order, names printed by the dumper); firmware environment by harness/c/shim; both code files are compiled unchanged",
    "model tied to the real code by running mframe_schedule() for every tick of a 51*26*8 cycle for every task (recording tdma_schedule_set stub), and l1sched_mframe_layout() + the frame lookup for every (combination, timeslot) and every frame number of the cycle, against the Lean driver; the scheduler state machine over full cycles with random task sets and enable/disable/set in between and arbitrary states at the hyperframe / uint32 edges (mf.run); l1sched_configure_ts for every (combination value, timeslot), rx / tx / probe for every frame number of the cycle with all channels active, lost-frame compensation through the API for every Downlink channel of every layout (elapsed 1 .. >104, hyperframe wrap) and with injected tdma state, random histories incl. the crash outcomes (ts.seq)",
    "differences between code and model on requests outside the property's domain (task bits 29..31, task ids >= 32, timeslots >= 8, combinations without layout, frame numbers >= 2715648) or where the model answers crash:... are counted in the evidence and are not a broken tie; the oracle judges in-domain inputs only",
]
MANIFEST = {
    "text": "Consumers: for every layout, timeslot state and frame number no lookup of l1sched_handle_rx_burst / l1sched_pull_burst / l1sched_handle_rx_probe / subst_frame_loss leaves the table and the frame used is row fn % period [rx_lookup_in_table, tx_lookup_in_table, probe_lookup_in_table, rx_stream_total]; l1sched_configure_ts creates exactly the channel states of the layout's mask with the real 64-bit mask arithmetic, so every channel of every frame has a state [configure_ts_states, configured_channels_have_state]; lost-frame compensation substitutes exactly the layout's frames of the channel in the lost interval with the layout's burst ids, nothing beyond one period [subst_frame_loss_exact, mem_lostFrames, rx_burst_delivery]; firmware runtime: at every tick exactly the firing rows of the active tasks are handed to tdma_schedule_set, each once, with offset AHEAD-LATENCY and p3 = id | flags<<8 [schedule_calls_exact, call_arguments], no index outside sched_set_for_task[] [schedule_index_in_range], disable at the next mframe_schedule, enable at the first one with nothing in the way [disable_takes_effect, enable_takes_effect, task_off_stays_off]. Lean 4 theorems over tables regenerated from mframe_sched.c and sched_mframe.c on every run: for every pairing of the TS 45.002 correspondence table, every valid timeslot, direction and frame number the firmware starts a block (schedules a TCH / SACCH frame) exactly when trxcon's layout marks burst 0 (owns the frame) [mapping_agrees, block_starts_agree, tch_frames_agree]; burst ids cyclic for all frame numbers [bids_cyclic]; no lookup leaves the table [lookup_in_table]; channels in mask [chans_in_mask]; layout lookup valid and total [layout_lookup_valid, layout_lookup_total]; trigger arithmetic [trigger_model]; nothing left out of the correspondence [spec_covers_layouts, spec_covers_tasks]; each is kernel evaluation of a Boolean checker (decide +kernel) plus a lifting lemma to all frame numbers; models compared with the real mframe_schedule() and l1sched_mframe_layout() over a full 51*26*8 cycle; independent Python oracle on the dumped tables and real outputs",
    "note": "trusted: Lean kernel (+propext, Classical.choice, Quot.sound), the two C dumpers (harness/c/c11_fw_dump.c, c11_trxcon_dump.c) and gen/mframe.py, the correspondence table Spec/Mframe.lean (about 40 lines, from TS 45.002 clause 7), shim headers; modelled not verified: air frame of a scheduled set = tick + SCHEDULE_AHEAD, caller guards that keep the NONE layout unreachable (N15); left out: PDTCH Uplink, PTCCH, BCCH ext (one stack only)",
    "technique": "Lean 4 proof by kernel evaluation over regenerated tables + lifting lemmas, inductive proofs over the statement-level models of sched_trx.c and of the mframe_sched.c runtime; differential correspondence with the compiled C of both stacks over a full cycle (sched_trx.c under ASan/UBSan with poisoned guard rows around every frame table)",
    "design_ref": "DESIGN.md section 5 C11, note N15",
}

CYCLE = 51 * 26 * 8
# AST-normalised hashes of the modelled functions when the models were written (source-drift
# detector: a different hash is recorded in the evidence, it is not an alarm; the
# correspondence below is exhaustive over the cycle in both tiers, so there is nothing to escalate)
DRIFT_BASE = {
    "src/target/firmware/layer1/mframe_sched.c": "99200bcc332c55a5",
    "src/host/trxcon/src/sched_mframe.c": "562a77089138dc42",
    "src/host/trxcon/src/sched_trx.c": "9980cadb1a1a7720",
}
CHUNK = 104
TRX_SRC = "src/host/trxcon/src/sched_mframe.c"
FW_SRC = "src/target/firmware/layer1/mframe_sched.c"
TRX_SCHED_SRC = "src/host/trxcon/src/sched_trx.c"


def gen(run):
    run.mf = mframe.generate(run)


def tables(run):
    if getattr(run, "mf", None) is None:
        run.mf = {"fw": mframe.dump_fw(run), "trxcon": mframe.dump_trxcon(run), "desc": mframe.dump_desc(run)}
    return run.mf


def build_fw(run):
    if getattr(run, "c11_fw", None):
        return run.c11_fw
    mframe.fw_names(run)
    o1 = cbuild.firmware_obj(run, "layer1/mframe_sched.c", "c11_mframe_sched", extra_flags=cbuild.CONSOLE_FLAGS)
    o2 = cbuild.obj(run, os.path.join(vf.ROOT, "harness/c/c11_fw_harness.c"), "c11_fw_harness",
                    flags=["-DHOST_BUILD"], includes=[run.scratch, cbuild.SHIM, cbuild.LIBOSMO_INC, cbuild.TOP_INC],
                    idirafter=[cbuild.FW_INC])
    sib = cbuild.sibling_objs(run, [o2, o1, cbuild.console_sink(run)], "layer1", "c11_fw", extra_flags=cbuild.CONSOLE_FLAGS)
    run.c11_fw = cbuild.link(run, [o2, o1] + sib + [cbuild.console_sink(run)], "c11_fw_harness.bin")
    return run.c11_fw


def build_trxcon(run):
    if getattr(run, "c11_trxcon", None):
        return run.c11_trxcon
    inc = [mframe.SHIM_TRXCON, mframe.TRXCON_INC]
    # sched_mframe.c and whatever files of its directory hold layouts[] / frame tables in this tree
    o1 = [cbuild.obj(run, p, "c11_sched_mframe%d" % i, includes=inc, flags=cbuild.CONSOLE_FLAGS) for i, p in enumerate(mframe.trxcon_sources())]
    o2 = cbuild.obj(run, os.path.join(vf.ROOT, "harness/c/c11_trxcon_harness.c"), "c11_trxcon_harness", includes=inc)
    run.c11_trxcon = cbuild.link(run, [o2] + o1 + [cbuild.console_sink(run)], "c11_trxcon_harness.bin")
    return run.c11_trxcon


# ----------------------------------------------------------------------------
# real outputs (cached per run; used by the correspondence and by the oracle)

def fw_requests(run):
    ntasks = 32
    reqs = []
    for t in range(ntasks):
        for fn0 in range(0, CYCLE, CHUNK):
            reqs.append("mf.fw %d %d %d" % (1 << t, fn0, CHUNK))
    return reqs


def fw_real(run):
    """tick -> list of (offset, set, p3) per task id, from the real mframe_schedule()"""
    if getattr(run, "c11_fw_real", None) is not None:
        return run.c11_fw_real
    exe = build_fw(run)
    reqs = fw_requests(run)
    out = vf.run_lines([exe], reqs)
    run.c11_fw_lines = (reqs, out)
    ev = {}
    for r, a in zip(reqs, out):
        t = int(r.split()[1]).bit_length() - 1
        d = ev.setdefault(t, {"crash": None, "events": {}})
        if a.startswith("crash:"):
            d["crash"] = a
        elif a != "-":
            for tok in a.split():
                fn, off, st, p3 = tok.split(":")
                d["events"].setdefault(int(fn), []).append((int(off), st, int(p3)))
    run.c11_fw_real = ev
    return ev


def trx_cfgs(run):
    try:
        vals = [v for _, v in tables(run)["trxcon"]["pchans"]]
    except Exception:
        vals = list(range(12))
    return list(range(0, max(vals) + 3)) + [200]


def trx_real(run):
    """(cfg, tn) -> header or None; (cfg, tn) -> list of frames (dl, dlbid, ul, ulbid) for fn 0..CYCLE+CHUNK-1"""
    if getattr(run, "c11_trx_real", None) is not None:
        return run.c11_trx_real
    exe = build_trxcon(run)
    lreqs = ["mf.layout %d %d" % (c, tn) for c in trx_cfgs(run) for tn in list(range(8)) + [8, 9, 30]]
    lout = vf.run_lines([exe], lreqs)
    hdr = {}
    for r, a in zip(lreqs, lout):
        _, c, tn = r.split()
        hdr[(int(c), int(tn))] = None if a == "none" else [int(x) for x in a.split()]
    freqs = []
    span = 1326
    for (c, tn), h in sorted(hdr.items()):
        if h is None or tn > 7:
            continue
        for fn0 in range(0, CYCLE + span, span):
            freqs.append("mf.frames %d %d %d %d" % (c, tn, fn0, span))
    fout = vf.run_lines([exe], freqs)
    frames = {}
    for r, a in zip(freqs, fout):
        _, c, tn, fn0, n = r.split()
        key = (int(c), int(tn))
        if a.startswith("crash:") or a == "none":
            frames[key] = a
            continue
        if isinstance(frames.get(key), str):
            continue
        lst = frames.setdefault(key, [])
        for tok in a.split():
            dl, ul = tok.split("/")
            a1, b1 = dl.split(".")
            a2, b2 = ul.split(".")
            lst.append((int(a1), int(b1), int(a2), int(b2)))
    run.c11_trx_lines = (lreqs + freqs, lout + fout)
    run.c11_trx_real = (hdr, frames)
    return run.c11_trx_real


# ----------------------------------------------------------------------------
# the domain the property quantifies over: the enumerators of enum mframe_task, timeslots 0..7, the channel
# combinations layouts[] has, frame numbers below the hyperframe

H = 26 * 51 * 2048


def in_domain(run):
    tb = tables(run)
    valid = 0
    for _, v in tb["fw"]["tasks"]:
        valid |= 1 << v
    cfgs = {l["config"] for l in tb["trxcon"]["layouts"]}

    def f(req):
        t = req.split()
        try:
            a = [int(x) for x in t[1:]]
        except ValueError:
            return False
        if t[0] == "mf.fw":
            return len(a) == 3 and not a[0] & ~valid and a[1] + a[2] <= H
        if t[0] == "mf.layout":
            return len(a) == 2 and a[0] in cfgs and a[1] <= 7
        if t[0] == "mf.frames":
            return len(a) == 4 and a[0] in cfgs and a[1] <= 7 and a[2] + a[3] <= H
        return False
    return f


def model_ub(ans):
    return ans.startswith("crash:")


def correspond(run, corr):
    for rel, names in ((FW_SRC, ["mframe_schedule_set", "mframe_schedule", "mframe_set", "mframe_reset", "mframe_enable", "mframe_disable"]),
                       (TRX_SRC, ["l1sched_mframe_layout"]),
                       ("src/host/trxcon/src/sched_trx.c", c11_sched.FUNCS)):
        run.drift[rel] = vf.src_hash_c(os.path.join(vf.REPO, rel), names)
        if run.drift[rel] != DRIFT_BASE.get(rel):
            corr.notes.append("source drift: modelled functions of %s changed since the model was written" % rel)
    # firmware: every task alone over the full cycle (tasks 29..31 have no table: the crash outcome)
    fw_real(run)
    reqs, impl = run.c11_fw_lines
    extra = []
    valid = [v for _, v in tables(run)["fw"]["tasks"]] if getattr(run, "mf", None) else list(range(29))
    for _ in range(run.scale(4, 40)):
        k = run.rng.randrange(2, 7)
        mask = 0
        for t in run.rng.sample(valid, min(k, len(valid))):
            mask |= 1 << t
        for fn0 in range(0, CYCLE, 1326):
            extra.append("mf.fw %d %d %d" % (mask, fn0, 1326))
    allmask = 0
    for t in valid:
        allmask |= 1 << t
    for mask in (allmask, 1 << run.rng.choice(valid), 0):
        extra.append("mf.fw %d %d %d" % (mask, H - 110, 110))
        extra.append("mf.fw %d %d %d" % (mask, 2 ** 32 - 60, 60))
        extra.append("mf.fw %d %d %d" % (mask, run.rng.randrange(0, H - 300), 300))
    eimpl = vf.run_lines([build_fw(run)], extra)
    reqs = reqs + extra
    impl = impl + eimpl
    model = vf.run_driver(reqs)
    dom = in_domain(run)
    corr.compare(reqs, impl, model, in_domain=dom, model_ub=model_ub)
    for r, a in zip(reqs, impl):
        corr.count(r, "mf.fw " + ("crash" if a.startswith("crash") else ("no-event" if a == "-" else "events")))
    corr.samples += [{"request": r, "impl": a[:300], "model": b[:300]} for r, a, b in list(zip(reqs, impl, model))[41:43]]
    # trxcon: every (combination value, timeslot) lookup and every frame of the cycle
    trx_real(run)
    treqs, timpl = run.c11_trx_lines
    textra = []
    hdr, _ = run.c11_trx_real
    for (c, tn), h in sorted(hdr.items()):
        if h is not None and tn <= 7:
            textra.append("mf.frames %d %d %d %d" % (c, tn, 2 ** 32 - 200, 200))
            textra.append("mf.frames %d %d %d %d" % (c, tn, H - 150, 300))
            textra.append("mf.frames %d %d %d %d" % (c, tn, run.rng.randrange(0, 2 ** 32 - 300), 300))
    teimpl = vf.run_lines([build_trxcon(run)], textra)
    treqs = treqs + textra
    timpl = timpl + teimpl
    tmodel = vf.run_driver(treqs)
    corr.compare(treqs, timpl, tmodel, in_domain=dom, model_ub=model_ub)
    for r, a in zip(treqs, timpl):
        corr.count(r, r.split()[0] + (" none" if a == "none" else (" crash" if a.startswith("crash") else "")))
    corr.samples += [{"request": r, "impl": a[:200], "model": b[:200]} for r, a, b in list(zip(treqs, timpl, tmodel))[11:13]]
    # the runtime of the firmware scheduler and the consumers of the layouts in sched_trx.c
    c11_fwrt.correspond(run, corr, tables(run)["fw"], build_fw(run))
    c11_sched.correspond(run, corr, tables(run))
    corr.exhaustive = True
    corr.rule = ("firmware: real mframe_reset()+mframe_set()+mframe_schedule() for every tick of a 51*26*8 cycle for every single "
                 "task bit 0..31 (one request per task and 104-tick range; bits without a table give the crash outcome), seeded "
                 "random task sets over the full cycle, ranges at the hyperframe end and at the uint32 wrap; trxcon: real "
                 "l1sched_mframe_layout() for every combination value 0..max+2 and 200 and timeslots 0..9 and 30, and the "
                 "frames[fn % period] lookup for every frame of the cycle for every (combination, timeslot) that has a layout, plus "
                 "ranges at the hyperframe end, at 2^32 and at a seeded offset; firmware runtime (mf.run): reset + random task "
                 "sets over the full cycle in segments with enable / disable / set in between, per-set return values of the "
                 "TDMA scheduler, and arbitrary scheduler states with ticks at safe_fn +- 2, half a hyperframe, the hyperframe "
                 "and uint32 wrap; trxcon consumers (ts.seq on the real sched_trx.c): configure for every (combination value, "
                 "timeslot), rx/tx for every frame number of the cycle (one timeslot per layout in the quick tier, all in "
                 "the thorough tier) and probe for every row with all channels active, lost-frame compensation through the "
                 "API for every Downlink channel of every layout plus injected tdma states, seeded random histories incl. "
                 "the crash outcomes; a case is a distinct request line")


# ----------------------------------------------------------------------------
# property oracle on the dumped real tables and the real function outputs (independent of the Lean model)

def spec_table():
    """TS 45.002 clause 7: (task, combination, timeslots, channel, SACCH channel, directions, kind)"""
    E8 = list(range(8))
    sp = []
    for c in ("CCCH", "CCCH_SDCCH4", "CCCH_SDCCH4_CBCH"):
        sp.append(("BCCH_NORM", c, E8, "BCCH", None, "d", "block"))
    sp.append(("CCCH", "CCCH", E8, "CCCH", None, "d", "block"))
    for c in ("CCCH_SDCCH4", "CCCH_SDCCH4_CBCH"):
        sp.append(("CCCH_COMB", c, E8, "CCCH", None, "d", "block"))
    for i in range(4):
        sp.append(("SDCCH4_%d" % i, "CCCH_SDCCH4", E8, "SDCCH4_%d" % i, "SACCH4_%d" % i, "du", "block"))
        if i != 2:   # CBCH replaces sub-channel 2
            sp.append(("SDCCH4_%d" % i, "CCCH_SDCCH4_CBCH", E8, "SDCCH4_%d" % i, "SACCH4_%d" % i, "du", "block"))
    for i in range(8):
        sp.append(("SDCCH8_%d" % i, "SDCCH8_SACCH8C", E8, "SDCCH8_%d" % i, "SACCH8_%d" % i, "du", "block"))
        if i != 2:
            sp.append(("SDCCH8_%d" % i, "SDCCH8_SACCH8C_CBCH", E8, "SDCCH8_%d" % i, "SACCH8_%d" % i, "du", "block"))
    sp.append(("SDCCH4_CBCH", "CCCH_SDCCH4_CBCH", E8, "SDCCH4_CBCH", None, "d", "block"))
    sp.append(("SDCCH8_CBCH", "SDCCH8_SACCH8C_CBCH", E8, "SDCCH8_CBCH", None, "d", "block"))
    sp.append(("TCH_F_EVEN", "TCH_F", [0, 2, 4, 6], "TCHF", "SACCHTF", "du", "frame"))
    sp.append(("TCH_F_ODD", "TCH_F", [1, 3, 5, 7], "TCHF", "SACCHTF", "du", "frame"))
    sp.append(("TCH_H_0", "TCH_H", E8, "TCHH_0", "SACCHTH_0", "du", "frame"))
    sp.append(("TCH_H_1", "TCH_H", E8, "TCHH_1", "SACCHTH_1", "du", "frame"))
    sp.append(("GPRS_PDTCH", "PDCH", E8, "PDTCH", None, "d", "block"))   # firmware task is receive-only
    return sp


SET_DIRS = {"nb_sched_set": "d", "nb_sched_set_ul": "u", "tch_sched_set": "du", "tch_a_sched_set": "du"}
NOT_BLOCK = ("IDLE", "FCCH", "SCH", "RACH")


def block_len(name):
    if name in NOT_BLOCK:
        return None
    return 2 if name in ("TCHH_0", "TCHH_1") else 4


def oracle(run):
    """all witnesses (list of dicts) of the property failing on the real tables / outputs"""
    tb = tables(run)
    fw, tc = tb["fw"], tb["trxcon"]
    lname = {v: n[len("L1SCHED_"):] for n, v in tc["lchans"]}
    lval = {n: v for v, n in lname.items()}
    pval = {n[len("GSM_PCHAN_"):]: v for n, v in tc["pchans"]}
    pname = {v: n for n, v in pval.items()}
    tval = {n[len("MF_TASK_"):]: v for n, v in fw["tasks"]}
    latency = 1          # Calypso DSP: a command given in frame N is executed in frame N+1 (hardware, not the #define)
    sacch_flag = fw["consts"]["MF_F_SACCH"]
    ev = fw_real(run)
    hdr, frames = trx_real(run)
    wit = []

    def layout_of(cfg, tn):
        """the dumped layouts[] entry the real lookup returned (by its header values)"""
        h = hdr.get((cfg, tn))
        if h is None:
            return None, None
        for i, l in enumerate(tc["layouts"]):
            if [l["config"], l["period"], l["slotmask"], l["lchan_mask"]] == h[:4]:
                if (l["slotmask"] >> tn) & 1:
                    return i, l
        return None, None

    def row_names(r):
        return "%s.%d/%s.%d" % (lname.get(r[0], r[0]), r[1], lname.get(r[2], r[2]), r[3])

    # (a) block starts / per-frame ownership, pointwise over the cycle
    idx_cache = {}

    def index(cfg, tn, col):
        """channel value -> (frames the real lookup gives to it, frames it marks as bid 0)"""
        k = (cfg, tn, col)
        if k not in idx_cache:
            owned, firstb = {}, {}
            for f, row in enumerate(frames[(cfg, tn)]):
                owned.setdefault(row[col], set()).add(f)
                if row[col + 1] == 0:
                    firstb.setdefault(row[col], set()).add(f)
            idx_cache[k] = (owned, firstb)
        return idx_cache[k]

    def entry_witness(task, cfgn, tns, main, sacch, dirs, kind):
        if task not in tval or cfgn not in pval or main not in lval or (sacch and sacch not in lval):
            return {"kind": "mapping", "task": task, "config": cfgn, "what": "enumerator missing in the tree"}
        tid, cfg = tval[task], pval[cfgn]
        tname = fw["sched_set_for_task"][tid] if tid < len(fw["sched_set_for_task"]) else None
        real = ev.get(tid, {"crash": "no-output", "events": {}})
        if real["crash"]:
            return {"kind": "mapping", "task": task, "config": cfgn, "fw_table": tname, "what": real["crash"]}
        offs = [off + latency for lst in real["events"].values() for off, _, _ in lst]
        first = min(offs or [0])
        last = max(offs or [0])
        for tn in tns:
            fr = frames.get((cfg, tn))
            li, lay = layout_of(cfg, tn)
            if fr is None or isinstance(fr, str):
                return {"kind": "mapping", "task": task, "fw_table": tname, "config": cfgn, "tn": tn,
                        "what": "no layout / no frames for this combination and timeslot (%s)" % fr}
            for d in dirs:
                col = 0 if d == "d" else 2
                owned, firstb = index(cfg, tn, col)
                for sc, lc in ((False, main), (True, sacch)):
                    # air frames in which the firmware starts a block / schedules a frame
                    starts = {}
                    for fn, lst in real["events"].items():
                        for off, st, p3 in lst:
                            if d in SET_DIRS.get(st, "") and bool((p3 >> 8) & sacch_flag) == sc:
                                starts.setdefault(fn + off + latency, []).append(st)
                    lo, hi = last, CYCLE + first          # air frames fully covered by the ticks 0..CYCLE-1
                    marked = set() if lc is None else (owned if kind == "frame" else firstb).get(lval[lc], set())
                    diff = sorted(f for f in (set(starts) ^ marked) if lo <= f < hi)
                    if diff:
                        f = diff[0]
                        per = lay["period"] if lay else 0
                        rows = [[s_, m, n, fl] for s_, m, n, fl in fw["tables"].get(tname, [])
                                if d in SET_DIRS.get(s_, "") and bool(fl & sacch_flag) == sc]
                        return {
                            "kind": "mapping", "task": task, "fw_table": tname, "config": cfgn, "tn": tn,
                            "dir": "DL" if d == "d" else "UL", "sacch": sc, "channel": lc,
                            "frame": f, "frame_mod_period": (f % per) if per else None,
                            "layout_index": li, "layout_table": lay["frames"] if lay else None,
                            "layout_row": row_names(fr[f]),
                            "firmware": ("starts a block / schedules the frame (%s)" % ",".join(starts[f])) if f in starts
                                        else "does not schedule it",
                            "fw_rows_of_channel": rows,
                            "mismatching_frames_in_cycle": len(diff),
                        }
        return None

    for e in spec_table():
        w = entry_witness(*e)
        if w:
            wit.append(w)
    # (b) burst ids cyclic, on the real lookups; (d) channels in mask
    seen_layout = set()
    for (cfg, tn), fr in sorted(frames.items()):
        if isinstance(fr, str):
            continue
        li, lay = layout_of(cfg, tn)
        h = hdr[(cfg, tn)]
        key = (li, tuple(h))
        if key in seen_layout:
            continue
        seen_layout.add(key)
        for d, col in (("DL", 0), ("UL", 2)):
            last = {}
            for f, row in enumerate(fr):
                nm = lname.get(row[col], str(row[col]))
                n = block_len(nm)
                if nm != "IDLE" and not (h[3] >> row[col]) & 1:
                    wit.append({"kind": "mask", "config": pname.get(cfg, cfg), "tn": tn, "dir": d, "frame": f,
                                "layout_index": li, "layout_table": lay["frames"] if lay else None,
                                "frame_mod_period": f % h[1], "channel": nm, "lchan_mask": h[3]})
                    break
                if n is None:
                    continue
                bad = row[col + 1] >= n
                if nm in last and not bad:
                    pf, pb = last[nm]
                    bad = row[col + 1] != (pb + 1) % n
                if bad:
                    pf, pb = last.get(nm, (None, None))
                    wit.append({"kind": "bids", "config": pname.get(cfg, cfg), "tn": tn, "dir": d, "channel": nm,
                                "layout_index": li, "layout_table": lay["frames"] if lay else None,
                                "frame": f, "frame_mod_period": f % h[1], "bid": row[col + 1],
                                "previous_frame": pf, "previous_bid": pb, "block_len": n})
                    break
                last[nm] = (f, row[col + 1])
    # (c) no lookup leaves the table
    none_val = pval.get("NONE")
    for i, l in enumerate(tc["layouts"]):
        if l["config"] == none_val:
            continue
        ln = len(tc["tables"][l["frames"]]) if l["frames"] in tc["tables"] else 0
        if l["period"] == 0 or l["frames"] is None or l["period"] > ln:
            wit.append({"kind": "lookup", "layout_index": i, "config": pname.get(l["config"], l["config"]),
                        "layout_table": l["frames"], "period": l["period"], "table_len": ln,
                        "fn": ln if l["period"] > ln else 0,
                        "what": "fn % period is not an index of the table"})
    # (e) every (combination, timeslot) lookup returns a layout valid for it
    present = {l["config"] for l in tc["layouts"]}
    for (cfg, tn), h in sorted(hdr.items()):
        if tn > 7:
            continue
        exists = any(l["config"] == cfg and (l["slotmask"] >> tn) & 1 for l in tc["layouts"])
        if h is None:
            if exists or cfg in present:
                wit.append({"kind": "layout-lookup", "config": pname.get(cfg, cfg), "tn": tn, "returned": None,
                            "what": "a layout of this combination for this timeslot exists in layouts[]" if exists
                                    else "no layout of this combination is valid for this timeslot"})
        elif h[0] != cfg or not (h[2] >> tn) & 1:
            wit.append({"kind": "layout-lookup", "config": pname.get(cfg, cfg), "tn": tn,
                        "returned": {"config": pname.get(h[0], h[0]), "slotmask": h[2]},
                        "what": "returned layout is not valid for the combination / timeslot"})
    return wit


def search(run, corr, deep):
    wit = oracle(run)
    tb = tables(run)
    w2 = c11_sched.oracle(run, tb)
    w3 = c11_fwrt.oracle(run, tb["fw"], build_fw(run))
    corr.distribution["oracle: witnesses (consumers of the layouts)"] = len(w2)
    corr.distribution["oracle: witnesses (firmware runtime)"] = len(w3)
    found = 0
    for w in wit[:20] + w2[:12] + w3[:6]:
        found += run.report_witness(w)
    corr.distribution["oracle: spec pairings x timeslots x directions checked over the cycle"] = \
        sum(len(e[2]) * len(e[5]) for e in spec_table())
    corr.distribution["oracle: witnesses"] = len(wit)
    return found


def replay(run, path):
    rp = json.load(open(path))
    now = oracle(run)
    bad = 0
    for v in rp.get("violations", []):
        w = v.get("witness")
        if not w:
            print("replay: no concrete input recorded (%s)" % json.dumps(v.get("broken"))[:400])
            continue
        keys = [k for k in ("kind", "task", "config", "tn", "dir", "sacch", "channel", "frame", "layout_index", "last_proc", "fn") if k in w]
        if w.get("kind") in ("chan-state", "consumer-lookup", "subst"):
            hit = c11_sched.replay_witness(run, tables(run), w) or []
        elif w.get("kind") == "fw-runtime":
            hit = c11_fwrt.replay_witness(run, build_fw(run), w, tables(run)["fw"]) or []
        else:
            hit = [x for x in now if all(x.get(k) == w.get(k) for k in keys)]
        for x in hit:
            x.pop("replay", None)
        print("replay %s: %s" % ({k: w[k] for k in keys}, "still fails: %s" % json.dumps(hit[0]) if hit else "holds now"))
        bad += bool(hit)
    if bad:
        print("VIOLATION property=C11 replay=%s" % path)
    return 1 if bad else 0
