# C09 — Clock source: consecutive frame numbers, one per frame, no accumulated drift
import json, os
from lib import vf
from gen import clck as gen_clck

ID = "C09"
LEVEL = "proof"
LEAN_MODULES = ["OsmoVerif.Props.C09"]
DRIVER_MODULES = ["Clck"]
LEAN_MODEL_MODULES = ["OsmoVerif.Model.Clck", "OsmoVerif.Lemmas.Clck"]
ASSUMPTIONS = [
    "theorems are about OsmoVerif.Model.Clck: a hand model of CLCKGen._worker / send_clck_ind / start / stop as a transition system over VIRTUAL integer nanoseconds: time.monotonic_ns() returns the virtual time, _breaker.wait(dt) advances it by exactly dt, the handler of tick k advances it by an arbitrary scripted d_k, nothing else takes time",
    "real time is NOT covered: OS thread scheduling, the accuracy/latency of threading.Event.wait, the float conversion `dt * 1e-9` of the wait argument beyond the tested range (< 2^50 ns), time spent in link.send/logging, and os.sched_setscheduler (sched_rr_prio) are environment; jitter cannot be exhibited by the model",
    "model tied to the repo by differential execution of the unchanged clck_gen.py: clck_gen.time and clck_gen.threading are replaced from outside (virtual clock, scripted Event, synchronous Thread), so the real start()/stop()/_worker/send_clck_ind run in the harness thread; compared observable = the complete event log (every wait with argument and return time, every link.send with link, time and octets, every handler call with fn and time, exit/exception) plus _thread/clck_src after each operation",
    "t_tick, the counter modulus, GSM_HYPERFRAME, the default ind_period/clck_start and the text of the indication are regenerated on every run from the running code (t_tick = measured spacing of zero-cost ticks of the real worker; modulus = bisection on the real send_clck_ind) and used by the theorems",
    "ind_period = 0 is outside the property (frames divisible by 0): the model and the code both raise ZeroDivisionError in the first tick (theorem period_zero_raises); exceptions raised by a handler or by link.send are not modelled",
    "stop() is modelled as arriving while the worker sits in wait(): the final wait runs to its end in virtual time; a breaker set while the handler runs is seen at the next wait (same code path)",
]
MANIFEST = {
    "text": "Lean 4 theorems over a transition-system model of the clock loop under a virtual monotonic clock, for all handler-duration scripts, start frames, positive indication periods, link lists and tick periods: tick_spacing (T(k+1)-T(k) = max t_tick d_k), no_catch_up, no_drift / no_drift_from, resync_after_overrun, tick_time (closed form), first_tick, wait_argument, fn_sequence (incl. 2715647 -> 0), ind_iff_period, ind_to_links_attached_at_tick (clck_links appended to / removed from in place between two ticks: the indication goes to exactly the links the list holds when the tick fires), links_do_not_influence_timing, constant_links, handler_once_per_tick, indication_wellformed, restart / restart_after_history, no_second_thread, runs_every_tick, period_zero_raises, and t_tick_is_frame / clck_consts over constants measured on the running code; the model is compared with the real start()/stop()/_worker/send_clck_ind event by event under the same virtual clock; an independent Python oracle states the property on the real code's observations",
    "note": "proof of the loop logic under a virtual clock, partial for real time: OS jitter, thread scheduling and threading.Event.wait accuracy cannot be exhibited by the model (the baseline's own wall-clock test is always_fail in the sandbox for that reason). trusted: Lean kernel (+propext, Classical.choice, Quot.sound), gen/clck.py, harness/py/clck_harness.py (virtual clock, scripted Event, synchronous Thread substituted for clck_gen.time / clck_gen.threading). F4 (t_tick = 4614999 ns by float floor division) confirmed on the real code and repaired by a fix: commit; on an unfixed tree t_tick_is_frame does not build and the oracle reports the measured spacing",
    "technique": "Lean 4 proof (induction over the tick list, omega) over a virtual-clock transition system; differential correspondence of complete event logs with the real code; measured constants",
    "design_ref": "DESIGN.md section 5 C09, section 7 F4",
}

H = 2715648
P = 4615000          # one TDMA frame period in ns (property text: 4.615 ms)
HARNESS = os.path.join(vf.ROOT, "harness/py/clck_harness.py")
# AST hash of the modelled functions when the model was written (fixed tree); a different hash
# does not fail anything, it multiplies the number of correspondence cases
MODEL_SRC_HASH = "58923e4c337fe861"
PRIMES = [3, 5, 7, 13, 53, 101, 103]
LINKSETS = [[], [0], [0, 1], [0, 1, 2], [0, 1, 2, 3], [0, 0], [1, 0, 1], [3]]


def gen(run):
    run.consts = gen_clck.generate(run)


def harness(lines, timeout=600):
    return vf.run_lines([vf.PY, HARNESS, vf.TRX], lines, timeout=timeout)


# ----------------------------------------------------------------------------
# generators

def csv(xs):
    return ",".join(str(x) for x in xs) if xs else "-"


def dur_value(rng, tt):
    """one handler duration: boundary-dense around the tick period actually used and the nominal one"""
    k = rng.randrange(0, 14)
    if k == 0:
        return 0
    if k == 1:
        return rng.choice([1, 2, 1000, 100000])
    if k == 2:
        return rng.choice([tt - 1, tt, tt + 1])
    if k == 3:
        return rng.choice([P - 2, P - 1, P, P + 1, P + 2])
    if k == 4:
        m = rng.choice([2, 3, 5, 10])
        return m * tt + rng.choice([-1, 0, 0, 1])
    if k == 5:
        return rng.randrange(tt, 3 * tt)
    if k == 6:
        return rng.randrange(0, 10 ** 9)
    if k in (7, 8):
        return rng.randrange(0, tt + 1)
    if k == 9:
        return tt // 2
    return rng.randrange(0, 2 * tt)


def dur_pattern(rng, tt, n):
    """a script of n handler durations"""
    kind = rng.randrange(0, 8)
    if kind == 0:
        return [0] * n
    if kind == 1:
        v = rng.choice([tt - 1, tt, tt + 1, P - 1, P, P + 1, tt // 2])
        return [v] * n
    if kind == 2:     # all below or at the period: the no-drift regime
        return [rng.choice([0, 1, tt // 2, tt - 1, tt, rng.randrange(0, tt + 1)]) for _ in range(n)]
    if kind == 3:     # a single overrun in an otherwise quiet run: the resync regime
        ds = [rng.choice([0, tt // 3, tt - 1]) for _ in range(n)]
        if n:
            ds[rng.randrange(0, n)] = rng.choice([tt + 1, 2 * tt, 3 * tt + 7, 5 * tt, 10 * tt - 1])
        return ds
    if kind == 4:     # all above
        return [rng.choice([tt + 1, 2 * tt, rng.randrange(tt + 1, 4 * tt)]) for _ in range(n)]
    return [dur_value(rng, tt) for _ in range(n)]


def start_value(rng, period):
    k = rng.randrange(0, 10)
    if k == 0:
        return rng.choice([0, 1, 2])
    if k == 1:
        return rng.choice([H - 3, H - 2, H - 1])
    if k == 2 and period > 0:      # just before a multiple of the period, so that indications occur
        m = rng.randrange(0, H // period + 1) * period
        return max(0, min(H - 1, m - rng.randrange(0, 4)))
    if k == 3 and period > 0:      # just before the wrap region's last multiple
        return max(0, (H - 1) // period * period - rng.randrange(0, 3))
    return rng.randrange(0, H)


def period_value(rng):
    k = rng.randrange(0, 10)
    if k < 4:
        return rng.choice([1, 2, 51, 102])
    if k < 6:
        return rng.choice(PRIMES)
    if k == 6:
        return rng.choice([H, H - 1, H + 1, 26, 1326])
    return rng.randrange(1, 200)


def t0_value(rng):
    return rng.choice([0, 1, 1000, rng.randrange(0, 10 ** 6), rng.randrange(0, 10 ** 12), rng.randrange(10 ** 14, 10 ** 15)])


def run_line(rng, tt, domain_only=False):
    period = period_value(rng)
    start = start_value(rng, period)
    handler = 1
    if not domain_only:
        r = rng.randrange(0, 40)
        if r == 0:
            period = 0                                    # ZeroDivisionError on both sides
        elif r == 1:
            start = rng.choice([H, H + 1, 2 * H - 1, 5000000])   # outside the valid frame range: model claims it too
        if rng.randrange(0, 8) == 0:
            handler = 0
    n = rng.choice([0, 1, 2, 3, 5, 8, 13, 21, 34, rng.randrange(0, 60)])
    if rng.randrange(0, 25) == 0:
        n = rng.randrange(100, 260)                     # long runs: a whole 51/102 multiframe and more
    links = rng.choice(LINKSETS)
    return "clck.run %d %d %d %d %s %s" % (t0_value(rng), start, period, handler, csv(links), csv(dur_pattern(rng, tt, n)))


def links_line(rng, tt):
    """clck_links modified in place (append / remove) while the worker sleeps, as power_event_handler does"""
    period = rng.choice([1, 1, 2, 3, 51, period_value(rng)]) or 1
    start = start_value(rng, period)
    if rng.randrange(3) == 0:
        start = (rng.randrange(0, 40) * period) % H       # many due frames
    n = rng.choice([1, 2, 3, 5, 8, 13, rng.randrange(1, 40)])
    links = list(rng.choice(LINKSETS))
    chs = []
    for _ in range(rng.choice([0, 1, 1, 2, 3, 6])):
        k = rng.randrange(0, n + 1)
        if rng.randrange(2):
            chs.append("%d+%d" % (k, rng.randrange(0, 6)))
        else:
            chs.append("%d-%d" % (k, rng.choice(links) if links and rng.randrange(4) else rng.randrange(0, 6)))
    return "clck.links %d %d %d %d %s %s %s" % (t0_value(rng), start, period, 1 if rng.randrange(6) else 0, csv(links),
                                               csv(dur_pattern(rng, tt, n)), ",".join(chs) or "-")


def links_at_ticks(links, changes, n):
    """the property's reading of 'every attached link': the list as it is when the tick fires"""
    cur = list(links)
    out = []
    chs = [] if changes == "-" else changes.split(",")
    for k in range(n):
        for ch in chs:
            if "+" in ch:
                kk, i = ch.split("+")
                if int(kk) == k:
                    cur.append(int(i))
            else:
                kk, i = ch.split("-")
                if int(kk) == k and int(i) in cur:
                    cur.remove(int(i))
        out.append(list(cur))
    return out


def hist_line(rng, tt, domain_only=False):
    period = period_value(rng)
    start = start_value(rng, period)
    ops = []
    running = False
    for _ in range(rng.randrange(1, 9)):
        k = rng.randrange(0, 10)
        if k < 4:
            if running and (domain_only or rng.randrange(0, 4)):
                ops.append("stop")
            else:
                ops.append("start:" + csv(dur_pattern(rng, tt, rng.choice([0, 1, 2, 3, 5, 8, 20]))))
            running = ops[-1] != "stop"
        elif k < 7:
            ops.append("stop")
            running = False
        elif k < 9:
            ops.append("idle:%d" % rng.choice([0, 1, tt, rng.randrange(0, 10 ** 10)]))
        else:
            ops.append("setstart:%d" % start_value(rng, period))
    ops += ["stop", "start:" + csv(dur_pattern(rng, tt, rng.choice([1, 2, 4])))]   # always end with a restart
    return "clck.hist %d %d %d %d %s %s" % (t0_value(rng), start, period, 1 if domain_only or rng.randrange(0, 8) else 0,
                                           csv(rng.choice(LINKSETS)), ";".join(ops))


def fixed_lines(tt):
    """the boundary lattice named by the property: starts x periods x link counts x duration kinds"""
    out = []
    durs = [[0] * 6, [tt - 1] * 6, [tt] * 6, [tt + 1] * 6, [0, 2 * tt, 0, 0, 3 * tt, 0], [P - 1, P, P + 1, 0, 0, 0],
            [tt // 2] * 6, [0, 0, 10 * tt, 0, 0, 0]]
    for start in (0, 1, H - 2, H - 1):
        for period in (1, 2, 51, 102, 7):
            for nl in range(0, 5):
                for ds in durs:
                    out.append("clck.run %d %d %d 1 %s %s" % (1000, start, period, csv(list(range(nl))), csv(ds)))
    # a run over more than one 102-frame period from every boundary start
    for start in (0, H - 1, H - 60):
        out.append("clck.run 0 %d 102 1 0,1 %s" % (start, csv([0] * 210)))
        out.append("clck.run 0 %d 51 1 0 %s" % (start, csv([tt // 2] * 110)))
    return out


# ----------------------------------------------------------------------------
# flow steps

def in_domain(req):
    """inside the property's quantifier: start frames are frame numbers (0..2715647, also after `setstart`) and the
    indication period is at least 1; what the generator does when started from a number that is no frame number is not
    the property's business (it is still run and compared; differences are listed in the evidence)"""
    t = req.split()
    try:
        if not (0 <= int(t[2]) < H and int(t[3]) >= 1):
            return False
        if t[0] == "clck.hist":
            running = False
            for op in t[6].split(";"):
                if op.startswith("setstart:") and not 0 <= int(op.split(":")[1]) < H:
                    return False
                # a second start() while a thread exists is not a use the property speaks about (the code asserts)
                if op.startswith("start:"):
                    if running:
                        return False
                    running = True
                elif op == "stop":
                    running = False
    except (ValueError, IndexError):
        return False
    return True


def correspond(run, corr):
    tt = int(getattr(run, "consts", {}).get("tTickNs", P)) if getattr(run, "consts", None) else P
    src = os.path.join(vf.TRX, "clck_gen.py")
    h = vf.src_hash_py(src, ["_worker", "send_clck_ind", "start", "stop", "__init__"])
    run.drift["clck_gen.py:CLCKGen"] = h
    mult = 1
    if h != MODEL_SRC_HASH:
        mult = 10
        corr.notes.append("source of the modelled functions differs from the one the model was written against (%s != %s): x10 cases" % (h, MODEL_SRC_HASH))
    n = run.scale(8000, 60000) * mult
    reqs = fixed_lines(tt)
    reqs += [run_line(run.rng, tt) for _ in range(n)]
    reqs += [hist_line(run.rng, tt) for _ in range(n // 4)]
    reqs += ["clck.links 0 0 1 1 3 0,0,0,0 2+7,3-3"] + [links_line(run.rng, tt) for _ in range(n // 4)]
    if run.thorough:
        # long runs through the hyperframe wrap: 20000 ticks each, every indication of 196 periods
        for start, period, ds in ((H - 10000, 102, [0]), (H - 19999, 51, [tt // 2, tt + 1, 0]), (H - 1, 1, [tt - 1, tt])):
            reqs.append("clck.run 7 %d %d 1 0,1 %s" % (start, period, csv((ds * 20000)[:20000])))
    impl = harness(reqs)
    model = vf.run_driver(reqs)
    corr.compare(reqs, impl, model, in_domain=in_domain)
    for r, a in zip(reqs, impl):
        tok = r.split()
        nt = a.count(" H") + a.startswith("H")
        bucket = tok[0]
        corr.count(r if (a.count("W") or "EXC" in a) else None, bucket)
        if "EZero" in a:
            corr.distribution["outcome ZeroDivisionError"] = corr.distribution.get("outcome ZeroDivisionError", 0) + 1
        if "EXC AssertionError" in a:
            corr.distribution["outcome AssertionError (second start)"] = corr.distribution.get("outcome AssertionError (second start)", 0) + 1
        corr.distribution["ticks observed"] = corr.distribution.get("ticks observed", 0) + a.count("W")
        corr.distribution["indications observed"] = corr.distribution.get("indications observed", 0) + a.count(" S")
        corr.distribution["ticks preceded by wait(0)"] = corr.distribution.get("ticks preceded by wait(0)", 0) + a.count("W0:")
        if nt == 0:
            corr.distribution["lines without a handler call"] = corr.distribution.get("lines without a handler call", 0) + 1
    corr.rule = ("requests = lattice {start 0,1,2715646,2715647} x {period 1,2,51,102,7} x {0..4 links} x {duration scripts 0, t-1, t, t+1, "
                 "k*t, single overrun, 4615000+-1}, plus seeded random scripts (durations boundary-dense around the measured and the nominal tick, "
                 "all-below / single-overrun / all-above / mixed regimes, up to 260 ticks), random start frames incl. out-of-range ones, periods "
                 "1,2,51,102, primes, 0 (exception) and random, link lists with repeats, handler present/absent, t0 up to 1e15, and start/stop/idle/"
                 "setstart histories; a case is a distinct request line; non-trivial = at least one tick fired or an exception was observed")
    picks = [0, len(fixed_lines(tt)) + 1, len(reqs) - 1]
    corr.samples = [{"request": reqs[i][:300], "impl": impl[i][:300], "model": model[i][:300]} for i in picks if i < len(reqs)]


def parse_events(txt):
    """event log -> list of (kind, fields...)"""
    ev = []
    for tok in txt.split():
        k = tok[0]
        f = tok[1:].split(":")
        if k in "WX":
            ev.append((k, int(f[0]), int(f[1])))
        elif k == "S":
            ev.append((k, int(f[0]), int(f[1]), bytes.fromhex("" if f[2] == "-" else f[2])))
        elif k == "H":
            ev.append((k, int(f[0]), int(f[1])))
        elif k == "E":
            ev.append((k, f[0], int(f[1])))
        else:
            raise ValueError("unknown event %r" % tok)
    return ev


def check_session(ev, start, period, links, handler, durs, links_at=None):
    """THE PROPERTY, stated on the observations of one start()..stop() run of the real code.
    Independent of the Lean model.  Returns None or a dict describing the first failure."""
    n = len(durs)
    # split into ticks: a tick begins when wait() returns False
    ticks = []
    for e in ev:
        if e[0] == "W":
            ticks.append([])
        elif e[0] == "X":
            break
        elif e[0] == "E":
            return {"what": "worker died with %s" % e[1], "tick": len(ticks) - 1}
        elif not ticks:
            return {"what": "activity before the first tick", "event": repr(e)}
        else:
            ticks[-1].append(e)
    if len(ticks) != n:
        return {"what": "worker fired %d ticks while it was allowed to run %d" % (len(ticks), n)}
    T = []
    for k, t in enumerate(ticks):
        fn = (start + k) % H
        calls = [e for e in t if e[0] == "H"]
        sends = [e for e in t if e[0] == "S"]
        if handler:
            # the handler is called exactly once per tick, with consecutive frame numbers mod 2715648
            if len(calls) != 1:
                return {"what": "handler called %d times in one tick" % len(calls), "tick": k}
            if calls[0][1] != fn:
                return {"what": "frame number", "tick": k, "observed_fn": calls[0][1], "required_fn": fn}
            T.append(calls[0][2])
        elif calls:
            return {"what": "handler call without handler", "tick": k}
        # 'IND CLOCK <fn>\0' to every attached link exactly at frames divisible by the period
        want = [(l, b"IND CLOCK %d\x00" % fn) for l in (links if links_at is None else links_at[k])] if fn % period == 0 else []
        got = [(e[1], e[3]) for e in sends]
        if got != want:
            return {"what": "indications", "tick": k, "fn": fn, "period": period,
                    "observed": [(l, p.decode("latin-1")) for l, p in got][:6],
                    "required": [(l, p.decode("latin-1")) for l, p in want][:6]}
    if handler:
        for k in range(n - 1):
            sp = T[k + 1] - T[k]
            d = durs[k]
            if sp < P:
                # never closer than one frame period: no catch-up ticks, nominal period 4.615 ms
                return {"what": "ticks closer than one frame period", "tick": k + 1, "spacing_ns": sp, "required_min_ns": P,
                        "handler_ns": d}
            if d <= P and sp != P:
                # measured from the start of tick k, not from the end of its handler: exactly one period
                return {"what": "tick not one frame period after the previous tick", "tick": k + 1, "spacing_ns": sp,
                        "required_ns": P, "handler_ns": d}
            if d > P and sp > d + P:
                # after an overrun the clock resynchronises: the next tick is due at once (at most one period late)
                return {"what": "no tick within one period after an overrun", "tick": k + 1, "spacing_ns": sp, "handler_ns": d}
        # handler time never accumulates: over any stretch without overrun, tick k = tick i + (k-i) periods
        i = 0
        for k in range(1, n):
            if durs[k - 1] > P:
                i = k
            elif T[k] != T[i] + (k - i) * P:
                return {"what": "accumulated timing error", "tick": k, "since_tick": i, "observed_ns": T[k] - T[i],
                        "required_ns": (k - i) * P}
    return None


def parse_csv(s):
    return [] if s == "-" else [int(x) for x in s.split(",")]


def oracle_line(req, ans):
    """evaluate the property on one request/answer pair of the harness; None or failure dict"""
    tok = req.split()
    start, period, handler, links = int(tok[2]), int(tok[3]), int(tok[4]), parse_csv(tok[5])
    if period <= 0 or not (0 <= start < H):
        return None                    # outside the property's domain
    if tok[0] == "clck.run":
        body = ans.rsplit(" T", 1)[0] if " T" in ans else ans
        if body.startswith("EXC"):
            return {"what": "start() raised %s" % body}
        body = "" if body.startswith("T") else body
        return check_session(parse_events(body), start, period, links, handler, parse_csv(tok[6]))
    if tok[0] == "clck.links":
        body = ans.rsplit(" T", 1)[0] if " T" in ans else ans
        if body.startswith("EXC"):
            return {"what": "start() raised %s" % body}
        body = "" if body.startswith("T") else body
        durs = parse_csv(tok[6])
        f = check_session(parse_events(body), start, period, links, handler, durs, links_at=links_at_ticks(links, tok[7], len(durs)))
        if f and f["what"] == "indications":
            f["what"] = "indications after a link was attached or detached while the generator runs"
        return f
    # history: every start() that is executed while no thread exists must behave like a fresh run
    cur_start = start
    thread = False
    started = False
    for i, (op, res) in enumerate(zip(tok[6].split(";"), ans.split(" | "))):
        body, st = res.rsplit(" T", 1) if " T" in res else (res, "")
        if op.startswith("setstart:"):
            cur_start = int(op[9:])
        elif op == "stop":
            thread = False
        elif op.startswith("start:"):
            if thread:
                continue               # second start(): not the subject of the property
            thread = True
            again, started = started, True
            if not (0 <= cur_start < H):
                continue
            if body.startswith("EXC"):
                return {"what": "start() after stop() raised %s" % body, "op": i}
            body = "" if body.startswith("T") or body == "" else body
            f = check_session(parse_events(body), cur_start, period, links, handler, parse_csv(op[6:]))
            if f:
                f["op"] = i
                f["what"] = "restart: " + f["what"] if again else f["what"]
                return f
    return None


def oracle_requests(run, deep):
    tt = P
    n = run.scale(6000, 30000) * (4 if deep else 1)
    reqs = ["clck.run 0 0 102 1 - 0,0,0", "clck.run 0 2715647 1 1 0 0,0,0"]
    reqs += fixed_lines(tt)
    reqs += [run_line(run.rng, tt, domain_only=True) for _ in range(n)]
    reqs += [hist_line(run.rng, tt, domain_only=True) for _ in range(n // 4)]
    reqs += ["clck.links 0 0 1 1 3 0,0,0,0 2+7,3-3"] + [links_line(run.rng, tt) for _ in range(n // 4)]
    return reqs


def search(run, corr, deep):
    """property-level oracle on the real code (independent of the Lean model)"""
    reqs = oracle_requests(run, deep)
    ans = harness(reqs)
    fails = {}
    for r, a in zip(reqs, ans):
        try:
            f = oracle_line(r, a)
        except ValueError as e:
            f = {"what": "unreadable observation: %s" % e}
        if f:
            # keep the shortest failing request per kind of failure
            k = f["what"]
            if k not in fails or len(r) < len(fails[k][0]):
                fails[k] = (r, a, f)
    found = 0
    for k, (r, a, f) in sorted(fails.items()):
        w = {"kind": "clock", "what": k, "request": r, "impl": a[:600], "failure": f,
             "required": "handler once per tick, fn=(start+k) mod 2715648, 'IND CLOCK fn\\0' per link iff fn mod period = 0, "
                         "tick k+1 exactly 4615000 ns after tick k unless the handler overran, never closer, no accumulation"}
        for key in ("spacing_ns", "required_ns", "tick", "observed_fn", "required_fn"):
            if key in f:
                w[key] = f[key]
        found += run.report_witness(w)
    corr.distribution["oracle: sessions judged against the property"] = len(reqs)
    return found


def replay(run, path):
    rp = json.load(open(path))
    bad = 0
    for v in rp.get("violations", []):
        w = v.get("witness")
        if not w:
            print("replay: no concrete input recorded (%s)" % json.dumps(v.get("broken"))[:600])
            continue
        r = w["request"]
        a = harness([r])[0]
        f = oracle_line(r, a)
        print("replay request=%s\n  impl=%s\n  property: %s" % (r, a[:400], "holds" if f is None else json.dumps(f)))
        bad += f is not None
    if bad:
        print("VIOLATION property=C09 replay=%s" % path)
    return 1 if bad else 0
