# C16 — Declarative codec: encode and decode are mutually inverse and length-exact
import json, os
from lib import vf
from lib import codecdef as cd
from lib import codecgen as cg
from gen import trxd_proto

ID = "C16"
LEVEL = "proof"
LEAN_MODULES = ["OsmoVerif.Props.C16"]
DRIVER_MODULES = ["Codec"]
LEAN_MODEL_MODULES = ["OsmoVerif.Model.Codec", "OsmoVerif.Spec.Codec", "OsmoVerif.Lemmas.CodecInt",
                      "OsmoVerif.Lemmas.CodecVals", "OsmoVerif.Lemmas.CodecBits", "OsmoVerif.Lemmas.CodecRT",
                      "OsmoVerif.Lemmas.CodecDI", "OsmoVerif.Lemmas.CodecErr", "OsmoVerif.Lemmas.CodecTyped", "OsmoVerif.Lemmas.CodecExact"]
ASSUMPTIONS = [
    "theorems are about OsmoVerif.Model.Codec: a hand model of codec.py (Field/Buf/Spare/Uint family/BitFieldSet/BitField/Envelope/Envelope.F/Sequence/Sequence.F) over a first-order definition language; get_pres/get_len lambdas are restricted to the first-order family always|flag|not flag and fixed|rest|value of a field|table on a field|threshold on the remaining length",
    "model tied to /repo by differential execution: the harness builds the REAL codec objects for every generated definition and compares bytes / decoded value trees / exception classes with the compiled Lean driver (well-formed and deliberately ill-formed definitions, in-range, boundary, over-wide, truncated, extended and corrupted inputs)",
    "Python semantics modelled not verified: int.to_bytes/from_bytes (range rules, two's complement), // as floor division, & with a mask as mod 2^bl, dict insertion order, `except Exception` wrapping",
    "outside the model (tag UNMODELLED, never compared, never used by a theorem): values of the wrong Python type for a field and negative lengths returned by a length callback",
    "Sequence.from_bytes on an item that can decode zero octets does not terminate (F13): excluded by WF, confirmed on the real code with a timer, recorded as known finding",
]
MANIFEST = {
    "text": "Lean 4 theorems over a definition language mirroring codec.py, for EVERY well-formed definition at any nesting depth and any number of sequence items: dec_enc (decode(encode v) = v, encoding has the declared length), enc_dec (whatever decodes re-encodes to canonical octets of the consumed length that decode to the same value), length_exact and trailing_rejected, enc_dec_exact (byte-exact re-encoding for definitions without spare parts), errors_own (only DecodeError/EncodeError; no ProtocolError, no hang; with length references to non-negative integer fields decoding ANY input is ok-or-DecodeError), bitfield_trunc, termination of the sequence loop; WF and InRange are decidable predicates with non-vacuity examples. The model is compared with the real codec objects built from the same random definitions; an independent oracle checks the property itself (round trip, canonical re-encode, exact consumption, error classes, documented bit-field layout) on the real code.",
    "note": "trusted: Lean kernel (+propext, Classical.choice, Quot.sound), the differential harness (harness/py/codec_harness.py, lib/codecdef.py builders), the generators (lib/codecgen.py); modelled not verified: CPython int/bytes/dict primitives as written in Model/Codec.lean; callbacks outside the first-order family are not covered; on the encoding side `unmodelled` (a value of the wrong Python type) is not excluded by a typing hypothesis",
    "technique": "Lean 4 proof by induction over a nested inductive definition language (well-founded recursion on sizeOf for the nesting, list induction for envelopes and sequences) + differential correspondence on generated definitions",
    "design_ref": "DESIGN.md section 5 C16",
}

HARNESS = os.path.join(vf.ROOT, "harness/py/codec_harness.py")


def gen(run):
    # Driver/Codec.lean imports Gen/TrxdProto.lean (the codec.pdu.* verbs of C17).  C16 itself is about codec.py only and
    # uses none of it: when the live trxd_proto.py cannot be translated, the file of the last successful translation is
    # kept so that the driver builds - that failure is C17's matter, never an alarm of this property
    try:
        run.trxd_defs = trxd_proto.generate(run)
    except Exception:
        if not os.path.exists(os.path.join(vf.LEAN, "OsmoVerif/Gen/TrxdProto.lean")):
            raise


def impl(lines, limit=None):
    env = {"CODEC_HARNESS_LIMIT": str(limit)} if limit else None
    return vf.run_lines([vf.PY, HARNESS, vf.TRX], lines, env=env)


# ---------------------------------------------------------------------------- case construction

class Case:
    """one well-formed definition with one in-range value"""

    def __init__(self, rng):
        self.e = cg.gen_env(rng)
        self.clean = cg.strip(self.e)
        self.line = cd.to_line(self.clean)
        self.v, self.L = cg.gen_value(rng, self.e)
        self.vline = cd.val_to_line(self.v)


def top_flexible(e):
    """does the consumed length depend on how much data follows? (rest / threshold / flexible int at top level)"""
    for f in e['fs']:
        if f['k'] == 'int' and f['len'] == 0:
            return True
        if f['k'] in ('buf', 'spare', 'env', 'seq') and f['ld'][0] in ('r', 'h'):
            return True
        if f['k'] in ('buf', 'spare', 'env', 'seq') and f['ld'] == ('x', 0):
            return True
    return False


def depth(fs):
    d = 1
    for f in fs:
        if f['k'] in ('env', 'seq'):
            d = max(d, 1 + depth(f['fs']))
    return d


def kinds(fs, acc):
    for f in fs:
        acc.add(f['k'] + ("/L" if f['k'] == 'bits' and f['little'] else ""))
        if 'ld' in f:
            acc.add("len:" + f['ld'][0])
        if f['pres'][0] != 'a':
            acc.add("optional")
        if f['k'] in ('env', 'seq'):
            kinds(f['fs'], acc)
    return acc


# --- independent expectation for a BitFieldSet (documented layout: MSB-first = first field in the
#     most significant bits, LSB-first = first field in the least significant bits, set left-aligned)

def bits_expected(f, vals):
    ln = cg.bits_len(f)
    fields = f['fs'][::-1] if f['little'] else f['fs']
    off, blob = ln * 8, 0
    for b in fields:
        bl = b[2] if b[0] == 'b' else b[1]
        off -= bl
        if b[0] == 'b':
            val = b[3] if b[3] is not None else vals[b[1]]
            blob |= (val & ((1 << bl) - 1)) << off
    return blob.to_bytes(ln, 'big')


def find_first(fs, kind, pred=lambda f: True):
    for f in fs:
        if f['k'] == kind and pred(f):
            return f
    return None


# ---------------------------------------------------------------------------- the property oracle

def oracle(run, corr, ncases, tag="oracle"):
    """property checks on the REAL code only.  Returns list of witnesses."""
    rng = run.rng
    wit = []
    cases = [Case(rng) for _ in range(ncases)]
    # pass 1: encode every in-range value
    r1 = ["codec.enc %s %s" % (c.line, c.vline) for c in cases]
    a1 = impl(r1)
    good = []
    for c, r, a in zip(cases, r1, a1):
        if not a.startswith("ok "):
            wit.append({"kind": "inrange-value-not-encodable", "def": c.line, "value": c.vline, "impl": a,
                        "spec": "an in-range value encodes (declared length %d)" % c.L})
            continue
        c.b = cd.unhx(a.split()[1])
        if len(c.b) != c.L:
            wit.append({"kind": "encoded-length-not-declared", "def": c.line, "value": c.vline, "impl": a,
                        "spec": "encoding has the declared length %d" % c.L})
            continue
        good.append(c)
    # pass 2: everything that starts from the encoding
    r2, ex = [], []
    for c in good:
        hexb = cd.hx(c.b)
        want = "ok %s %d" % (c.vline, c.L)
        r2.append("codec.dec %s %s" % (c.line, hexb)); ex.append((c, 'roundtrip', want))
        flex = top_flexible(c.clean)
        tail = cg.rand_bytes(rng, rng.randrange(1, 4))
        if not flex:
            r2.append("codec.dec %s %s" % (c.line, cd.hx(c.b + tail)))
            ex.append((c, 'trailing', "err DecodeError" if c.clean['cl'] else want))
            for j in sorted(set([0, len(c.b) - 1, rng.randrange(0, len(c.b) + 1)])):
                if 0 <= j < len(c.b):
                    r2.append("codec.dec %s %s" % (c.line, cd.hx(c.b[:j])))
                    ex.append((c, 'short', "err DecodeError"))
        # arbitrary (mutated) input: only ok or DecodeError, and what decodes must re-encode canonically
        for _ in range(2):
            bb = bytearray(c.b)
            for _ in range(rng.randrange(1, 4)):
                if bb:
                    bb[rng.randrange(len(bb))] ^= 1 << rng.randrange(8)
            if rng.random() < 0.3:
                bb += cg.rand_bytes(rng, rng.randrange(1, 3))
            r2.append("codec.dec %s %s" % (c.line, cd.hx(bytes(bb)))); ex.append((c, 'arbitrary', bytes(bb)))
        # length fields bumped, junk inserted after a nested envelope/sequence (nested tail octets)
        nf = find_first(c.clean['fs'], 'env', lambda f: f['ld'][0] == 'o' and f['pres'] == ('a',) and not top_flexible(f))
        if nf is not None and nf['name'] in c.v:
            v2 = dict(c.v)
            d = rng.randrange(1, 4)
            v2[nf['ld'][1]] = v2[nf['ld'][1]] + d
            c.nested_tail = (nf, d, v2)
        # fixed bit-field value corrupted
        bf = find_first(c.clean['fs'], 'bits', lambda f: f['pres'] == ('a',) and any(b[0] == 'b' and b[3] is not None for b in f['fs']))
        if bf is not None:
            pos = 0
            for f in c.clean['fs']:
                if f is bf:
                    break
                pos = None if pos is None or not static_field(f) else pos + static_len(f)
            if pos is not None:
                ln = cg.bits_len(bf)
                fields = bf['fs'][::-1] if bf['little'] else bf['fs']
                off = ln * 8
                for b in fields:
                    bl = b[2] if b[0] == 'b' else b[1]
                    off -= bl
                    if b[0] == 'b' and b[3] is not None:
                        blob = int.from_bytes(c.b[pos:pos + ln], 'big') ^ (1 << (off + rng.randrange(bl)))
                        bb = c.b[:pos] + blob.to_bytes(ln, 'big') + c.b[pos + ln:]
                        r2.append("codec.dec %s %s" % (c.line, cd.hx(bb))); ex.append((c, 'fixed-mismatch', "err DecodeError"))
                        break
        # documented bit-field layout (first unconditional set at a static position)
        bs = find_first(c.clean['fs'], 'bits', lambda f: f['pres'] == ('a',))
        if bs is not None:
            pos = 0
            for f in c.clean['fs']:
                if f is bs:
                    break
                pos = None if pos is None or not static_field(f) else pos + static_len(f)
            if pos is not None:
                ln = cg.bits_len(bs)
                want_b = bits_expected(bs, c.v)
                if c.b[pos:pos + ln] != want_b:
                    wit.append({"kind": "bitfield-layout", "def": c.line, "value": c.vline, "impl": cd.hx(c.b),
                                "octets_at": pos, "spec": "set encodes to %s (%s-first)" % (cd.hx(want_b), "LSB" if bs['little'] else "MSB")})
        # over-wide bit-field value: same octets
        names = [(b[1], b[2]) for f in c.clean['fs'] if f['k'] == 'bits' and present_top(f, c.v) for b in f['fs']
                 if b[0] == 'b' and b[3] is None and not referenced(c.clean['fs'], b[1])]
        if names:
            nm, bl = rng.choice(names)
            v2 = dict(c.v)
            v2[nm] = c.v[nm] + rng.choice([1, 2, 3, -1, -2, 255, 1 << 20]) * (1 << bl)
            r2.append("codec.enc %s %s" % (c.line, cd.val_to_line(v2))); ex.append((c, 'overwide', "ok " + hexb))
        # unencodable integer / wrong fixed buffer length / missing key -> EncodeError
        fi = find_first(c.clean['fs'], 'int', lambda f: present_top(f, c.v) and not referenced(c.clean['fs'], f['name']))
        if fi is not None:
            lo, hi = cg.int_range(fi)
            for raw in (hi + 1, lo - 1):
                v2 = dict(c.v)
                v2[fi['name']] = raw * fi['mult'] + fi['offset']
                r2.append("codec.enc %s %s" % (c.line, cd.val_to_line(v2))); ex.append((c, 'unencodable-int', "err EncodeError"))
        fb = find_first(c.clean['fs'], 'buf', lambda f: present_top(f, c.v) and f['ld'][0] == 'x')
        if fb is not None:
            v2 = dict(c.v)
            v2[fb['name']] = c.v[fb['name']] + b'\x00'
            r2.append("codec.enc %s %s" % (c.line, cd.val_to_line(v2))); ex.append((c, 'wrong-buf-length', "err EncodeError"))
        keys = [k for k in c.v if not is_fixed_bit(c.clean['fs'], k) and needed(c.clean['fs'], k, c.v)]
        if keys:
            v2 = dict(c.v)
            del v2[rng.choice(keys)]
            r2.append("codec.enc %s %s" % (c.line, cd.val_to_line(v2))); ex.append((c, 'missing-key', "err EncodeError"))
    a2 = impl(r2)
    r3, ex3 = [], []
    for r, a, (c, kind, want) in zip(r2, a2, ex):
        corr.count(None, "%s: %s" % (tag, kind))
        if kind == 'arbitrary':
            if a.startswith("ok "):
                tok = a.split()
                n = int(tok[-1])
                vline = " ".join(tok[1:-1])
                r3.append("codec.enc %s %s" % (c.line, vline)); ex3.append((c, want, vline, n))
            elif a != "err DecodeError":
                wit.append({"kind": "foreign-exception-on-decode", "def": c.line, "input": cd.hx(want), "impl": a,
                            "spec": "ok or DecodeError"})
            continue
        if a != want:
            wit.append({"kind": kind, "def": c.line, "value": c.vline, "request_line": r, "impl": a, "spec": want})
    # pass 3: canonical re-encoding of whatever decoded
    a3 = impl(r3)
    r4, ex4 = [], []
    for r, a, (c, b, vline, n) in zip(r3, a3, ex3):
        corr.count(None, "%s: re-encode of decoded input" % tag)
        if not a.startswith("ok "):
            wit.append({"kind": "decoded-value-not-encodable", "def": c.line, "input": cd.hx(b), "decoded": vline, "impl": a,
                        "spec": "a decoded message re-encodes"})
            continue
        cb = cd.unhx(a.split()[1])
        if len(cb) == n and no_spare(c.clean['fs']) and cb != b[:n]:
            wit.append({"kind": "canonical-octets", "def": c.line, "input": cd.hx(b), "decoded": vline, "consumed": n, "impl": a,
                        "spec": "a definition without spare parts re-encodes the consumed octets exactly: ok %s" % cd.hx(b[:n])})
            continue
        if len(cb) != n:
            wit.append({"kind": "canonical-length", "def": c.line, "input": cd.hx(b), "decoded": vline, "consumed": n, "impl": a,
                        "spec": "re-encoding has the consumed length %d" % n})
            continue
        r4.append("codec.dec %s %s" % (c.line, cd.hx(cb + b[n:]))); ex4.append((c, b, "ok %s %d" % (vline, n)))
    a4 = impl(r4)
    for r, a, (c, b, want) in zip(r4, a4, ex4):
        if a != want:
            wit.append({"kind": "canonical-redecode", "def": c.line, "input": cd.hx(b), "impl": a, "spec": want})
    # nested tail octets
    r5, ex5 = [], []
    for c in good:
        nt = getattr(c, 'nested_tail', None)
        if nt is None:
            continue
        nf, d, v2 = nt
        # encode the outer message with the bumped length and a longer nested part is not possible through the
        # codec; build the octets by hand: find the nested part in the encoding by encoding it alone
        inner = {'cl': True, 'fs': nf['fs']}
        r5.append("codec.enc %s %s" % (cd.to_line(inner), cd.val_to_line(c.v[nf['name']]))); ex5.append((c, nf, d))
    a5 = impl(r5)
    r6, ex6 = [], []
    for a, (c, nf, d) in zip(a5, ex5):
        if not a.startswith("ok "):
            continue
        ib = cd.unhx(a.split()[1])
        ref = next(f for f in c.clean['fs'] if f.get('name') == nf['ld'][1])
        # only when the nested octets and the length field can be located unambiguously
        idx = c.b.find(ib) if ib else -1
        if idx < 0 or c.b.count(ib) != 1 or ref['k'] != 'int':
            continue
        lenb = len(ib).to_bytes(ref['len'], ref['bo'])
        newl = (len(ib) + d).to_bytes(ref['len'], ref['bo'])
        pos = 0
        ok = True
        for f in c.clean['fs']:
            if f is ref:
                break
            if not static_field(f):
                ok = False
                break
            pos += static_len(f)
        if not ok or c.b[pos:pos + ref['len']] != lenb:
            continue
        bb = c.b[:pos] + newl + c.b[pos + ref['len']:idx + len(ib)] + cg.rand_bytes(rng, d) + c.b[idx + len(ib):]
        r6.append("codec.dec %s %s" % (c.line, cd.hx(bb))); ex6.append(c)
    a6 = impl(r6)
    for r, a, c in zip(r6, a6, ex6):
        corr.count(None, "%s: nested-tail" % tag)
        if a != "err DecodeError":
            wit.append({"kind": "nested-tail-accepted", "def": c.line, "request_line": r, "impl": a,
                        "spec": "err DecodeError", "why": "tail octets inside a length-checked nested envelope"})
    corr.distribution["%s: definitions" % tag] = len(cases)
    corr.distribution["%s: max nesting depth" % tag] = max([depth(c.clean['fs']) for c in cases] + [0])
    return wit


def no_spare(fs):
    """every octet/bit of the encoding carries a decoded value (no Spare fields, no spare or padding bits)"""
    for f in fs:
        if f['k'] == 'spare':
            return False
        if f['k'] == 'bits':
            if any(b[0] == 's' for b in f['fs']) or sum(b[2] for b in f['fs']) != 8 * cg.bits_len(f):
                return False
        if f['k'] in ('env', 'seq') and not no_spare(f['fs']):
            return False
    return True


def static_field(f):
    if f['pres'] != ('a',):
        return False
    if f['k'] == 'int':
        return f['len'] > 0
    if f['k'] == 'bits':
        return True
    return f['ld'][0] == 'x' and f['ld'][1] > 0


def static_len(f):
    if f['k'] == 'int':
        return f['len']
    if f['k'] == 'bits':
        return cg.bits_len(f)
    return f['ld'][1]


def present_top(f, v):
    try:
        return cg.present(f['pres'], v)
    except KeyError:
        return False


def env_has_duplicate_names(e):
    """two value-carrying fields (or bit fields) of one envelope level with the same name: the values of an envelope are a
    dict keyed by name, so such a definition has no assignment of values to its fields - outside the property's quantifier
    (codec.py carries a TODO to reject it)"""
    seen = set()
    for f in e.get('fs', []):
        names = []
        if f['k'] == 'bits':
            names = [b[1] for b in f['fs'] if b[0] == 'b']
        elif f['k'] != 'spare' and f.get('name') is not None:
            names = [f['name']]
        for n in names:
            if n in seen:
                return True
            seen.add(n)
        if f['k'] in ('env', 'seq') and env_has_duplicate_names(f):
            return True
    return False


def env_cannot_work(e):
    """definitions that can never encode or decode anything sensible (codec.py may refuse them at construction): an integer
    multiplier of 0, a field length below 1 octet, a spare whose filler is not exactly one octet, a spare bit field of
    no width"""
    for f in e.get('fs', []):
        if f['k'] == 'int' and f.get('mult', 1) == 0:
            return True
        if f['k'] in ('int',) and f.get('len', 1) is not None and f.get('len', 1) < 1:
            return True
        if f['k'] == 'spare' and len(f.get('filler', b'\0')) != 1:
            return True
        if f['k'] == 'bits' and any((b[0] == 's' and b[1] < 1) or (b[0] == 'b' and b[2] < 1) for b in f['fs']):
            return True
        ld = f.get('ld')
        if ld and ld[0] == 'x' and isinstance(ld[1], int) and ld[1] < 0:
            return True
        if f['k'] in ('env', 'seq') and env_cannot_work(f):
            return True
    return False


def request_has_duplicate_names(req):
    tok = req.split()
    try:
        if tok[0] in ("codec.dec", "codec.enc"):
            e, _ = cd.parse_env(tok, 1)
            return env_has_duplicate_names(e) or env_cannot_work(e)
        if tok[0] in ("codec.fdec", "codec.fenc"):
            f, _ = cd.parse_field(tok, 1)
            return env_has_duplicate_names({'fs': [f]}) or env_cannot_work({'fs': [f]})
    except (IndexError, ValueError, KeyError):
        pass
    return False


def referenced(fs, name):
    for f in fs:
        if f['pres'][0] != 'a' and f['pres'][1] == name:
            return True
        if 'ld' in f and f['ld'][0] in ('o', 'T') and f['ld'][1] == name:
            return True
    return False


def is_fixed_bit(fs, k):
    for f in fs:
        if f['k'] == 'bits':
            for b in f['fs']:
                if b[0] == 'b' and b[1] == k and b[3] is not None:
                    return True
    return False


def needed(fs, k, v):
    """is the key read by the encoder (a present field's own value)?"""
    for f in fs:
        if not present_top(f, v):
            continue
        if f['k'] == 'bits':
            if any(b[0] == 'b' and b[1] == k for b in f['fs']):
                return True
        elif f['k'] != 'spare' and f['name'] == k:
            return True
    return False


# ---------------------------------------------------------------------------- F13

F13_DEFS = [
    # item = one optional buffer whose flag is false: decodes zero octets
    {'cl': True, 'fs': [{'k': 'int', 'name': 'n', 'pres': ('a',), 'len': 1, 'bo': 'big', 'sign': False, 'offset': 0, 'mult': 1},
                        {'k': 'seq', 'name': 's', 'pres': ('a',), 'ld': ('r',), 'fs': [
                            {'k': 'buf', 'name': 'x', 'pres': ('a',), 'ld': ('h', 100, 101, 0)}]}]},
    {'cl': False, 'fs': [{'k': 'seq', 'name': 's', 'pres': ('a',), 'ld': ('r',), 'fs': [
        {'k': 'bits', 'pres': ('a',), 'len': 0, 'little': False, 'fs': []}]}]},
]


def f13_requests():
    return ["codec.dec %s %s" % (cd.to_line(d), h) for d, h in zip(F13_DEFS, ["0501", "ff"])]


# ---------------------------------------------------------------------------- correspondence

def wild(rng, e, v):
    """make a (possibly) ill-formed variant of a definition; sequence items keep their first field"""
    import copy
    e = copy.deepcopy(e)
    big = set()

    def scan(x):
        if isinstance(x, dict):
            for k, y in x.items():
                if isinstance(y, int) and abs(y) > 4096:
                    big.add(k)
                scan(y)
        elif isinstance(x, list):
            for y in x:
                scan(y)
    scan(v)
    small = lambda fs: [g['name'] for g in fs if g.get('name') and g['name'] not in big]

    def tweak(fs, in_item):
        for i, f in enumerate(fs):
            if in_item and i == 0:
                continue
            r = rng.random()
            if f['k'] == 'int' and r < 0.25:
                ch = rng.randrange(4)
                if ch == 0:
                    f['mult'] = 0
                elif ch == 1:
                    f['len'] = 0
                elif ch == 2:
                    f['sign'] = True
                    f['offset'] = -rng.randrange(1, 300)
                else:
                    f['mult'] = rng.choice([5, -7, 1000])
            elif f['k'] == 'bits' and r < 0.3:
                ch = rng.randrange(4)
                if ch == 0:
                    f['len'] = max(0, cg.bits_len(f) - 1)           # overflow -> ProtocolError (or auto)
                elif ch == 1 and f['fs']:
                    j = rng.randrange(len(f['fs']))
                    b = f['fs'][j]
                    if b[0] == 'b':
                        f['fs'][j] = ('b', b[1], b[2], (1 << b[2]) + rng.randrange(4))   # fixed value too wide
                elif ch == 2 and f['fs']:
                    j = rng.randrange(len(f['fs']))
                    b = f['fs'][j]
                    if b[0] == 'b':
                        f['fs'][j] = ('b', b[1], 0, b[3])                                  # bl = 0 -> ProtocolError
                else:
                    f['little'] = not f['little']
            elif f['k'] in ('buf', 'spare') and r < 0.3:
                ch = rng.randrange(4)
                if ch == 0:
                    f['ld'] = ('r',)
                elif ch == 1:
                    f['ld'] = ('o', rng.choice(['nosuch'] + small(fs)))
                elif ch == 2:
                    f['pres'] = (rng.choice(['t', 'f']), rng.choice(['nosuch'] + [g['name'] for g in fs if g.get('name')]))
                elif f['k'] == 'spare':
                    f['filler'] = rng.choice([b'', b'\x01\x02'])
                else:
                    f['ld'] = ('h', rng.randrange(0, 6), rng.randrange(0, 6), rng.randrange(0, 6))
            elif f['k'] == 'env':
                if r < 0.2:
                    f['cl'] = False
                elif r < 0.3:
                    f['ld'] = ('x', rng.randrange(0, 6))
                tweak(f['fs'], False)
            elif f['k'] == 'seq':
                tweak(f['fs'], True)
            if rng.random() < 0.05 and f.get('name') and i > 0 and fs[i - 1].get('name') and not in_item:
                f['name'] = fs[i - 1]['name']                                                  # duplicate name
    tweak(e['fs'], False)
    return e


FIELD_CASES = [
    # (field, vals, hex) pairs exercising the raw (unwrapped) exception classes of Field.from_bytes/to_bytes
    ("I a a 2 B 0 0 1", "d 0", "01"), ("I a a 2 L 1 0 1", "d 0", "80ff00"), ("I a t fl 1 B 0 0 1", "d 0", "01"),
    ("I a t fl 1 B 0 0 1", "d 1 fl i 0", "01"), ("I a f fl 1 B 0 5 -3", "d 1 fl y -", "0a"),
    ("B b a o n", "d 0", "0102"), ("B b a o n", "d 1 n i 3", "0102"), ("B b a o n", "d 1 n i 1", "0102"),
    ("B b a T c 2 0 1 2 0", "d 1 c i 1", "0102"), ("B b a T c 2 0 1 2 0", "d 1 c i 2", "0102"),
    ("S s a o n ff", "d 1 n i 2", "010203"), ("S s a x 2 aabb", "d 0", "010203"),
    ("F a 0 M 3 b x 3 5 s 2 b y 9 -", "d 0", "ffff"), ("F a 0 L 3 b x 3 5 s 2 b y 9 -", "d 0", "aaff"),
    ("F a 1 M 2 b x 5 - b y 5 -", "d 0", "ff"), ("F t g 1 M 1 b x 8 -", "d 1 g i 1", ""),
    ("V e a x 2 1 1 I q a 1 B 0 0 1", "d 0", "0102"), ("V e a r 0 1 I q a 1 B 0 0 1", "d 0", "0102"),
    ("Q s a r 2 I t a 1 B 0 0 1 B v a o t", "d 0", "0102030001"), ("Q s a r 2 I t a 1 B 0 0 1 B v a o t", "d 0", "0502"),
]
FIELD_ENC = [
    ("I a a 2 B 0 0 1", "d 1 a i 65536"), ("I a a 2 B 1 0 1", "d 1 a i -32769"), ("I a a 2 L 1 0 1", "d 1 a i -32768"),
    ("I a a 1 B 0 0 0", "d 1 a i 3"), ("I a a 1 B 0 7 -2", "d 1 a i 2"), ("I a a 1 B 0 0 1", "d 0"), ("I a a 3 L 0 0 1", "d 1 a i -1"),
    ("B b a x 2", "d 1 b y 010203"), ("B b a x 3", "d 1 b y 010203"), ("B b a r", "d 0"),
    ("S s a o n ff", "d 1 n i 2"), ("S s a o n ff", "d 0"), ("S s a x 2 aabb", "d 0"), ("S s a r 00", "d 0"),
    ("F a 0 M 3 b x 3 5 s 2 b y 9 -", "d 1 y i 1023"), ("F a 0 L 2 b x 3 - b y 9 -", "d 1 y i 1"), ("F a 0 M 1 b x 8 -", "d 1 x i -1"),
    ("V e a x 2 1 1 I q a 1 B 0 0 1", "d 1 e d 1 q i 1"), ("V e a r 1 1 I q a 1 B 0 0 1", "d 1 e d 0"),
    ("Q s a r 1 I t a 1 B 0 0 1", "d 1 s l 3 d 1 t i 1 d 1 t i 2 d 1 t i 300"),
]


def correspond(run, corr):
    rng = run.rng
    drift = vf.src_hash_py(os.path.join(vf.TRX, "codec.py"),
                           ["Field", "Buf", "Spare", "Uint", "BitFieldSet", "BitField", "Envelope", "Sequence"])
    run.drift["codec.py"] = drift
    scale = 10 if drift != BASE_HASH else 1
    n = run.scale(3000, 30000) * scale
    reqs = []
    allk = set()
    maxd = 0
    for _ in range(n):
        c = Case(rng)
        kinds(c.clean['fs'], allk)
        maxd = max(maxd, depth(c.clean['fs']))
        # the model needs the encoding of the in-range value: use the generator's value through both sides
        reqs.append("codec.enc %s %s" % (c.line, c.vline))
        # boundary / malformed values
        for fi in c.clean['fs']:
            if fi['k'] == 'int' and fi['len'] > 0 and present_top(fi, c.v) and rng.random() < 0.5:
                lo, hi = cg.int_range(fi)
                raw = rng.choice([lo - 1, lo, lo + 1, hi - 1, hi, hi + 1, (lo + hi) // 2])
                v2 = dict(c.v)
                v2[fi['name']] = raw * fi['mult'] + fi['offset'] + rng.choice([0, 0, 0, 1, -1])
                reqs.append("codec.enc %s %s" % (c.line, cd.val_to_line(v2)))
            if fi['k'] == 'bits' and present_top(fi, c.v) and rng.random() < 0.5:
                v2 = dict(c.v)
                for b in fi['fs']:
                    if b[0] == 'b' and rng.random() < 0.5:
                        # a value used as a length elsewhere stays small (bytes * huge is a memory question)
                        wide = [-1, 1 << b[2], (1 << b[2]) + 1, -(1 << b[2])]
                        if not referenced(c.clean['fs'], b[1]):
                            wide.append(12345678901234567890)
                        v2[b[1]] = rng.choice(wide)
                reqs.append("codec.enc %s %s" % (c.line, cd.val_to_line(v2)))
        if c.v and rng.random() < 0.5:
            v2 = dict(c.v)
            del v2[rng.choice(sorted(v2))]
            reqs.append("codec.enc %s %s" % (c.line, cd.val_to_line(v2)))
        c._wild = wild(rng, c.clean, c.v) if rng.random() < 0.5 else None
        c._reqs_mark = len(reqs)
        reqs.append(("DEC", c))
    # second phase needs encodings: obtain them from the real code (pass 1), then build decode requests
    first = ["codec.enc %s %s" % (r[1].line, r[1].vline) for r in reqs if isinstance(r, tuple)]
    enc_ans = impl(first)
    final = []
    for r in reqs:
        if not isinstance(r, tuple):
            final.append(r)
            continue
        c = r[1]
        a = enc_ans.pop(0)
        if not a.startswith("ok "):
            continue
        b = cd.unhx(a.split()[1])
        final.append("codec.dec %s %s" % (c.line, cd.hx(b)))
        final.append("codec.dec %s %s" % (c.line, cd.hx(b + cg.rand_bytes(rng, rng.randrange(1, 4)))))
        final.append("codec.dec %s %s" % (c.line, cd.hx(b[:rng.randrange(0, len(b) + 1)])))
        for _ in range(2):
            bb = bytearray(b)
            for _ in range(rng.randrange(1, 4)):
                if bb:
                    bb[rng.randrange(len(bb))] ^= 1 << rng.randrange(8)
            final.append("codec.dec %s %s" % (c.line, cd.hx(bytes(bb))))
        final.append("codec.dec %s %s" % (c.line, cd.hx(cg.rand_bytes(rng, rng.randrange(0, 24)))))
        if c._wild is not None:
            wl = cd.to_line(c._wild)
            final.append("codec.enc %s %s" % (wl, c.vline))
            final.append("codec.dec %s %s" % (wl, cd.hx(b)))
            final.append("codec.dec %s %s" % (wl, cd.hx(cg.rand_bytes(rng, rng.randrange(0, 16)))))
    for f, v, h in FIELD_CASES:
        final.append("codec.fdec %s %s %s" % (f, v, h if h else "-"))
    for f, v in FIELD_ENC:
        final.append("codec.fenc %s %s" % (f, v))
    ia = impl(final)
    ma = vf.run_driver(final, timeout=600)
    unmod = 0
    creq, cimp, cmod = [], [], []
    for r, a, b in zip(final, ia, ma):
        if b == "err UNMODELLED":
            unmod += 1
            continue
        creq.append(r); cimp.append(a); cmod.append(b)
        out = a.split()[0] + (" " + a.split()[1] if a.startswith("err") else "")
        corr.count(r, "%s -> %s" % (r.split()[0], out))
    corr.compare(creq, cimp, cmod, in_domain=lambda r: not request_has_duplicate_names(r))
    corr.distribution["model: outside the model (UNMODELLED, not compared)"] = unmod
    corr.distribution["definitions generated"] = n
    corr.distribution["building blocks seen"] = sorted(allk)
    corr.distribution["max nesting depth"] = maxd
    corr.rule = ("a case = one request line (definition + value tree or octets); definitions are random compositions of "
                 "Uint/Int (1..8 octets, both byte orders, offset, mult incl. negative), Buf, Spare, BitFieldSet (1..4 octets, "
                 "both orders, explicit/auto length, fixed values, spares), nested envelopes and sequences up to depth 3 with "
                 "presence/length callbacks; values: in-range, boundary (lo-1..hi+1), over-wide bit-fields, missing keys; octets: "
                 "exact, extended, truncated, bit-flipped, random; plus ill-formed variants (mult 0, flexible ints, overflowing "
                 "sets, over-wide fixed values, dangling references, nested envelopes without length check, duplicate names) and "
                 "field-level calls for the raw exception classes; all non-trivial")
    corr.samples = [{"request": r, "impl": a, "model": b} for r, a, b in list(zip(creq, cimp, cmod))[:6]]


BASE_HASH = "5e341085901d5a04"


def search(run, corr, deep):
    found = 0
    n = run.scale(6000, 60000) * (3 if deep else 1)
    for w in sorted(oracle(run, corr, n), key=lambda w: len(w.get('def', '')) + len(str(w.get('value', ''))))[:20]:
        found += run.report_witness(w)
    # F13: confirm on the real code (timer-guarded); recorded known finding
    reqs = f13_requests()
    ans = impl(reqs, limit=0.5)
    for d, r, a in zip(F13_DEFS, reqs, ans):
        corr.count(None, "oracle: F13 zero-octet sequence item")
        if a == "err HANG":
            found += run.report_witness({"kind": "seq-zero-item-hang", "def": r.split(" ", 1)[1], "item_min_len": 0, "impl": a,
                                         "spec": "Sequence.from_bytes terminates"})
    return found


def pipeline(defline, b):
    """the enc(dec b) laws on the real code for one input; returns a description of the violation or None"""
    e, _ = cd.parse_env(defline.split())
    a = impl(["codec.dec %s %s" % (defline, cd.hx(b))])[0]
    if not a.startswith("ok "):
        return None if a == "err DecodeError" else "decode raised %s (only DecodeError is the codec's own)" % a
    tok = a.split()
    n, vline = int(tok[-1]), " ".join(tok[1:-1])
    a2 = impl(["codec.enc %s %s" % (defline, vline)])[0]
    if not a2.startswith("ok "):
        return "decoded value does not re-encode: %s" % a2
    cb = cd.unhx(a2.split()[1])
    if len(cb) != n:
        return "re-encoding has %d octets, %d were consumed" % (len(cb), n)
    if no_spare(e['fs']) and cb != b[:n]:
        return "spare-free definition re-encodes %s, consumed %s" % (cd.hx(cb), cd.hx(b[:n]))
    a3 = impl(["codec.dec %s %s" % (defline, cd.hx(cb + b[n:]))])[0]
    if a3 != "ok %s %d" % (vline, n):
        return "canonical octets decode to %s" % a3
    return None


def replay(run, path):
    rp = json.load(open(path))
    bad = 0
    for v in rp.get("violations", []):
        w = v.get("witness")
        if not w:
            print("replay: no concrete input recorded (%s)" % json.dumps(v.get("broken"))[:400])
            continue
        kind = w["kind"]
        if "request_line" in w:
            out = impl([w["request_line"]])[0]
            still = out != w["spec"]
            print("replay %s\n  request: %s\n  impl   : %s\n  spec   : %s" % (kind, w["request_line"][:400], out[:300], w["spec"][:300]))
        elif kind in ("inrange-value-not-encodable", "encoded-length-not-declared"):
            out = impl(["codec.enc %s %s" % (w["def"], w["value"])])[0]
            still = not out.startswith("ok ")
            print("replay %s\n  def  : %s\n  value: %s\n  impl : %s\n  spec : %s" % (kind, w["def"][:300], w["value"][:300], out[:300], w["spec"]))
        elif kind == "bitfield-layout":
            out = impl(["codec.enc %s %s" % (w["def"], w["value"])])[0]
            e, _ = cd.parse_env(w["def"].split())
            val = cd.line_to_val(w["value"])
            f = [g for g in e['fs'] if g['k'] == 'bits' and g['pres'] == ('a',)][0]
            want = bits_expected(f, val)
            got = cd.unhx(out.split()[1])[w["octets_at"]:w["octets_at"] + len(want)] if out.startswith("ok ") else None
            still = got != want
            print("replay %s\n  def  : %s\n  value: %s\n  impl : %s\n  spec : %s" % (kind, w["def"][:300], w["value"][:300], out[:300], w["spec"]))
        elif kind == "seq-zero-item-hang":
            out = impl(["codec.dec " + w["def"]], limit=0.5)[0]
            still = out == "err HANG"
            print("replay %s\n  request: codec.dec %s\n  impl   : %s\n  spec   : terminates" % (kind, w["def"][:300], out))
        elif "input" in w:
            why = pipeline(w["def"], cd.unhx(w["input"]))
            still = why is not None
            print("replay %s\n  def  : %s\n  input: %s\n  impl : %s\n  spec : %s" % (kind, w["def"][:300], w["input"][:300], why or "laws hold", w.get("spec")))
        else:
            print("replay %s: %s" % (kind, json.dumps(w)[:300]))
            still = True
        bad += bool(still)
    if bad:
        print("VIOLATION property=C16 replay=%s" % path)
    else:
        print("replay: no recorded input violates the property on this tree")
    return 1 if bad else 0
