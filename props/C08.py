# C08 — Firmware TDMA scheduler runs each item exactly in its scheduled frame
import json, os, re
from lib import vf, cbuild
from gen import tdma_sched
from props import c08_gsmtime_part as gsmtime      # part "gsmtime": layer1/sched_gsmtime.c on top of the TDMA scheduler

ID = "C08"
LEVEL = "proof"
LEAN_MODULES = ["OsmoVerif.Props.C08"]
DRIVER_MODULES = ["TdmaSched"]
LEAN_MODEL_MODULES = ["OsmoVerif.Model.TdmaSched", "OsmoVerif.Spec.TdmaSched", "OsmoVerif.Lemmas.TdmaSchedBasic",
                      "OsmoVerif.Lemmas.TdmaSchedSort", "OsmoVerif.Lemmas.TdmaSchedOps", "OsmoVerif.Lemmas.TdmaSchedSpec",
                      "OsmoVerif.Lemmas.TdmaSched"]
ASSUMPTIONS = [
    "theorems are about OsmoVerif.Model.TdmaSched: hand model, statement by statement, of wrap_bucket, tdma_schedule, tdma_schedule_set, tdma_sched_advance, tdma_sched_flag_scan, _tdma_sched_bucket_sort (the exchange sort on seq[]), tdma_sched_execute (incl. the rc < 0 path), tdma_sched_reset, tdma_sched_dump, with C widths, array capacities and an explicit out-of-bounds / NULL-call outcome",
    "callbacks are identified by an id and do not re-enter the scheduler (no tdma_schedule*/reset from inside a callback); the exactly-once theorems assume every pending and scheduled callback reports success (rc >= 0; decidable predicate Inv/OpOk), the error path is modelled, compared, and covered by execute_error_keeps_bucket",
    "admissible operations (OpOk): arguments within the C parameter types, item sets terminated by SCHED_END_SET() with frame offsets below 256 (no uint8_t wrap of ++frame_offset); runs_exactly_at additionally: offset < 25, no reset between scheduling and execution, the item distinguishable (not pending, not scheduled again), and the firmware discipline execute-then-advance once per frame (sync.c frame interrupt) with scheduling for the current frame only before its execute; the ring statement pending_runs_ring needs no discipline",
    "model tied to the current tree by differential execution of the unchanged tdma_sched.c (compiled for the host; l1s, console and recording callbacks supplied by harness/c/c08_harness.c) on structured random histories: buckets filled to capacity and beyond, > 25 advances, equal/negative/extreme priorities, offsets 0..300, out-of-width arguments, failing callbacks, multi-frame sets incl. overflow in mid-set and elements after END_SET, stale flags, every priority pattern over {-1,0,1}^<=6 and {0,1}^8",
    "TDMASCHED_NUM_FRAMES / TDMASCHED_NUM_CB, the field widths and the SCHED_END_FRAME()/SCHED_END_SET()/SCHED_ITEM()/SCHED_ITEM_DT() expansions are regenerated from the header on every run and used by the theorems (gen_consts)",
]
MANIFEST = {
    "text": "Lean 4 theorems over a statement-level model of tdma_sched.c, from every well-formed state (any ring position) and every list of admissible operations: step_safe (no out-of-bounds index, no NULL call, invariant preserved), sched_refines / sched_refines_run (every operation does to the pending work what the abstract 'items due in d frames' machine does, same return values, executed callbacks a priority-sorted permutation of the items due), prio_order (for the actual exchange sort), executed_empty, overflow_reported / overflow_reported_set (error return, state unchanged resp. every frame keeps its items), set_placement (k-th frame of a set lands k frames after the first), pending_runs_ring (ring statement, no discipline), pending_runs_exactly_at / runs_exactly_at / set_runs_exactly_at (exactly once, at the execute after exactly N advances, with its parameters, 0 times anywhere else), nothing_else_runs, execute_error_keeps_bucket; constants regenerated from the header; the model is compared with the unchanged C code on structured random histories and an independent Python reference of the property is evaluated on the outputs of the real C code (instrumented with ASan/UBSan bounds)",
    "note": "trusted: Lean kernel (+propext, Classical.choice, Quot.sound), gen/tdma_sched.py, the differential harness harness/c/c08_harness.c (supplies l1s, console, recording callbacks); assumed: callbacks do not re-enter the scheduler; premises of the exactly-once theorems: callbacks report success, offsets < 25, execute-then-advance discipline, no reset in between, distinguishable item; modelled not verified: C integer conversion rules as written in Model/TdmaSched.lean. Corner cases of the real code outside the premises are pinned by examples (unstable order of equal priorities, offset >= 25 aliases, scheduling for the executed current frame waits 25 frames, an overflowing set keeps its first items, reset keeps the current bucket, a failing callback leaves the bucket scheduled, tdma_schedule() inherits stale .flags)",
    "technique": "Lean 4 proof by refinement (invariant + induction over op lists) over a C-width model with explicit array bounds; differential correspondence with the compiled C; property oracle on the real code",
    "design_ref": "DESIGN.md section 5 C08",
}

LEAN_MODULES += gsmtime.LEAN_MODULES
DRIVER_MODULES += gsmtime.DRIVER_MODULES
LEAN_MODEL_MODULES += gsmtime.LEAN_MODEL_MODULES
ASSUMPTIONS += gsmtime.ASSUMPTIONS
MANIFEST = dict(MANIFEST, text=MANIFEST["text"] + gsmtime.MANIFEST_TEXT, note=MANIFEST["note"] + gsmtime.MANIFEST_NOTE)

NF = 25          # scheduler depth the property speaks about
NCB = 8          # capacity of one frame
FW_FLAGS = ["-Dputs=fw_puts", "-Dprintf=fw_printf", "-Dputchar=fw_putchar"]
OK_CBS = list(range(0, 10))      # callbacks that report success (8 returns 1, 9 returns p1)
ERR_CBS = [10, 11, 12]           # 10: -1, 11: -p2-1, 12: -5 iff p3 odd


def gen(run):
    run.consts = tdma_sched.generate(run)
    gsmtime.gen(run)


def build_harness(run, san=False):
    """the real tdma_sched.c + harness; san=True: tdma_sched.c instrumented with ASan/UBSan (array bounds)"""
    attr = "c08_exe_san" if san else "c08_exe"
    if getattr(run, attr, None):
        return getattr(run, attr)
    sf = ["-fsanitize=address,undefined", "-fno-sanitize-recover=all"] if san else []
    suffix = "_san" if san else ""
    ts = cbuild.firmware_obj(run, "layer1/tdma_sched.c", "tdma_sched" + suffix, extra_flags=FW_FLAGS + sf)
    h = cbuild.obj(run, os.path.join(vf.ROOT, "harness/c/c08_harness.c"), "c08_harness" + suffix,
                   flags=["-DHOST_BUILD"], includes=[cbuild.SHIM, cbuild.LIBOSMO_INC, cbuild.TOP_INC],
                   idirafter=[cbuild.FW_INC])
    if san:
        exe = cbuild.link(run, [h, ts], "c08_harness_san.bin", flags=sf)
    else:
        exe = cbuild.link(run, [h, ts], "c08_harness.bin", ignore_unresolved=True)
    setattr(run, attr, exe)
    return exe


def run_hist(exe, lines, max_crashes=3):
    """run_lines, but a history on which the real code crashes (signal / sanitizer abort) is answered
    `crash ...` instead of losing the batch; after max_crashes crashing lines the rest is `skipped`"""
    env = {"ASAN_OPTIONS": "detect_leaks=0", "UBSAN_OPTIONS": "print_stacktrace=0"}
    out = []
    pos = 0
    crashes = 0
    chunk = len(lines)
    while pos < len(lines):
        if crashes >= max_crashes:
            out += ["skipped"] * (len(lines) - pos)
            break
        part = lines[pos:pos + chunk]
        try:
            out += vf.run_lines([exe], part, env=env)
            pos += len(part)
            chunk = len(lines)
            continue
        except vf.HarnessError as e:
            err = str(e)
        if len(part) == 1:
            msg = [l for l in err.split("\n") if "runtime error" in l or "ERROR" in l]
            txt = msg[0].strip()[-160:] if msg else err.split("stderr:")[0].strip()[-80:]
            txt = re.sub(r"0x[0-9a-fA-F]+", "0x..", txt).replace(vf.REPO, "<repo>")
            out.append("crash " + " ".join(txt.split()))
            crashes += 1
            pos += 1
            chunk = len(lines)
        else:
            chunk = max(1, len(part) // 2)
    return out


# ------------------------------------------------------------------------------------------
# histories: cur + list of ops
#   ("sched", off, cb, p1, p2, p3, prio)   cb = int id or "E"
#   ("set", off, p3, [elem...])            elem = ("i", cb, p1, p2, prio, flags) | "F" | "E"
#   ("exec",) ("adv",) ("reset",) ("flags",) ("dump",)

def op_str(op):
    if op[0] == "sched":
        return "sched %s %s %d %d %d %d" % (op[1], op[2], op[3], op[4], op[5], op[6])
    if op[0] == "set":
        parts = ["set %d %d" % (op[1], op[2])]
        for e in op[3]:
            parts.append(e if isinstance(e, str) else "i %d %d %d %d %d" % e[1:])
        return " ".join(parts)
    return op[0]


def to_line(cur, ops):
    return "ts.run %d " % cur + " ; ".join(op_str(o) for o in ops)


def parse_line(line):
    t = line.split()
    cur = int(t[1])
    ops = []
    cmds, curc = [], []
    for x in t[2:]:
        if x == ";":
            cmds.append(curc)
            curc = []
        else:
            curc.append(x)
    cmds.append(curc)
    for c in cmds:
        if c[0] == "sched":
            ops.append(("sched", int(c[1]), c[2] if c[2] == "E" else int(c[2]), int(c[3]), int(c[4]), int(c[5]), int(c[6])))
        elif c[0] == "set":
            el, i = [], 3
            while i < len(c):
                if c[i] in ("F", "E"):
                    el.append(c[i]); i += 1
                else:
                    el.append(("i",) + tuple(int(v) for v in c[i + 1:i + 6])); i += 6
            ops.append(("set", int(c[1]), int(c[2]), el))
        else:
            ops.append((c[0],))
    return cur, ops


def parse_answer(ans):
    """tokens -> per-op observation"""
    res = []
    for tok in ans.split():
        k = tok[0]
        if k == "r":
            res.append(("r", int(tok[1:])))
        elif k == "x":
            parts = tok[1:].split(":")
            calls = [tuple(int(v) for v in p.split(",")) for p in parts[1:]]
            res.append(("x", int(parts[0]), calls))
        elif k == "d":
            res.append(("d", [int(v) for v in tok[1:].split(",")]))
        elif k == "f":
            res.append(("f", int(tok[1:])))
        else:
            res.append((k,))
    return res


PRIOS = [-32768, -32767, -2, -1, 0, 1, 2, 3, 9, 10, 32766, 32767]


class Gen:
    """structured random histories (all randomness from run.rng)"""

    def __init__(self, rng):
        self.rng = rng
        self.serial = 0

    def uniq(self):
        # unique (p1, p2) per item of a history, so that a call identifies its item
        self.serial += 1
        return (self.serial // 256) % 256, self.serial % 256

    def prio(self, mode):
        r = self.rng
        if mode == "eq":
            return 3
        if mode == "few":
            return r.choice([-1, 0, 1])
        if mode == "edge":
            return r.choice(PRIOS)
        return r.randrange(-32768, 32768)

    def item(self, off, cbs, pmode):
        p1, p2 = self.uniq()
        return ("sched", off, self.rng.choice(cbs), p1, p2, self.rng.randrange(0, 65536), self.prio(pmode))

    def set_op(self, off, cbs, pmode, frames, per_frame, tail=False, flags=False):
        el = []
        for k in range(frames):
            if k:
                el.append("F")
            for _ in range(self.rng.choice(per_frame)):
                p1, p2 = self.uniq()
                el.append(("i", self.rng.choice(cbs), p1, p2, self.prio(pmode),
                           self.rng.choice([0, 1, 2, 3]) if flags else 0))
        el.append("E")
        if tail:
            p1, p2 = self.uniq()
            el += [("i", self.rng.choice(cbs), p1, p2, 0, 0), "F", "E"]
        return ("set", off, self.rng.randrange(0, 65536), el)

    # -- histories obeying the property's premises ------------------------------------------
    def disciplined(self, nframes, load, resets=False, sets=True, overflow=False):
        """pre-ops ; exec ; post-ops (offset >= 1) ; adv  per frame; callbacks succeed; offsets < 25"""
        r = self.rng
        self.serial = r.randrange(0, 30000)
        cur = r.randrange(0, NF)
        pmode = r.choice(["eq", "few", "edge", "any"])
        ops = []
        period = r.choice([7, 12, 25, 30])   # absolute frames k*period get crowded
        for f in range(nframes):
            for phase in (0, 1):
                lo = 0 if phase == 0 else 1
                n = r.choice(load)
                for _ in range(n):
                    off = (f // period + 1) * period - f
                    if not (overflow and r.random() < 0.5 and lo <= off < NF):
                        off = r.choice([lo, lo, 1, 2, 3, 12, 23, 24, r.randrange(lo, NF)])
                    if sets and r.random() < 0.3:
                        frames = r.choice([1, 1, 2, 3, 4, 6])
                        frames = max(1, min(frames, NF - off))
                        ops.append(self.set_op(off, OK_CBS, pmode, frames, [0, 1, 1, 2, 3, NCB + 1] if overflow else [0, 1, 1, 2, 3],
                                               tail=r.random() < 0.2))
                    else:
                        ops.append(self.item(off, OK_CBS, pmode))
                if resets and r.random() < 0.08:
                    ops.append(("reset",))
                if r.random() < 0.15:
                    ops.append(("dump",))
                if phase == 0:
                    ops.append(("exec",))
                    if r.random() < 0.3:
                        ops.append(("dump",))
            ops.append(("adv",))
        for f in range(NF + 1):         # flush: nothing may run late or twice
            ops += [("exec",), ("adv",)]
        ops.append(("dump",))
        return cur, ops

    def fill(self):
        """one frame filled to capacity and beyond, then executed"""
        r = self.rng
        self.serial = r.randrange(0, 30000)
        cur = r.randrange(0, NF)
        off = r.choice([0, 1, 23, 24, r.randrange(0, NF)])
        pmode = r.choice(["eq", "few", "edge", "any"])
        ops = []
        other = (off + r.randrange(1, NF)) % NF
        ops.append(self.item(other, OK_CBS, pmode))
        for k in range(r.choice([NCB - 1, NCB, NCB + 1, NCB + 3])):
            ops.append(self.item(off, OK_CBS, pmode))
            if r.random() < 0.2:
                ops.append(("dump",))
        ops.append(self.set_op(off, OK_CBS, pmode, 2, [1, 2]))
        ops.append(("dump",))
        for f in range(NF + 2):
            ops += [("exec",), ("dump",) if r.random() < 0.2 else ("flags",), ("adv",)]
        return cur, ops

    # -- histories outside the premises (correspondence only) ---------------------------------
    def soup(self, n):
        r = self.rng
        self.serial = r.randrange(0, 60000)
        cur = r.randrange(0, NF)
        pmode = r.choice(["eq", "few", "edge", "any", "wild"])
        cbs = r.choice([OK_CBS, OK_CBS + ERR_CBS, ERR_CBS + [0, 1], list(range(13)) + ["E"]])
        ops = []
        for _ in range(n):
            c = r.random()
            if c < 0.35:
                off = r.choice([0, 0, 1, 2, 24, 25, 26, 49, 50, 230, 231, 254, 255, 256, 257, 300, r.randrange(0, 256)])
                p1, p2 = self.uniq()
                if r.random() < 0.1:
                    p1 += 256 * r.randrange(1, 4)
                    p2 += 256
                prio = self.prio(pmode) if pmode != "wild" else r.choice([32768, 40000, 65535, 65536, -32769, -40000, -65536, 70000, 5])
                ops.append(("sched", off, r.choice(cbs), p1, p2, r.choice([0, 1, 2, 65535, 65536, 65537, r.randrange(0, 70000)]), prio))
            elif c < 0.5:
                off = r.choice([0, 1, 20, 24, 25, 250, 253, 255, r.randrange(0, 256)])
                scbs = [x for x in cbs if x != "E"]
                ops.append(self.set_op(off, scbs, pmode if pmode != "wild" else "edge", r.choice([1, 2, 3, 5, 8, 30]),
                                       [0, 1, 2, 3, NCB, NCB + 1], tail=r.random() < 0.3, flags=True))
            elif c < 0.7:
                ops.append(("exec",))
            elif c < 0.88:
                ops.append(("adv",))
            elif c < 0.91:
                ops.append(("reset",))
            elif c < 0.96:
                ops.append(("dump",))
            else:
                ops.append(("flags",))
        ops.append(("dump",))
        return cur, ops

    def errors(self):
        """failing callbacks at every position of a bucket; execute repeated; bucket comes round"""
        r = self.rng
        self.serial = r.randrange(0, 30000)
        cur = r.randrange(0, NF)
        n = r.randrange(1, NCB + 1)
        bad = r.randrange(0, n)
        ops = []
        for k in range(n):
            p1, p2 = self.uniq()
            cb = r.choice(ERR_CBS) if k == bad or r.random() < 0.15 else r.choice(OK_CBS)
            ops.append(("sched", 0, cb, p1, p2, r.randrange(0, 65536), self.prio("few")))
        ops += [("exec",), ("dump",), ("exec",), ("sched", 0, 1, 0, 0, 0, -5), ("exec",)]
        for f in range(NF):
            ops += [("adv",)]
        ops += [("exec",), ("dump",)]
        return cur, ops

    def stale_flags(self):
        r = self.rng
        self.serial = r.randrange(0, 30000)
        cur = r.randrange(0, NF)
        ops = [self.set_op(0, OK_CBS, "few", 1, [r.randrange(1, NCB + 1)], flags=True), ("flags",), ("exec",), ("flags",)]
        for _ in range(r.randrange(1, 4)):
            ops.append(self.item(0, OK_CBS, "few"))
            ops.append(("flags",))
        ops += [("exec",), ("flags",), ("dump",)]
        return cur, ops


def exhaustive_prio_lines():
    """every priority pattern over {-1,0,1} for up to 6 items and {0,1} for 8 items: pins down the
    (unstable) order of equal priorities of the exchange sort"""
    lines = []
    import itertools
    for n in range(1, 7):
        for pat in itertools.product((-1, 0, 1), repeat=n):
            ops = [("sched", 0, k, k, 0, 0, p) for k, p in enumerate(pat)] + [("exec",)]
            lines.append(to_line(len(lines) % NF, ops))
    for pat in itertools.product((0, 1), repeat=8):
        ops = [("sched", 0, k, k, 0, 0, p) for k, p in enumerate(pat)] + [("exec",)]
        lines.append(to_line(len(lines) % NF, ops))
    return lines


def corr_lines(run, n):
    g = Gen(run.rng)
    lines = []
    kinds = []
    for i in range(n):
        c = i % 10
        if c < 3:
            cur, ops = g.soup(run.rng.choice([10, 40, 120]))
            kinds.append("soup")
        elif c < 5:
            cur, ops = g.disciplined(run.rng.choice([3, 30, 60]), [0, 0, 1, 2, 3], resets=True, overflow=run.rng.random() < 0.5)
            kinds.append("disciplined")
        elif c < 7:
            cur, ops = g.fill()
            kinds.append("fill")
        elif c < 9:
            cur, ops = g.errors()
            kinds.append("errors")
        else:
            cur, ops = g.stale_flags()
            kinds.append("flags")
        lines.append(to_line(cur, ops))
    return lines, kinds


def correspond(run, corr):
    exe = build_harness(run)
    src = os.path.join(vf.REPO, "src/target/firmware/layer1/tdma_sched.c")
    run.drift["tdma_sched.c"] = vf.src_hash_c(src, ["wrap_bucket", "tdma_schedule", "tdma_schedule_set", "tdma_sched_advance",
                                                     "tdma_sched_flag_scan", "_tdma_sched_bucket_sort", "tdma_sched_execute",
                                                     "tdma_sched_reset"])
    n = run.scale(6000, 60000)
    lines = exhaustive_prio_lines()
    kinds = ["prio-exhaustive"] * len(lines)
    l2, k2 = corr_lines(run, n)
    lines += l2
    kinds += k2
    # malformed requests: both sides must refuse
    lines += ["ts.run 25 exec", "ts.run 0 sched 0 13 0 0 0 0", "ts.run 0 set 0 0 i 1 1 1 1 0", "ts.run 0 bogus", "ts.run 0"]
    kinds += ["malformed"] * 5
    impl = run_hist(exe, lines)
    model = vf.run_driver(lines)
    corr.compare(lines, impl, model)
    if corr.disagreements:
        d = corr.disagreements[0]
        small = shrink_disagreement(exe, d["request"])
        if small != d["request"]:
            corr.disagreements.insert(0, {"request": small, "impl": run_hist(exe, [small])[0], "model": vf.run_driver([small])[0],
                                          "note": "shrunk from the first disagreeing history"})
    nops = 0
    for ln, k, a in zip(lines, kinds, impl):
        corr.count(ln, k)
        nops += ln.count(";") + 1
        for tok in a.split():
            key = {"r": "ret:" + tok[1:] if tok[0] == "r" and tok in ("r0", "r-1") else "ret:frames>0" if tok[0] == "r" else None,
                   "x": "exec:" + ("empty" if tok == "x0" else "error" if tok.startswith("x-") else "ran")}.get(tok[0])
            if key:
                corr.distribution[key] = corr.distribution.get(key, 0) + 1
    corr.distribution["ops total"] = nops
    corr.rule = ("a case is one history line (zeroed scheduler, given ring position, sequence of tdma_schedule / tdma_schedule_set / "
                 "execute / advance / reset / flag_scan / dump); families: random op soup with offsets 0..300 and out-of-width arguments, "
                 "disciplined frames (execute, advance) over up to 60+26 frames, one frame filled to capacity and beyond, failing callbacks, "
                 "stale flags, every priority pattern over {-1,0,1}^<=6 and {0,1}^8; compared: every return code, every callback invocation "
                 "(id, p1, p2, p3, rc) in order, flag_scan values, num_items of all 25 buckets at the dump points")
    corr.samples = [{"request": r[:400], "impl": a[:400], "model": b[:400]} for r, a, b in list(zip(lines, impl, model))[:3]]
    gsmtime.correspond(run, corr)


# ------------------------------------------------------------------------------------------
# the property oracle: an independent Python reference of the PROPERTY (not of the code),
# evaluated on the outputs of the real C code.

def evaluate(cur, ops, obs, premises_only=False):
    """returns None (property holds on this history), "n/a" (history outside the premises) or a
    dict describing the first failure."""
    po = premises_only
    if po:
        obs = [None] * len(ops)
    if len(obs) != len(ops):
        return {"what": "answer has %d tokens for %d ops" % (len(obs), len(ops)), "op_index": 0}
    t = 0                 # frame number = advances so far
    executed = False      # has this frame been executed
    must = {}             # frame -> {key: prio}   items that have to run in that frame
    opt = {}              # frame -> {key: prio}   items the property leaves open (may run in that frame, once)
    lo, hi = {}, {}       # frame -> bounds on the occupancy of the frame
    seen = set()

    def place(T, key, prio, optional=False):
        (opt if optional else must).setdefault(T, {})[key] = prio

    for i, (op, ob) in enumerate(zip(ops, obs)):
        if op[0] == "sched":
            _, off, cb, p1, p2, p3, prio = op
            if cb not in OK_CBS or not (0 <= off < NF) or not (0 <= p1 < 256 and 0 <= p2 < 256 and 0 <= p3 < 65536 and -32768 <= prio <= 32767):
                return "n/a"
            if executed and off == 0:
                return "n/a"
            key = (cb, p1, p2, p3)
            if key in seen:
                return "n/a"
            seen.add(key)
            T = t + off
            l, h = lo.get(T, 0), hi.get(T, 0)
            if l < NCB <= h:
                return "n/a"
            if h < NCB:
                if not po and ob != ("r", 0):
                    return {"what": "tdma_schedule into a frame holding %d items did not return 0" % h, "op_index": i, "got": ob}
                place(T, key, prio)
                lo[T], hi[T] = l + 1, h + 1
            else:
                if not po and ob != ("r", -1):
                    return {"what": "tdma_schedule into a full frame (%d items) did not report an error" % l, "op_index": i, "got": ob}
        elif op[0] == "set":
            _, off, p3, el = op
            if not (0 <= off < NF) or not (0 <= p3 < 65536):
                return "n/a"
            k = 0
            placed = []
            failed = False
            for e in el:
                if e == "E":
                    break
                if e == "F":
                    k += 1
                    continue
                _, cb, p1, p2, prio, flags = e
                if cb not in OK_CBS or off + k >= NF or not (0 <= p1 < 256 and 0 <= p2 < 256 and -32768 <= prio <= 32767):
                    return "n/a"
                if executed and off + k == 0:
                    return "n/a"
                key = (cb, p1, p2, p3)
                if key in seen:
                    return "n/a"
                seen.add(key)
                T = t + off + k
                l, h = lo.get(T, 0), hi.get(T, 0)
                if l < NCB <= h:
                    return "n/a"
                if h >= NCB:
                    failed = True
                    break
                placed.append((T, key, prio))
                lo[T], hi[T] = l + 1, h + 1
            else:
                return "n/a"      # no END_SET
            if off + k >= NF:
                return "n/a"
            if failed:
                if not po and ob != ("r", -1):
                    return {"what": "tdma_schedule_set overflowing a frame did not report an error", "op_index": i, "got": ob}
                # what the aborted set leaves behind is not fixed by the property: its items may run (once, in their frame) or not
                for T, key, prio in placed:
                    place(T, key, prio, optional=True)
                    lo[T] -= 1
            else:
                if not po and ob != ("r", k):
                    return {"what": "tdma_schedule_set did not return the number of frame markers (%d)" % k, "op_index": i, "got": ob}
                for T, key, prio in placed:
                    place(T, key, prio)
        elif op[0] == "exec":
            if executed:
                return "n/a"
            executed = True
            m, o = must.pop(t, {}), opt.pop(t, {})
            lo[t] = hi[t] = 0
            if po:
                continue
            _, rc, calls = ob
            keys = [c[:4] for c in calls]
            if len(set(keys)) != len(keys):
                return {"what": "an item ran twice in one frame", "op_index": i, "frame": t, "got": ob}
            for kx in keys:
                if kx not in m and kx not in o:
                    return {"what": "callback %s ran in frame %d but was not scheduled for it" % (kx, t), "op_index": i, "frame": t, "got": ob}
            for kx in m:
                if kx not in keys:
                    return {"what": "item %s scheduled for frame %d did not run in it" % (kx, t), "op_index": i, "frame": t, "got": ob}
            pr = [m[kx] if kx in m else o[kx] for kx in keys]
            if any(a > b for a, b in zip(pr, pr[1:])):
                return {"what": "items of frame %d did not run in ascending priority order: %s" % (t, pr), "op_index": i, "frame": t, "got": ob}
            if rc != len(calls):
                return {"what": "tdma_sched_execute returned %d after %d callbacks" % (rc, len(calls)), "op_index": i, "frame": t, "got": ob}
            lo[t] = hi[t] = 0
        elif op[0] == "adv":
            if not executed:
                return "n/a"
            executed = False
            t += 1
        elif op[0] == "reset":
            for T in list(must):
                if T > t:
                    del must[T]
            for T in list(opt):
                if T > t:
                    del opt[T]
            for T in list(hi):
                if T > t:
                    lo[T] = hi[T] = 0
            # the frame being current: the property does not say whether its items survive a reset
            if t in must:
                opt.setdefault(t, {}).update(must.pop(t))
            lo[t] = 0
        elif op[0] == "dump":
            if po:
                continue
            d = ob[1]
            for j, v in enumerate(d[:NF]):
                T = t + j
                if not (lo.get(T, 0) <= v <= hi.get(T, 0)):
                    what = "frame %d (due in %d) holds %d items, expected %d..%d" % (T, j, v, lo.get(T, 0), hi.get(T, 0))
                    if j == 0 and executed:
                        what = "the executed frame is not left empty (%d items)" % v
                    return {"what": what, "op_index": i, "frame": T, "got": ob}
        elif op[0] == "flags":
            pass
        else:
            return "n/a"
    return None


def judge(cur, ops, ans):
    """verdict of the property reference on one answer line of the real code"""
    if ans in ("bad-op", "skipped"):
        return "n/a"
    if ans.startswith("crash"):
        if evaluate(cur, ops, None, premises_only=True) == "n/a":
            return "n/a"
        return {"what": "the scheduler code crashed / indexed outside an array on a history within the premises: " + ans, "op_index": len(ops) - 1}
    try:
        obs = parse_answer(ans)
    except Exception:
        return {"what": "unparseable answer " + ans[:100], "op_index": 0}
    return evaluate(cur, ops, obs)


def check_history(exe, cur, ops):
    ans = run_hist(exe, [to_line(cur, ops)])[0]
    return judge(cur, ops, ans), ans


def shrink_disagreement(exe, line):
    """greedy op removal while real code and model still disagree"""
    cur, ops = parse_line(line)

    def differs(o):
        if not o:
            return False
        ln = to_line(cur, o)
        return run_hist(exe, [ln])[0] != vf.run_driver([ln])[0]
    budget = 250
    changed = True
    while changed and budget > 0:
        changed = False
        while len(ops) > 1 and budget > 0:
            budget -= 1
            if differs(ops[:-1]):
                ops = ops[:-1]
                changed = True
            else:
                break
        i = 0
        while i < len(ops) and budget > 0:
            budget -= 1
            cand = ops[:i] + ops[i + 1:]
            if differs(cand):
                ops = cand
                changed = True
            else:
                i += 1
    return to_line(cur, ops)


def shrink(exe, cur, ops):
    """greedy removal of ops while the history still violates the property within its premises"""
    def bad(o):
        r, _ = check_history(exe, cur, o)
        return isinstance(r, dict)
    changed = True
    budget = 400
    while changed and budget > 0:
        changed = False
        # whole frames first (exec ... adv), then single scheduling ops
        i = 0
        while i < len(ops) and budget > 0:
            cand = None
            if ops[i][0] in ("sched", "set", "dump", "flags", "reset"):
                cand = ops[:i] + ops[i + 1:]
            if cand is not None:
                budget -= 1
                if bad(cand):
                    ops = cand
                    changed = True
                    continue
            i += 1
        # whole frames: a consecutive (exec, adv) pair
        i = 0
        while i + 1 < len(ops) and budget > 0:
            if ops[i][0] == "exec" and ops[i + 1][0] == "adv":
                budget -= 1
                cand = ops[:i] + ops[i + 2:]
                if bad(cand):
                    ops = cand
                    changed = True
                    continue
            i += 1
        # drop trailing ops
        while len(ops) > 1 and budget > 0:
            budget -= 1
            if bad(ops[:-1]):
                ops = ops[:-1]
                changed = True
            else:
                break
    return ops


def shape_of(ops, res):
    """coarse description of a failing history (used to match known findings)"""
    offs = [o[1] for o in ops if o[0] in ("sched", "set")]
    return {"max_offset": max(offs) if offs else -1, "n_sched": len(offs),
            "n_adv": sum(1 for o in ops if o[0] == "adv"), "has_reset": any(o[0] == "reset" for o in ops),
            "has_set": any(o[0] == "set" for o in ops)}


def report(run, exe, cur, ops, res):
    ops = shrink(exe, cur, ops)
    res2, ans = check_history(exe, cur, ops)
    if not isinstance(res2, dict):
        res2 = res
    w = {"kind": "tdma-history", "history": to_line(cur, ops), "impl": ans, "fails": res2["what"],
         "failing_op": op_str(ops[res2["op_index"]]) if res2.get("op_index", 0) < len(ops) else None,
         "property_requires": "every item runs exactly once, in the frame it was scheduled for, in ascending priority order; "
                              "full frame -> error return; executed frame empty"}
    w.update(shape_of(ops, res2))
    return run.report_witness(w)


def search(run, corr, deep):
    try:
        exe = build_harness(run, san=True)
        corr.distribution["oracle: tdma_sched.c instrumented (ASan+UBSan bounds)"] = 1
    except vf.HarnessError:
        exe = build_harness(run)
    g = Gen(run.rng)
    found = 0
    n = run.scale(3000, 30000) * (4 if deep else 1)
    hist = []
    # the disagreeing histories of the correspondence first (if they obey the premises)
    for d in corr.disagreements:
        try:
            hist.append(parse_line(d["request"]))
        except Exception:
            pass
    # fixed boundary histories: every offset 0..24 from every ring position, single item and full frame
    for cur in range(NF):
        for off in range(NF):
            ops = [("sched", off, 1, off, cur, 7, 0)]
            if (cur + off) % 5 == 0:
                ops += [("sched", off, 2 + k % 8, k, 200, 9, (k * 7) % 5 - 2) for k in range(NCB)]
            for f in range(NF + 1):
                ops += [("exec",), ("adv",)]
            ops.append(("dump",))
            hist.append((cur, ops))
    for i in range(n):
        c = i % 4
        if c == 0:
            hist.append(g.fill())
        elif c == 1:
            hist.append(g.disciplined(run.rng.choice([2, 10, 30, 60]), [0, 1, 1, 2, 4], resets=False, overflow=True))
        elif c == 2:
            hist.append(g.disciplined(run.rng.choice([2, 10, 30]), [0, 0, 1, 2, 3], resets=True, overflow=run.rng.random() < 0.3))
        else:
            hist.append(g.disciplined(run.rng.choice([5, 40]), [0, 1, 2, 5, 9], resets=False, sets=False, overflow=run.rng.random() < 0.5))
    ndis = len([1 for d in corr.disagreements])
    lines = [to_line(c, o) for c, o in hist]
    # the disagreeing histories separately: a crash budget spent on them must not hide the generated ones
    nd = 0
    for d in corr.disagreements:
        try:
            parse_line(d["request"]); nd += 1
        except Exception:
            pass
    answers = (run_hist(exe, lines[:nd], max_crashes=10) if nd else []) + run_hist(exe, lines[nd:], max_crashes=6)
    stats = {"ok": 0, "n/a": 0, "fail": 0}
    items = 0
    for (cur, ops), ans in zip(hist, answers):
        res = judge(cur, ops, ans)
        if res is None:
            stats["ok"] += 1
            items += sum(1 for o in ops if o[0] in ("sched", "set"))
        elif res == "n/a":
            stats["n/a"] += 1
        else:
            stats["fail"] += 1
            if found < 3:
                found += report(run, exe, cur, ops, res)
    corr.distribution["oracle: histories within the premises"] = stats["ok"] + stats["fail"]
    corr.distribution["oracle: histories outside the premises (skipped)"] = stats["n/a"]
    corr.distribution["oracle: scheduling ops checked"] = items
    return found + gsmtime.search(run, corr, deep)


def replay(run, path):
    rp = json.load(open(path))
    gen(run)
    try:
        exe = build_harness(run, san=True)
    except vf.HarnessError:
        exe = build_harness(run)
    bad = 0
    for v in rp.get("violations", []):
        w = v.get("witness")
        if not w:
            print("replay: no concrete input recorded (%s)" % json.dumps(v.get("broken"))[:400])
            continue
        if w.get("part") == "gsmtime":
            bad += gsmtime.replay_witness(run, w)
            continue
        cur, ops = parse_line(w["history"])
        res, ans = check_history(exe, cur, ops)
        print("replay history=%s\n  impl=%s\n  verdict=%s" % (w["history"], ans, res if res else "property holds"))
        bad += isinstance(res, dict)
    if bad:
        print("VIOLATION property=C08 replay=%s" % path)
    return 1 if bad else 0
