# C08 — Firmware TDMA scheduler runs each item exactly in its scheduled frame
import json, os, re
from lib import vf, cbuild
from gen import tdma_sched
from props import c08_gsmtime_part as gsmtime      # part "gsmtime": layer1/sched_gsmtime.c on top of the TDMA scheduler
GSMTIME_PART = True

ID = "C08"
LEVEL = "proof"
LEAN_MODULES = ["OsmoVerif.Props.C08"]
DRIVER_MODULES = ["TdmaSched"]
LEAN_MODEL_MODULES = ["OsmoVerif.Model.TdmaSched", "OsmoVerif.Spec.TdmaSched", "OsmoVerif.Lemmas.TdmaSchedBasic",
                      "OsmoVerif.Lemmas.TdmaSchedSort", "OsmoVerif.Lemmas.TdmaSchedOps", "OsmoVerif.Lemmas.TdmaSchedSpec",
                      "OsmoVerif.Lemmas.TdmaSchedFly", "OsmoVerif.Lemmas.TdmaSchedExec", "OsmoVerif.Lemmas.TdmaSched"]
ASSUMPTIONS = [
    "theorems are about OsmoVerif.Model.TdmaSched: hand model, statement by statement, of wrap_bucket, tdma_schedule, tdma_schedule_set, tdma_sched_advance, tdma_sched_flag_scan, _tdma_sched_bucket_sort (the exchange sort on seq[], all TDMASCHED_NUM_CB entries initialised), tdma_sched_execute (seq[] computed once before the loop, bucket->num_items re-read on every iteration, the rc < 0 path, the final num_items = 0), tdma_sched_reset, tdma_sched_dump, with C widths (cur_bucket is stored through the uint8_t conversion; cur_bucket < 25 is proved from the statement cur_bucket = wrap_bucket(1), not assumed), array capacities and an explicit out-of-bounds / NULL-call outcome; the execute loop recurses on seq[i..], so it makes at most TDMASCHED_NUM_CB calls and seq[TDMASCHED_NUM_CB] is the out-of-bounds outcome (no fuel)",
    "callbacks are identified by an id; a callback may re-enter the scheduler while tdma_sched_execute() runs ('on the fly' scheduling): when invoked it makes the tdma_schedule()/tdma_schedule_set() calls of its script (Env.scripts: fixed per callback id, any offsets, the scheduled callbacks may be scripted themselves, a callback may re-schedule itself) on the live scheduler and the return values are recorded; callbacks do not call execute/advance/reset and their scripts do not depend on their parameters or on earlier return values; EnvOk (decidable): every scripted call is an admissible operation; NoReentry (decidable, scripts empty) is the special case of the first version of the model",
    "the exactly-once theorems assume every pending and scheduled callback reports success (rc >= 0; decidable predicates Inv/OpOk/EnvOk); the error path is modelled, compared, and covered by execute_error_keeps_bucket (state = what the callbacks that ran scheduled from inside, bucket not cleared)",
    "admissible operations (OpOk): arguments within the C parameter types, item sets terminated by SCHED_END_SET() with frame offsets below 256 (no uint8_t wrap of ++frame_offset); runs_exactly_at / onfly_runs_exactly_at additionally: offset < 25, no reset between scheduling and execution, the item distinguishable (not pending, not scheduled again by an operation or - NoFlyPlaces, a decidable statement about the calls actually made from inside during the history - by a callback), and the firmware discipline execute-then-advance once per frame (sync.c frame interrupt) with scheduling for the current frame only before or during its execute; the ring statement pending_runs_ring needs no discipline",
    "model tied to the current tree by differential execution of the unchanged tdma_sched.c (compiled for the host; l1s, console and recording/scripted callbacks supplied by harness/c/c08_harness.c: a scripted callback makes its calls on the REAL scheduler from inside the REAL tdma_sched_execute()) on structured random histories: buckets filled to capacity and beyond, long histories of 262..626 advances (cur_bucket beyond 255 and 511 advances, items pending across) incl. one from every ring position, equal/negative/extreme priorities, offsets 0..300, out-of-width arguments, failing callbacks, multi-frame sets incl. overflow in mid-set and elements after END_SET, stale flags, scripted callbacks (offset 0 and later, sets, nesting, overflow from inside, self re-scheduling, cycles, failing scripted callbacks), every priority pattern over {-1,0,1}^<=6 and {0,1}^8",
    "TDMASCHED_NUM_FRAMES / TDMASCHED_NUM_CB, the field widths and the SCHED_END_FRAME()/SCHED_END_SET()/SCHED_ITEM()/SCHED_ITEM_DT() expansions are regenerated from the header on every run and used by the theorems (gen_consts)",
]
MANIFEST = {
    "text": "Lean 4 theorems over a statement-level model of tdma_sched.c with callbacks that may schedule from inside tdma_sched_execute(), from every well-formed state (any ring position) and every list of admissible operations: step_safe / history_safe (no out-of-bounds index, no NULL call, invariant preserved, scripted callbacks of any nesting included), sched_refines / sched_refines_run (every operation does to the pending work what the abstract 'items due in d frames' machine does, same return values; for execute: callbacks that do not re-enter), execute_on_the_fly (execute with re-entrant callbacks is an admissible on-the-fly execution: priority-sorted permutation of the items due at the start, then the items added to the current frame in the order added, calls from inside act like calls from outside), prio_order (for the actual exchange sort), executed_empty, overflow_reported / overflow_reported_set / overflow_inside_reported / call_inside_is_call (error return, state unchanged resp. every frame keeps its items, also from inside a callback), set_placement, pending_runs_ring (ring statement, no discipline), pending_runs_exactly_at / runs_exactly_at / set_runs_exactly_at (exactly once, at the execute after exactly N advances, with its parameters, 0 times anywhere else), onfly_runs_exactly_at (the same for an item scheduled from inside a callback of frame F for offset N >= 1: frame F+N), onfly_same_frame (offset 0 from inside: exactly once in the same execute, after the items pending at its start, in append order, never again), onfly_nothing_lost (everything the frame held when it was cleared has run), nothing_else_runs, execute_error_keeps_bucket; constants regenerated from the header; the model is compared with the unchanged C code on structured random histories (incl. > 512 advances and scripted callbacks) and an independent Python reference of the property is evaluated on the outputs of the real C code (instrumented with ASan/UBSan bounds)",
    "note": "trusted: Lean kernel (+propext, Classical.choice, Quot.sound), gen/tdma_sched.py, the differential harness harness/c/c08_harness.c (supplies l1s, console, recording and scripted callbacks); assumed: callbacks only call tdma_schedule/tdma_schedule_set (not execute/advance/reset) and what they call is fixed per callback id; premises of the exactly-once theorems: callbacks report success, offsets < 25, execute-then-advance discipline, no reset in between, distinguishable item; modelled not verified: C integer conversion rules as written in Model/TdmaSched.lean. Corner cases of the real code outside the premises are pinned by examples (unstable order of equal priorities, items scheduled on the fly for the current frame run in append order not by priority, a callback re-scheduling itself for the current frame is refused at the 8th call, offset >= 25 aliases, scheduling for the executed current frame waits 25 frames, an overflowing set keeps its first items, reset keeps the current bucket, a failing callback leaves the bucket scheduled, tdma_schedule() inherits stale .flags)",
    "technique": "Lean 4 proof by refinement (invariant + induction over op lists and over the execute loop) over a C-width model with explicit array bounds; differential correspondence with the compiled C; property oracle on the real code",
    "design_ref": "DESIGN.md section 5 C08",
}

if GSMTIME_PART:
    LEAN_MODULES += gsmtime.LEAN_MODULES
    DRIVER_MODULES += gsmtime.DRIVER_MODULES
    LEAN_MODEL_MODULES += gsmtime.LEAN_MODEL_MODULES
    ASSUMPTIONS += gsmtime.ASSUMPTIONS
    MANIFEST = dict(MANIFEST, text=MANIFEST["text"] + gsmtime.MANIFEST_TEXT, note=MANIFEST["note"] + gsmtime.MANIFEST_NOTE)

NF = 25          # scheduler depth the property speaks about
NCB = 8          # capacity of one frame
FW_FLAGS = ["-Dputs=fw_puts", "-Dprintf=fw_printf", "-Dputchar=fw_putchar"]
OK_CBS = list(range(0, 10)) + list(range(13, 25))   # callbacks that report success (8 returns 1, 9 returns p1, 13..24 return 0)
PLAIN_CBS = list(range(0, 10))   # the ones the generators never give a script
SCRIPT_IDS = list(range(13, 25)) # callbacks the generators give scripts (any id 0..24 may have one)
ERR_CBS = [10, 11, 12]           # 10: -1, 11: -p2-1, 12: -5 iff p3 odd
NUM_CBS = 25
MAX_SCRIPT_CALLS = 16
MAX_SCRIPT_SET = 64


def gen(run):
    run.consts = tdma_sched.generate(run)
    if GSMTIME_PART:
        gsmtime.gen(run)


# the public functions of the TDMA scheduler (tdma_sched.h): the harness links whatever file of layer1/ defines them
TDMA_FUNCS = ["tdma_schedule", "tdma_schedule_set", "tdma_sched_execute", "tdma_sched_advance", "tdma_sched_reset",
              "tdma_sched_flag_scan", "tdma_sched_dump", "tdma_end_set"]


def build_harness(run, san=False):
    """the real tdma_sched.c + harness; san=True: tdma_sched.c instrumented with ASan/UBSan (array bounds)"""
    attr = "c08_exe_san" if san else "c08_exe"
    if getattr(run, attr, None):
        return getattr(run, attr)
    sf = ["-fsanitize=address,undefined", "-fno-sanitize-recover=all"] if san else []
    suffix = "_san" if san else ""
    ts = cbuild.firmware_objs_for(run, "layer1/tdma_sched.c", TDMA_FUNCS, "tdma_sched" + suffix, extra_flags=FW_FLAGS + sf)
    h = cbuild.obj(run, os.path.join(vf.ROOT, "harness/c/c08_harness.c"), "c08_harness" + suffix,
                   flags=["-DHOST_BUILD"], includes=[cbuild.SHIM, cbuild.LIBOSMO_INC, cbuild.TOP_INC],
                   idirafter=[cbuild.FW_INC])
    if san:
        exe = cbuild.link(run, [h] + ts, "c08_harness_san.bin", flags=sf)
    else:
        exe = cbuild.link(run, [h] + ts, "c08_harness.bin", ignore_unresolved=True)
    setattr(run, attr, exe)
    return exe


def run_hist(exe, lines, max_crashes=3):
    """run_lines, but a history on which the real code crashes (signal / sanitizer abort) is answered
    `crash ...` instead of losing the batch; after max_crashes crashing lines the rest is `skipped`"""
    env = {"ASAN_OPTIONS": "detect_leaks=0", "UBSAN_OPTIONS": "print_stacktrace=0"}
    out = []
    pos = 0
    crashes = 0
    chunk = len(lines)
    while pos < len(lines):
        if crashes >= max_crashes:
            out += ["skipped"] * (len(lines) - pos)
            break
        part = lines[pos:pos + chunk]
        try:
            out += vf.run_lines([exe], part, env=env)
            pos += len(part)
            chunk = len(lines)
            continue
        except vf.HarnessError as e:
            err = str(e)
        if len(part) == 1:
            msg = [l for l in err.split("\n") if "runtime error" in l or "ERROR" in l]
            txt = msg[0].strip()[-160:] if msg else err.split("stderr:")[0].strip()[-80:]
            txt = re.sub(r"0x[0-9a-fA-F]+", "0x..", txt).replace(vf.REPO, "<repo>")
            out.append("crash " + " ".join(txt.split()))
            crashes += 1
            pos += 1
            chunk = len(lines)
        else:
            chunk = max(1, len(part) // 2)
    return out


# ------------------------------------------------------------------------------------------
# histories: cur + list of ops
#   ("sched", off, cb, p1, p2, p3, prio)   cb = int id or "E"
#   ("set", off, p3, [elem...])            elem = ("i", cb, p1, p2, prio, flags) | "F" | "E"
#   ("exec",) ("adv",) ("reset",) ("flags",) ("dump",)
#   ("def", id, [call...])                 call = a ("sched", ...) or ("set", ...) tuple: what callback `id` calls from inside
# an observed callback invocation is (id, p1, p2, p3, ret, [rc of each call it made from inside])

def op_str(op):
    if op[0] == "def":
        return ("def %d " % op[1] + " | ".join(op_str(c) for c in op[2])).strip()
    if op[0] == "sched":
        return "sched %s %s %d %d %d %d" % (op[1], op[2], op[3], op[4], op[5], op[6])
    if op[0] == "set":
        parts = ["set %d %d" % (op[1], op[2])]
        for e in op[3]:
            parts.append(e if isinstance(e, str) else "i %d %d %d %d %d" % e[1:])
        return " ".join(parts)
    return op[0]


def to_line(cur, ops):
    return "ts.run %d " % cur + " ; ".join(op_str(o) for o in ops)


def parse_line(line):
    t = line.split()
    cur = int(t[1])
    ops = []
    cmds, curc = [], []
    for x in t[2:]:
        if x == ";":
            cmds.append(curc)
            curc = []
        else:
            curc.append(x)
    cmds.append(curc)
    def call(c):
        if c[0] == "sched":
            return ("sched", int(c[1]), c[2] if c[2] == "E" else int(c[2]), int(c[3]), int(c[4]), int(c[5]), int(c[6]))
        el, i = [], 3
        while i < len(c):
            if c[i] in ("F", "E"):
                el.append(c[i]); i += 1
            else:
                el.append(("i",) + tuple(int(v) for v in c[i + 1:i + 6])); i += 6
        return ("set", int(c[1]), int(c[2]), el)
    for c in cmds:
        if c[0] in ("sched", "set"):
            ops.append(call(c))
        elif c[0] == "def":
            calls, curc = [], []
            for x in c[2:]:
                if x == "|":
                    calls.append(call(curc)); curc = []
                else:
                    curc.append(x)
            if curc:
                calls.append(call(curc))
            ops.append(("def", int(c[1]), calls))
        else:
            ops.append((c[0],))
    return cur, ops


def in_domain(line):
    """inside the property's quantifier: callbacks that report success (none of the failing callbacks ERR_CBS, neither in
    the history nor in a script), frame offsets 0..24, a current ring position below 25.  What the scheduler does when a callback fails (the
    rc < 0 path) is modelled and compared, but the property does not speak about it: a difference there is listed in the
    evidence and is not a broken tie."""
    try:
        cur, ops = parse_line(line)
    except (ValueError, IndexError):
        return False
    if not 0 <= cur < NF:
        return False

    def cbs(op):
        if op[0] == "sched":
            yield op[2]
        elif op[0] == "set":
            for e in op[3]:
                if isinstance(e, tuple):
                    yield e[1]
        elif op[0] == "def":
            yield op[1]
            for c in op[2]:
                for x in cbs(c):
                    yield x
    def offs(op):
        if op[0] in ("sched", "set"):
            yield op[1]
        elif op[0] == "def":
            for c in op[2]:
                for x in offs(c):
                    yield x
    for op in ops:
        for c in cbs(op):
            if c in ERR_CBS:
                return False
        for o in offs(op):
            if not 0 <= o < NF:          # "all frame offsets 0..24": what an offset beyond the scheduler depth does is not the property's business
                return False
    return True


def parse_answer(ans):
    """tokens -> per-op observation"""
    res = []
    for tok in ans.split():
        k = tok[0]
        if k == "r":
            res.append(("r", int(tok[1:])))
        elif k == "x":
            parts = tok[1:].split(":")
            calls = []
            for p in parts[1:]:
                q = p.split("/")
                calls.append(tuple(int(v) for v in q[0].split(",")) + ([int(v) for v in q[1:]],))
            res.append(("x", int(parts[0]), calls))
        elif k == "d":
            res.append(("d", [int(v) for v in tok[1:].split(",")]))
        elif k == "f":
            res.append(("f", int(tok[1:])))
        else:
            res.append((k,))
    return res


PRIOS = [-32768, -32767, -2, -1, 0, 1, 2, 3, 9, 10, 32766, 32767]


class Gen:
    """structured random histories (all randomness from run.rng)"""

    def __init__(self, rng):
        self.rng = rng
        self.serial = 0

    def uniq(self):
        # unique (p1, p2) per item of a history, so that a call identifies its item
        self.serial += 1
        return (self.serial // 256) % 256, self.serial % 256

    def prio(self, mode):
        r = self.rng
        if mode == "eq":
            return 3
        if mode == "few":
            return r.choice([-1, 0, 1])
        if mode == "edge":
            return r.choice(PRIOS)
        return r.randrange(-32768, 32768)

    def item(self, off, cbs, pmode):
        p1, p2 = self.uniq()
        return ("sched", off, self.rng.choice(cbs), p1, p2, self.rng.randrange(0, 65536), self.prio(pmode))

    def set_op(self, off, cbs, pmode, frames, per_frame, tail=False, flags=False):
        el = []
        for k in range(frames):
            if k:
                el.append("F")
            for _ in range(self.rng.choice(per_frame)):
                p1, p2 = self.uniq()
                el.append(("i", self.rng.choice(cbs), p1, p2, self.prio(pmode),
                           self.rng.choice([0, 1, 2, 3]) if flags else 0))
        el.append("E")
        if tail:
            p1, p2 = self.uniq()
            el += [("i", self.rng.choice(cbs), p1, p2, 0, 0), "F", "E"]
        return ("set", off, self.rng.randrange(0, 65536), el)

    # -- histories obeying the property's premises ------------------------------------------
    def disciplined(self, nframes, load, resets=False, sets=True, overflow=False, cur=None, dumps=0.15):
        """pre-ops ; exec ; post-ops (offset >= 1) ; adv  per frame; callbacks succeed; offsets < 25"""
        r = self.rng
        self.serial = r.randrange(0, 30000)
        cur = r.randrange(0, NF) if cur is None else cur
        pmode = r.choice(["eq", "few", "edge", "any"])
        ops = []
        period = r.choice([7, 12, 25, 30])   # absolute frames k*period get crowded
        for f in range(nframes):
            for phase in (0, 1):
                lo = 0 if phase == 0 else 1
                n = r.choice(load)
                for _ in range(n):
                    off = (f // period + 1) * period - f
                    if not (overflow and r.random() < 0.5 and lo <= off < NF):
                        off = r.choice([lo, lo, 1, 2, 3, 12, 23, 24, r.randrange(lo, NF)])
                    if sets and r.random() < 0.3:
                        frames = r.choice([1, 1, 2, 3, 4, 6])
                        frames = max(1, min(frames, NF - off))
                        ops.append(self.set_op(off, OK_CBS, pmode, frames, [0, 1, 1, 2, 3, NCB + 1] if overflow else [0, 1, 1, 2, 3],
                                               tail=r.random() < 0.2))
                    else:
                        ops.append(self.item(off, OK_CBS, pmode))
                if resets and r.random() < 0.08:
                    ops.append(("reset",))
                if r.random() < dumps:
                    ops.append(("dump",))
                if phase == 0:
                    ops.append(("exec",))
                    if r.random() < 2 * dumps:
                        ops.append(("dump",))
            ops.append(("adv",))
        for f in range(NF + 1):         # flush: nothing may run late or twice
            ops += [("exec",), ("adv",)]
        ops.append(("dump",))
        return cur, ops

    def long_run(self, nframes=None, cur=None):
        """several hundred disciplined frames: cur_bucket (uint8_t in the C code) passes 255 and 511 advances with
        items pending across; light load so that the quick tier stays fast"""
        r = self.rng
        nframes = nframes or r.choice([262, 300, 520, 540, 600])
        return self.disciplined(nframes, [0, 0, 0, 1, 1, 2], resets=False, sets=r.random() < 0.5,
                                overflow=r.random() < 0.3, cur=cur, dumps=0.02)

    def ring_walk(self, cur, nframes=540):
        """deterministic: from ring position `cur`, one item per frame, the offsets going through 0..24 (every ring
        position is a target again and again), over more than 512 advances; every 50th frame is filled to capacity"""
        ops = []
        self.serial = 1000 * cur
        for f in range(nframes):
            off = (f * 7 + cur) % NF
            p1, p2 = self.uniq()
            ops.append(("sched", off, (f + cur) % 10, p1, p2, f, (f * 5) % 7 - 3))
            if f % 50 == 49:
                for k in range(NCB):
                    p1, p2 = self.uniq()
                    ops.append(("sched", 24, k, p1, p2, f, (k * 3) % 5 - 2))
            ops += [("exec",), ("adv",)]
            if f % 100 == 99:
                ops.append(("dump",))
        for f in range(NF + 1):
            ops += [("exec",), ("adv",)]
        ops.append(("dump",))
        return cur, ops

    def script_defs(self, pmode, offs=None):
        """scripts for some callbacks: a forest (every scripted callback is scheduled by at most one other one, so
        that the items stay distinguishable); calls for the current frame (offset 0) and later ones, sets, nesting"""
        r = self.rng
        ids = SCRIPT_IDS[:]
        r.shuffle(ids)
        ids = ids[:r.randrange(2, len(ids) + 1)]
        children = {i: [] for i in ids}
        roots = []
        for j, i in enumerate(ids):
            if j == 0 or r.random() < 0.3:
                roots.append(i)
            else:
                children[r.choice(ids[:j])].append(i)
        offs = offs or [0, 0, 0, 1, 1, 2, 3, 12, 23, 24]
        defs = []
        for i in ids:
            calls = []
            todo = children[i] + [None] * r.choice([0, 1, 1, 2, 3])
            r.shuffle(todo)
            while todo and len(calls) < MAX_SCRIPT_CALLS:
                if r.random() < 0.3:
                    off = r.choice([0, 0, 1, 2, 5, 20])
                    el = []
                    for k in range(min(r.choice([1, 2, 3]), NF - off)):
                        if k:
                            el.append("F")
                        for _ in range(r.choice([0, 1, 1, 2])):
                            cb = todo.pop() if todo else None
                            p1, p2 = self.uniq()
                            el.append(("i", cb if cb is not None else r.choice(PLAIN_CBS), p1, p2, self.prio(pmode), 0))
                    el.append("E")
                    calls.append(("set", off, r.randrange(0, 65536), el))
                else:
                    cb = todo.pop()
                    p1, p2 = self.uniq()
                    calls.append(("sched", r.choice(offs + [r.randrange(0, NF)]), cb if cb is not None else r.choice(PLAIN_CBS),
                                  p1, p2, r.randrange(0, 65536), self.prio(pmode)))
            defs.append(("def", i, calls))
        return defs, roots

    def scripted(self, nframes, selfresched=None):
        """disciplined frames with callbacks that schedule from inside tdma_sched_execute(): for the frame being
        executed and for later ones, sets, nesting, frames crowded so that calls from inside overflow;
        selfresched = 0 / 1: one callback re-schedules itself for the current frame (until the frame is full) /
        for the next frame (a periodic task)"""
        r = self.rng
        self.serial = r.randrange(0, 30000)
        cur = r.randrange(0, NF)
        pmode = r.choice(["eq", "few", "edge", "any"])
        defs, roots = self.script_defs(pmode)
        ops = []
        when = {}
        for i in roots:
            when.setdefault(r.randrange(0, nframes), []).append(i)
        if selfresched is not None:
            sid = [i for i in SCRIPT_IDS if i not in [d[1] for d in defs]]
            if sid:
                p1, p2 = self.uniq()
                me = ("sched", selfresched, sid[0], p1, p2, r.randrange(0, 65536), self.prio(pmode))
                defs.append(("def", sid[0], [me]))
                ops.append(("sched", r.choice([0, 1, 3]),) + me[2:])
        for f in range(nframes):
            for phase in (0, 1):
                lo = 0 if phase == 0 else 1
                for _ in range(r.choice([0, 0, 1, 2])):
                    ops.append(self.item(r.choice([lo, 1, 2, 3, 24, r.randrange(lo, NF)]), PLAIN_CBS, pmode))
                for i in when.get(f, []) if phase == 0 else []:
                    off = r.choice([0, 0, 1, 2, 24])
                    p1, p2 = self.uniq()
                    if r.random() < 0.5:
                        for _ in range(r.choice([4, 5, 6, 7])):      # crowd the frame: calls from inside for it overflow
                            ops.append(self.item(off, PLAIN_CBS, pmode))
                    ops.append(("sched", off, i, p1, p2, r.randrange(0, 65536), self.prio(pmode)))
                if r.random() < 0.1:
                    ops.append(("dump",))
                if phase == 0:
                    ops.append(("exec",))
                    if r.random() < 0.3:
                        ops.append(("dump",))
            ops.append(("adv",))
        for f in range(NF + 1):
            ops += [("exec",), ("adv",)]
        ops.append(("dump",))
        return cur, defs + ops

    def script_errors(self):
        """a callback that makes calls from inside and then reports an error: execute leaves the bucket (and what
        was scheduled from inside) in place; outside the premises, correspondence only"""
        r = self.rng
        self.serial = r.randrange(0, 30000)
        cur = r.randrange(0, NF)
        bad = r.choice(ERR_CBS)
        p1, p2 = self.uniq()
        q1, q2 = self.uniq()
        defs = [("def", bad, [("sched", r.choice([0, 0, 1]), r.choice(PLAIN_CBS), p1, p2, 7, r.choice([-1, 0, 1])),
                               ("set", r.choice([0, 1]), 9, [("i", 13, q1, q2, 0, 1), "F", ("i", 2, q2, q1, 1, 2), "E"])]),
                ("def", 13, [("sched", 0, r.choice(PLAIN_CBS), q2, q2, 3, 0)])]
        ops = []
        for k in range(r.randrange(0, 4)):
            ops.append(self.item(0, PLAIN_CBS, "few"))
        ops.append(("sched", 0, bad, 1, 2, 3, r.choice([-1, 0, 1])))
        ops += [("exec",), ("dump",), ("exec",), ("dump",), ("exec",), ("adv",), ("exec",), ("dump",)]
        return cur, defs + ops

    def fill(self):
        """one frame filled to capacity and beyond, then executed"""
        r = self.rng
        self.serial = r.randrange(0, 30000)
        cur = r.randrange(0, NF)
        off = r.choice([0, 1, 23, 24, r.randrange(0, NF)])
        pmode = r.choice(["eq", "few", "edge", "any"])
        ops = []
        other = (off + r.randrange(1, NF)) % NF
        ops.append(self.item(other, OK_CBS, pmode))
        for k in range(r.choice([NCB - 1, NCB, NCB + 1, NCB + 3])):
            ops.append(self.item(off, OK_CBS, pmode))
            if r.random() < 0.2:
                ops.append(("dump",))
        ops.append(self.set_op(off, OK_CBS, pmode, 2, [1, 2]))
        ops.append(("dump",))
        for f in range(NF + 2):
            ops += [("exec",), ("dump",) if r.random() < 0.2 else ("flags",), ("adv",)]
        return cur, ops

    # -- histories outside the premises (correspondence only) ---------------------------------
    def soup(self, n):
        r = self.rng
        self.serial = r.randrange(0, 60000)
        cur = r.randrange(0, NF)
        pmode = r.choice(["eq", "few", "edge", "any", "wild"])
        cbs = r.choice([OK_CBS, OK_CBS + ERR_CBS, ERR_CBS + [0, 1], list(range(NUM_CBS)) + ["E"]])
        ops = []
        defs = []
        if r.random() < 0.6:
            # scripts of any shape: cycles, failing callbacks, offsets beyond the depth, out-of-width arguments
            for i in r.sample(range(NUM_CBS), r.randrange(1, 8)):
                calls = []
                for _ in range(r.choice([0, 1, 1, 2, 3, MAX_SCRIPT_CALLS])):
                    if r.random() < 0.25:
                        scbs = [x for x in cbs if x != "E"]
                        calls.append(self.set_op(r.choice([0, 0, 1, 24, 25, 255]), scbs, "edge", r.choice([1, 2, 3, 9]),
                                                 [0, 1, 2, NCB + 1], tail=r.random() < 0.3, flags=True))
                        if len(calls[-1][3]) > MAX_SCRIPT_SET:
                            calls.pop()
                    else:
                        p1, p2 = self.uniq()
                        calls.append(("sched", r.choice([0, 0, 0, 1, 2, 24, 25, 50, 255, 256, r.randrange(0, 256)]), r.choice(cbs + [i]),
                                      p1 + r.choice([0, 0, 256]), p2, r.choice([0, 1, 65535, 65536, r.randrange(0, 70000)]),
                                      r.choice(PRIOS + [32768, -32769, 70000])))
                defs.append(("def", i, calls))
        for _ in range(n):
            c = r.random()
            if c < 0.35:
                off = r.choice([0, 0, 1, 2, 24, 25, 26, 49, 50, 230, 231, 254, 255, 256, 257, 300, r.randrange(0, 256)])
                p1, p2 = self.uniq()
                if r.random() < 0.1:
                    p1 += 256 * r.randrange(1, 4)
                    p2 += 256
                prio = self.prio(pmode) if pmode != "wild" else r.choice([32768, 40000, 65535, 65536, -32769, -40000, -65536, 70000, 5])
                ops.append(("sched", off, r.choice(cbs), p1, p2, r.choice([0, 1, 2, 65535, 65536, 65537, r.randrange(0, 70000)]), prio))
            elif c < 0.5:
                off = r.choice([0, 1, 20, 24, 25, 250, 253, 255, r.randrange(0, 256)])
                scbs = [x for x in cbs if x != "E"]
                ops.append(self.set_op(off, scbs, pmode if pmode != "wild" else "edge", r.choice([1, 2, 3, 5, 8, 30]),
                                       [0, 1, 2, 3, NCB, NCB + 1], tail=r.random() < 0.3, flags=True))
            elif c < 0.7:
                ops.append(("exec",))
            elif c < 0.88:
                ops.append(("adv",))
            elif c < 0.91:
                ops.append(("reset",))
            elif c < 0.96:
                ops.append(("dump",))
            else:
                ops.append(("flags",))
        ops.append(("dump",))
        return cur, defs + ops

    def errors(self):
        """failing callbacks at every position of a bucket; execute repeated; bucket comes round"""
        r = self.rng
        self.serial = r.randrange(0, 30000)
        cur = r.randrange(0, NF)
        n = r.randrange(1, NCB + 1)
        bad = r.randrange(0, n)
        ops = []
        for k in range(n):
            p1, p2 = self.uniq()
            cb = r.choice(ERR_CBS) if k == bad or r.random() < 0.15 else r.choice(OK_CBS)
            ops.append(("sched", 0, cb, p1, p2, r.randrange(0, 65536), self.prio("few")))
        ops += [("exec",), ("dump",), ("exec",), ("sched", 0, 1, 0, 0, 0, -5), ("exec",)]
        for f in range(NF):
            ops += [("adv",)]
        ops += [("exec",), ("dump",)]
        return cur, ops

    def stale_flags(self):
        r = self.rng
        self.serial = r.randrange(0, 30000)
        cur = r.randrange(0, NF)
        ops = [self.set_op(0, OK_CBS, "few", 1, [r.randrange(1, NCB + 1)], flags=True), ("flags",), ("exec",), ("flags",)]
        for _ in range(r.randrange(1, 4)):
            ops.append(self.item(0, OK_CBS, "few"))
            ops.append(("flags",))
        ops += [("exec",), ("flags",), ("dump",)]
        return cur, ops


def exhaustive_prio_lines():
    """every priority pattern over {-1,0,1} for up to 6 items and {0,1} for 8 items: pins down the
    (unstable) order of equal priorities of the exchange sort"""
    lines = []
    import itertools
    for n in range(1, 7):
        for pat in itertools.product((-1, 0, 1), repeat=n):
            ops = [("sched", 0, k, k, 0, 0, p) for k, p in enumerate(pat)] + [("exec",)]
            lines.append(to_line(len(lines) % NF, ops))
    for pat in itertools.product((0, 1), repeat=8):
        ops = [("sched", 0, k, k, 0, 0, p) for k, p in enumerate(pat)] + [("exec",)]
        lines.append(to_line(len(lines) % NF, ops))
    return lines


def corr_lines(run, n):
    g = Gen(run.rng)
    lines = []
    kinds = []
    for i in range(n):
        c = i % 14
        if c < 3:
            cur, ops = g.soup(run.rng.choice([10, 40, 120]))
            kinds.append("soup")
        elif c < 5:
            cur, ops = g.disciplined(run.rng.choice([3, 30, 60]), [0, 0, 1, 2, 3], resets=True, overflow=run.rng.random() < 0.5)
            kinds.append("disciplined")
        elif c < 7:
            cur, ops = g.fill()
            kinds.append("fill")
        elif c < 8:
            cur, ops = g.errors()
            kinds.append("errors")
        elif c < 9:
            cur, ops = g.script_errors()
            kinds.append("errors-scripted")
        elif c < 10:
            cur, ops = g.stale_flags()
            kinds.append("flags")
        elif c < 13:
            cur, ops = g.scripted(run.rng.choice([2, 8, 30]), selfresched=run.rng.choice([None, None, 0, 1]))
            kinds.append("scripted")
        else:
            cur, ops = g.scripted(run.rng.choice([1, 3]), selfresched=0)
            kinds.append("scripted")
        lines.append(to_line(cur, ops))
    # long histories: more than 256 and more than 512 advances, from every ring position
    for cur in range(NF):
        lines.append(to_line(*g.ring_walk(cur)))
        kinds.append("long")
    for i in range(run.scale(25, 300)):
        lines.append(to_line(*g.long_run()))
        kinds.append("long")
    return lines, kinds


def correspond(run, corr):
    exe = build_harness(run)
    src = os.path.join(vf.REPO, "src/target/firmware/layer1/tdma_sched.c")
    run.drift["tdma_sched.c"] = vf.src_hash_c(src, ["wrap_bucket", "tdma_schedule", "tdma_schedule_set", "tdma_sched_advance",
                                                     "tdma_sched_flag_scan", "_tdma_sched_bucket_sort", "tdma_sched_execute",
                                                     "tdma_sched_reset"])
    n = run.scale(6000, 60000)
    lines = exhaustive_prio_lines()
    kinds = ["prio-exhaustive"] * len(lines)
    l2, k2 = corr_lines(run, n)
    lines += l2
    kinds += k2
    # malformed requests: both sides must refuse
    bad = ["ts.run 25 exec", "ts.run 0 sched 0 25 0 0 0 0", "ts.run 0 set 0 0 i 1 1 1 1 0", "ts.run 0 bogus", "ts.run 0",
           "ts.run 0 def 25 ; exec", "ts.run 0 def 3 | ; exec", "ts.run 0 def 3 sched 0 1 1 1 1 ; exec", "ts.run 0 exec ; def 3 ; exec",
           "ts.run 0 def 3 ; def 3 ; exec", "ts.run 0 def 3 sched 0 1 1 1 1 1 | ; exec", "ts.run 0 def 3 exec ; exec",
           "ts.run 0 def 3 " + " | ".join(["sched 0 1 1 1 1 1"] * (MAX_SCRIPT_CALLS + 1)) + " ; exec",
           "ts.run 0 def 3 set 0 0 " + "F " * MAX_SCRIPT_SET + "E ; exec"]
    # well-formed limits: exactly MAX_SCRIPT_CALLS calls, exactly MAX_SCRIPT_SET set elements, an empty script
    good = ["ts.run 0 def 3 " + " | ".join(["sched 0 1 1 1 1 1"] * MAX_SCRIPT_CALLS) + " ; sched 0 3 0 0 0 0 ; exec ; dump",
            "ts.run 0 def 3 set 0 0 " + "F " * (MAX_SCRIPT_SET - 1) + "E ; sched 0 3 0 0 0 0 ; exec ; dump",
            "ts.run 7 def 3 ; def 4 sched 0 3 1 1 1 1 ; sched 0 4 0 0 0 0 ; exec ; dump"]
    lines += bad + good
    kinds += ["malformed"] * len(bad) + ["scripted"] * len(good)
    impl = run_hist(exe, lines)
    model = vf.run_driver(lines)
    # the item flags (TDMA_IFLG_*, read back by tdma_sched_flag_scan: observation token f<bits>) are not part of what the
    # property states: a history on which model and code differ ONLY in these tokens is evidence, not a broken tie
    noflags = lambda a: " ".join(t for t in a.split() if not re.fullmatch(r"f\d+", t))
    flag_only = {l for l, a, b in zip(lines, impl, model) if a != b and noflags(a) == noflags(b)}
    corr.distribution["histories differing only in the flag-scan observation (outside the property)"] = len(flag_only)
    corr.compare(lines, impl, model, in_domain=lambda l: in_domain(l) and l not in flag_only)
    if corr.disagreements:
        d = corr.disagreements[0]
        small = shrink_disagreement(exe, d["request"])
        if small != d["request"]:
            corr.disagreements.insert(0, {"request": small, "impl": run_hist(exe, [small])[0], "model": vf.run_driver([small])[0],
                                          "note": "shrunk from the first disagreeing history"})
    nops = 0
    for ln, k, a in zip(lines, kinds, impl):
        corr.count(ln, k)
        nops += ln.count(";") + 1
        for tok in a.split():
            key = {"r": "ret:" + tok[1:] if tok[0] == "r" and tok in ("r0", "r-1") else "ret:frames>0" if tok[0] == "r" else None,
                   "x": "exec:" + ("empty" if tok == "x0" else "error" if tok.startswith("x-") else "ran")}.get(tok[0])
            if key:
                corr.distribution[key] = corr.distribution.get(key, 0) + 1
            if tok[0] == "x" and "/" in tok:
                corr.distribution["exec: with calls from inside"] = corr.distribution.get("exec: with calls from inside", 0) + 1
                corr.distribution["calls from inside: returned 0"] = corr.distribution.get("calls from inside: returned 0", 0) + tok.count("/0")
                corr.distribution["calls from inside: refused (-1)"] = corr.distribution.get("calls from inside: refused (-1)", 0) + tok.count("/-1")
        if k == "long":
            corr.distribution["long: advances in the longest history"] = max(corr.distribution.get("long: advances in the longest history", 0), ln.count(" adv"))
    corr.distribution["ops total"] = nops
    corr.rule = ("a case is one history line (zeroed scheduler, given ring position, scripts of the callbacks, sequence of tdma_schedule / "
                 "tdma_schedule_set / execute / advance / reset / flag_scan / dump); families: random op soup with offsets 0..300, out-of-width "
                 "arguments and arbitrary scripts (cycles, failing callbacks), disciplined frames (execute, advance) over up to 60+26 frames, "
                 "long histories of 262..600 frames (cur_bucket beyond 255 and 511 advances) incl. one from every ring position, one frame filled "
                 "to capacity and beyond, failing callbacks (with and without calls from inside), stale flags, callbacks that schedule from inside "
                 "tdma_sched_execute() (offset 0 and later, sets, nesting depth up to 12, crowded frames: overflow from inside, a callback that "
                 "re-schedules itself), every priority pattern over {-1,0,1}^<=6 and {0,1}^8; compared: every return code, every callback "
                 "invocation (id, p1, p2, p3, rc) in order with the return value of every call it made from inside, flag_scan values, num_items "
                 "of all 25 buckets at the dump points")
    corr.samples = [{"request": r[:400], "impl": a[:400], "model": b[:400]} for r, a, b in list(zip(lines, impl, model))[:3]]
    if GSMTIME_PART:
        gsmtime.correspond(run, corr)


# ------------------------------------------------------------------------------------------
# the property oracle: an independent Python reference of the PROPERTY (not of the code),
# evaluated on the outputs of the real C code.

class _Inst:
    """one scheduled item instance the reference expects to run (or, if optional, allows to run) in its frame"""
    __slots__ = ("key", "prio", "optional", "fly", "ran")

    def __init__(self, key, prio, optional=False, fly=False):
        self.key, self.prio, self.optional, self.fly, self.ran = key, prio, optional, fly, False


def evaluate(cur, ops, obs, premises_only=False):
    """returns None (property holds on this history), "n/a" (history outside the premises) or a
    dict describing the first failure.

    The reference knows frames (number of advances), not buckets: an item scheduled `off` frames ahead at
    frame t belongs to frame t + off, whoever schedules it - an operation of the history or a callback
    from inside tdma_sched_execute() (then t is the frame being executed; off = 0 is that very frame, the
    item has to run in the same execute).  A frame holds at most NCB items until it has been executed; whether
    items of the frame being executed that have already run still count is left open (either answer of a call
    from inside is accepted while only the items still to run fit).  Items with the same callback and parameters in one frame are told apart only by their
    number (they must have the same priority, otherwise the history is skipped)."""
    po = premises_only
    if po:
        obs = [None] * len(ops)
    if len(obs) != len(ops):
        return {"what": "answer has %d tokens for %d ops" % (len(obs), len(ops)), "op_index": 0}
    t = 0                 # frame number = advances so far
    executed = False      # has this frame been executed
    pend = {}             # frame -> [_Inst]
    lo, hi = {}, {}       # frame -> bounds on the occupancy of the frame
    scripts = {}          # callback id -> calls it makes from inside
    started = False

    def place(T, key, prio, optional=False, fly=False):
        pend.setdefault(T, []).append(_Inst(key, prio, optional, fly))

    def do_sched(i, op, rc, inside):
        """one tdma_schedule() at frame t; rc = observed return value (None: premises only)"""
        _, off, cb, p1, p2, p3, prio = op
        if cb not in OK_CBS or not (0 <= off < NF) or not (0 <= p1 < 256 and 0 <= p2 < 256 and 0 <= p3 < 65536 and -32768 <= prio <= 32767):
            return "n/a"
        if executed and off == 0 and not inside:
            return "n/a"
        key = (cb, p1, p2, p3)
        T = t + off
        l, h = lo.get(T, 0), hi.get(T, 0)
        where = " from inside a callback" if inside else ""
        if inside and off == 0:
            l = max(0, l - sum(1 for x in pend.get(t, []) if x.ran))
            if l < NCB <= h and rc in (0, -1):
                # the items that already ran may or may not count: both answers are admissible, follow the code
                if rc == 0:
                    place(T, key, prio, fly=True)
                    lo[T], hi[T] = lo.get(T, 0) + 1, h + 1
                return None
        if l < NCB <= h:
            return "n/a"
        if h < NCB:
            if rc is not None and rc != 0:
                return {"what": "tdma_schedule%s into a frame holding %d items did not return 0" % (where, h), "op_index": i, "got": rc}
            place(T, key, prio, fly=inside and off == 0)
            lo[T], hi[T] = l + 1, h + 1
        else:
            if rc is not None and rc != -1:
                return {"what": "tdma_schedule%s into a full frame (%d items) did not report an error" % (where, l), "op_index": i, "got": rc}
        return None

    def do_set(i, op, rc, inside):
        _, off, p3, el = op
        if not (0 <= off < NF) or not (0 <= p3 < 65536):
            return "n/a"
        k = 0
        placed = []
        failed = False
        for e in el:
            if e == "E":
                break
            if e == "F":
                k += 1
                continue
            _, cb, p1, p2, prio, flags = e
            if cb not in OK_CBS or off + k >= NF or not (0 <= p1 < 256 and 0 <= p2 < 256 and -32768 <= prio <= 32767):
                return "n/a"
            if executed and off + k == 0 and not inside:
                return "n/a"
            key = (cb, p1, p2, p3)
            T = t + off + k
            l, h = lo.get(T, 0), hi.get(T, 0)
            if l < NCB <= h:
                return "n/a"
            if h >= NCB:
                failed = True
                break
            placed.append((T, key, prio, inside and off + k == 0))
            lo[T], hi[T] = l + 1, h + 1
        else:
            return "n/a"      # no END_SET
        if off + k >= NF:
            return "n/a"
        where = " from inside a callback" if inside else ""
        if failed:
            if rc is not None and rc != -1:
                return {"what": "tdma_schedule_set%s overflowing a frame did not report an error" % where, "op_index": i, "got": rc}
            # what the aborted set leaves behind is not fixed by the property: its items may run (once, in their frame) or not
            for T, key, prio, fly in placed:
                place(T, key, prio, optional=True, fly=fly)
                lo[T] -= 1
        else:
            if rc is not None and rc != k:
                return {"what": "tdma_schedule_set%s did not return the number of frame markers (%d)" % (where, k), "op_index": i, "got": rc}
            for T, key, prio, fly in placed:
                place(T, key, prio, fly=fly)
        return None

    def do_call(i, c, rc, inside):
        return do_sched(i, c, rc, inside) if c[0] == "sched" else do_set(i, c, rc, inside)

    for i, (op, ob) in enumerate(zip(ops, obs)):
        if op[0] == "def":
            if started or op[1] in scripts or not (0 <= op[1] < NUM_CBS):
                return "n/a"
            scripts[op[1]] = op[2]
            continue
        started = True
        if op[0] in ("sched", "set"):
            if not po and (ob is None or ob[0] != "r"):
                return {"what": "no return value observed", "op_index": i, "got": ob}
            res = do_call(i, op, None if po else ob[1], False)
            if res is not None:
                return res
        elif op[0] == "exec":
            if executed:
                return "n/a"
            inst = pend.setdefault(t, [])    # the list keeps growing while callbacks schedule for this frame
            n0 = len(inst)
            if po:
                # premises only: the invocation order is known only if the priorities of the items pending at the
                # start are distinct (or no callback involved makes calls from inside)
                first = sorted(inst[:n0], key=lambda x: x.prio)
                scripted = any(scripts.get(x.key[0]) for x in inst)
                if any(x.optional for x in inst) and scripted:
                    return "n/a"
                if scripted and len(set(x.prio for x in first)) != len(first):
                    return "n/a"
                k = 0
                while k < len(first) + len(inst) - n0:
                    x = first[k] if k < len(first) else inst[n0 + k - len(first)]
                    for c in scripts.get(x.key[0], []):
                        res = do_call(i, c, None, True)
                        if res is not None:
                            return res
                    if any(y.optional for y in inst[n0:]):
                        return "n/a"
                    k += 1
                pend.pop(t, None)
                lo[t] = hi[t] = 0
                executed = True
                continue
            _, rc, calls = ob
            first_prios = []
            for c in calls:
                kx = tuple(c[:4])
                cand = [x for x in inst if x.key == kx and not x.ran]
                if not cand:
                    if any(x.key == kx for x in inst):
                        return {"what": "item %s ran more often in frame %d than it was scheduled for it" % (kx, t), "op_index": i, "frame": t, "got": ob}
                    return {"what": "callback %s ran in frame %d but was not scheduled for it" % (kx, t), "op_index": i, "frame": t, "got": ob}
                if len(set((x.prio, x.optional, x.fly) for x in cand)) > 1:
                    return "n/a"      # indistinguishable items with different expectations
                x = cand[0]
                x.ran = True
                if not x.fly:
                    first_prios.append(x.prio)
                sc = scripts.get(c[0], [])
                rcs = c[5] if len(c) > 5 else []
                if len(rcs) != len(sc):
                    return {"what": "callback %s made %d scheduler calls, its script has %d" % (kx, len(rcs), len(sc)), "op_index": i, "frame": t, "got": ob}
                for cl, r in zip(sc, rcs):
                    res = do_call(i, cl, r, True)
                    if res is not None:
                        return res
            for x in inst:
                if not x.ran and not x.optional:
                    what = "item %s scheduled for frame %d did not run in it" % (x.key, t)
                    if x.fly:
                        what = "item %s scheduled from inside a callback for the frame being executed (%d) did not run in that execute" % (x.key, t)
                    return {"what": what, "op_index": i, "frame": t, "got": ob}
            if any(a > b for a, b in zip(first_prios, first_prios[1:])):
                return {"what": "items of frame %d did not run in ascending priority order: %s" % (t, first_prios), "op_index": i, "frame": t, "got": ob}
            if rc != len(calls):
                return {"what": "tdma_sched_execute returned %d after %d callbacks" % (rc, len(calls)), "op_index": i, "frame": t, "got": ob}
            pend.pop(t, None)
            lo[t] = hi[t] = 0
            executed = True
        elif op[0] == "adv":
            if not executed:
                return "n/a"
            executed = False
            t += 1
        elif op[0] == "reset":
            for T in list(pend):
                if T > t:
                    del pend[T]
            for T in list(hi):
                if T > t:
                    lo[T] = hi[T] = 0
            # the frame being current: the property does not say whether its items survive a reset
            for x in pend.get(t, []):
                x.optional = True
            lo[t] = 0
        elif op[0] == "dump":
            if po:
                continue
            d = ob[1]
            for j, v in enumerate(d[:NF]):
                T = t + j
                if not (lo.get(T, 0) <= v <= hi.get(T, 0)):
                    what = "frame %d (due in %d) holds %d items, expected %d..%d" % (T, j, v, lo.get(T, 0), hi.get(T, 0))
                    if j == 0 and executed:
                        what = "the executed frame is not left empty (%d items)" % v
                    return {"what": what, "op_index": i, "frame": T, "got": ob}
        elif op[0] == "flags":
            pass
        else:
            return "n/a"
    return None


def judge(cur, ops, ans):
    """verdict of the property reference on one answer line of the real code"""
    if ans in ("bad-op", "skipped"):
        return "n/a"
    if ans.startswith("crash"):
        if evaluate(cur, ops, None, premises_only=True) == "n/a":
            return "n/a"
        return {"what": "the scheduler code crashed / indexed outside an array on a history within the premises: " + ans, "op_index": len(ops) - 1}
    try:
        obs = parse_answer(ans)
    except Exception:
        return {"what": "unparseable answer " + ans[:100], "op_index": 0}
    return evaluate(cur, ops, obs)


def check_history(exe, cur, ops):
    ans = run_hist(exe, [to_line(cur, ops)])[0]
    return judge(cur, ops, ans), ans


def shrink_disagreement(exe, line):
    """greedy op removal while real code and model still disagree"""
    cur, ops = parse_line(line)

    def differs(o):
        if not o:
            return False
        ln = to_line(cur, o)
        return run_hist(exe, [ln])[0] != vf.run_driver([ln])[0]
    budget = 250
    changed = True
    while changed and budget > 0:
        changed = False
        while len(ops) > 1 and budget > 0:
            budget -= 1
            if differs(ops[:-1]):
                ops = ops[:-1]
                changed = True
            else:
                break
        i = 0
        while i < len(ops) and budget > 0:
            budget -= 1
            cand = ops[:i] + ops[i + 1:]
            if differs(cand):
                ops = cand
                changed = True
            else:
                i += 1
    return to_line(cur, ops)


def shrink(exe, cur, ops):
    """greedy removal of ops while the history still violates the property within its premises"""
    def bad(o):
        r, _ = check_history(exe, cur, o)
        return isinstance(r, dict)
    changed = True
    budget = 400
    while changed and budget > 0:
        changed = False
        # whole frames first (exec ... adv), then single scheduling ops
        i = 0
        while i < len(ops) and budget > 0:
            cand = None
            if ops[i][0] in ("sched", "set", "dump", "flags", "reset", "def"):
                cand = ops[:i] + ops[i + 1:]
            if cand is not None:
                budget -= 1
                if bad(cand):
                    ops = cand
                    changed = True
                    continue
            if ops[i][0] == "def":
                # single calls of a script
                k = 0
                while k < len(ops[i][2]) and budget > 0:
                    budget -= 1
                    cand = ops[:i] + [("def", ops[i][1], ops[i][2][:k] + ops[i][2][k + 1:])] + ops[i + 1:]
                    if bad(cand):
                        ops = cand
                        changed = True
                    else:
                        k += 1
            i += 1
        # whole frames: a consecutive (exec, adv) pair
        i = 0
        while i + 1 < len(ops) and budget > 0:
            if ops[i][0] == "exec" and ops[i + 1][0] == "adv":
                budget -= 1
                cand = ops[:i] + ops[i + 2:]
                if bad(cand):
                    ops = cand
                    changed = True
                    continue
            i += 1
        # drop trailing ops
        while len(ops) > 1 and budget > 0:
            budget -= 1
            if bad(ops[:-1]):
                ops = ops[:-1]
                changed = True
            else:
                break
    return ops


def shape_of(ops, res):
    """coarse description of a failing history (used to match known findings)"""
    offs = [o[1] for o in ops if o[0] in ("sched", "set")]
    return {"max_offset": max(offs) if offs else -1, "n_sched": len(offs),
            "n_adv": sum(1 for o in ops if o[0] == "adv"), "has_reset": any(o[0] == "reset" for o in ops),
            "has_set": any(o[0] == "set" for o in ops), "n_scripts": sum(1 for o in ops if o[0] == "def" and o[2])}


def report(run, exe, cur, ops, res):
    ops = shrink(exe, cur, ops)
    res2, ans = check_history(exe, cur, ops)
    if not isinstance(res2, dict):
        res2 = res
    w = {"kind": "tdma-history", "history": to_line(cur, ops), "impl": ans, "fails": res2["what"],
         "failing_op": op_str(ops[res2["op_index"]]) if res2.get("op_index", 0) < len(ops) else None,
         "property_requires": "every item runs exactly once, in the frame it was scheduled for (also when scheduled by a callback "
                              "from inside tdma_sched_execute(): offset 0 = the same execute), items pending at the start of a frame in "
                              "ascending priority order; full frame -> error return; executed frame empty"}
    w.update(shape_of(ops, res2))
    return run.report_witness(w)


def search(run, corr, deep):
    try:
        exe = build_harness(run, san=True)
        corr.distribution["oracle: tdma_sched.c instrumented (ASan+UBSan bounds)"] = 1
    except vf.HarnessError:
        exe = build_harness(run)
    g = Gen(run.rng)
    found = 0
    n = run.scale(3000, 30000) * (4 if deep else 1)
    hist = []
    # the disagreeing histories of the correspondence first (if they obey the premises)
    for d in corr.disagreements:
        try:
            hist.append(parse_line(d["request"]))
        except Exception:
            pass
    # fixed boundary histories: every offset 0..24 from every ring position, single item and full frame
    for cur in range(NF):
        for off in range(NF):
            ops = [("sched", off, 1, off, cur, 7, 0)]
            if (cur + off) % 5 == 0:
                ops += [("sched", off, 2 + k % 8, k, 200, 9, (k * 7) % 5 - 2) for k in range(NCB)]
            for f in range(NF + 1):
                ops += [("exec",), ("adv",)]
            ops.append(("dump",))
            hist.append((cur, ops))
    # long histories from every ring position: cur_bucket passes 255 and 511 advances with items pending across
    for cur in range(NF):
        hist.append(g.ring_walk(cur))
    for i in range(run.scale(20, 200) * (3 if deep else 1)):
        hist.append(g.long_run())
    for i in range(n):
        c = i % 7
        if c == 4:
            hist.append(g.scripted(run.rng.choice([2, 8, 30]), selfresched=run.rng.choice([None, None, 0, 1])))
        elif c == 5:
            hist.append(g.scripted(run.rng.choice([1, 3, 12]), selfresched=run.rng.choice([None, 0])))
        elif c == 6:
            hist.append(g.scripted(run.rng.choice([2, 5]), selfresched=run.rng.choice([0, 1])))
        elif c == 0:
            hist.append(g.fill())
        elif c == 1:
            hist.append(g.disciplined(run.rng.choice([2, 10, 30, 60]), [0, 1, 1, 2, 4], resets=False, overflow=True))
        elif c == 2:
            hist.append(g.disciplined(run.rng.choice([2, 10, 30]), [0, 0, 1, 2, 3], resets=True, overflow=run.rng.random() < 0.3))
        else:
            hist.append(g.disciplined(run.rng.choice([5, 40]), [0, 1, 2, 5, 9], resets=False, sets=False, overflow=run.rng.random() < 0.5))
    ndis = len([1 for d in corr.disagreements])
    lines = [to_line(c, o) for c, o in hist]
    # the disagreeing histories separately: a crash budget spent on them must not hide the generated ones
    nd = 0
    for d in corr.disagreements:
        try:
            parse_line(d["request"]); nd += 1
        except Exception:
            pass
    answers = (run_hist(exe, lines[:nd], max_crashes=10) if nd else []) + run_hist(exe, lines[nd:], max_crashes=6)
    stats = {"ok": 0, "n/a": 0, "fail": 0}
    items = 0
    for (cur, ops), ans in zip(hist, answers):
        res = judge(cur, ops, ans)
        if res is None:
            stats["ok"] += 1
            items += sum(1 for o in ops if o[0] in ("sched", "set"))
            if any(o[0] == "def" and o[2] for o in ops):
                stats["scripted"] = stats.get("scripted", 0) + 1
                stats["inside"] = stats.get("inside", 0) + ans.count("/")
            nadv = sum(1 for o in ops if o[0] == "adv")
            if nadv > 256:
                stats["long"] = stats.get("long", 0) + 1
        elif res == "n/a":
            stats["n/a"] += 1
        else:
            stats["fail"] += 1
            if found < 3:
                found += report(run, exe, cur, ops, res)
    corr.distribution["oracle: histories within the premises"] = stats["ok"] + stats["fail"]
    corr.distribution["oracle: histories outside the premises (skipped)"] = stats["n/a"]
    corr.distribution["oracle: scheduling ops checked"] = items
    corr.distribution["oracle: histories with callbacks that schedule from inside"] = stats.get("scripted", 0)
    corr.distribution["oracle: calls from inside checked"] = stats.get("inside", 0)
    corr.distribution["oracle: histories with more than 256 advances"] = stats.get("long", 0)
    return found + (gsmtime.search(run, corr, deep) if GSMTIME_PART else 0)


def replay(run, path):
    rp = json.load(open(path))
    gen(run)
    try:
        exe = build_harness(run, san=True)
    except vf.HarnessError:
        exe = build_harness(run)
    bad = 0
    for v in rp.get("violations", []):
        w = v.get("witness")
        if not w:
            print("replay: no concrete input recorded (%s)" % json.dumps(v.get("broken"))[:400])
            continue
        if w.get("part") == "gsmtime":
            bad += gsmtime.replay_witness(run, w)
            continue
        cur, ops = parse_line(w["history"])
        res, ans = check_history(exe, cur, ops)
        print("replay history=%s\n  impl=%s\n  verdict=%s" % (w["history"], ans, res if res else "property holds"))
        bad += isinstance(res, dict)
    if bad:
        print("VIOLATION property=C08 replay=%s" % path)
    return 1 if bad else 0
