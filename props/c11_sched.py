# C11, trxcon side: the consumers of the multiframe layouts in sched_trx.c
# (l1sched_configure_ts and friends, every frames[fn % period] site, subst_frame_loss).
# Helper of props/C11.py: request generators, the real outputs (harness/c/c11_sched_harness.c
# around the UNCHANGED sched_trx.c), the correspondence part and the property oracle.
import os

from lib import vf, cbuild
from gen import mframe

TRX_SRC = "src/host/trxcon/src/sched_mframe.c"
TRX_SCHED_SRC = "src/host/trxcon/src/sched_trx.c"
SAN = ["-fsanitize=address,undefined", "-fno-sanitize-recover=all"]
CYCLE = 51 * 26 * 8
H = 26 * 51 * 2048
FUNCS = ["l1sched_pull_burst", "l1sched_add_ts", "l1sched_del_ts", "l1sched_configure_ts", "l1sched_reset_ts",
         "l1sched_reset", "l1sched_find_lchan_by_type", "l1sched_activate_lchan", "l1sched_deactivate_lchan",
         "l1sched_deactivate_all_lchans", "l1sched_reset_lchan", "subst_frame_loss", "l1sched_handle_rx_burst",
         "l1sched_handle_rx_probe"]


def build(run):
    """harness around the UNCHANGED sched_trx.c + sched_lchan_desc.c (own objects) and the #included
    sched_mframe.c; clang ASan+UBSan; l1sched_mframe_layout wrapped at link time (guarded table copies)"""
    if getattr(run, "c11_sched", None):
        return run.c11_sched
    mframe.trxcon_names(run)
    mframe.sched_names(run)
    inc = [run.scratch, mframe.SHIM_TRXSCHED, mframe.SHIM_TRXCON, mframe.TRXCON_INC]
    flags = SAN + ["-O0"] + cbuild.CONSOLE_FLAGS
    objs = [
        cbuild.console_sink(run),
        cbuild.obj(run, os.path.join(vf.REPO, TRX_SCHED_SRC), "c11_sched_trx", flags=flags, includes=inc, compiler="clang"),
        cbuild.obj(run, os.path.join(vf.REPO, mframe.TRXCON_DESC_C), "c11_sched_lchan_desc", flags=flags, includes=inc,
                   compiler="clang"),
        cbuild.obj(run, os.path.join(vf.ROOT, "harness/c/c11_sched_harness.c"), "c11_sched_harness",
                   flags=SAN + ["-O0"] + ['-DC11_SCHED_MFRAME_C="%s"' % mframe.trxcon_sources()[0]] +
                         ['-DC11_SCHED_EXTRA%d_C="%s"' % (i + 1, q) for i, q in enumerate(mframe.trxcon_sources()[1:3])], includes=inc,
                   compiler="clang"),
    ]
    run.c11_sched = cbuild.link(run, objs, "c11_sched_harness.bin", flags=SAN + ["-Wl,--wrap=l1sched_mframe_layout"],
                                compiler="clang")
    return run.c11_sched


# ----------------------------------------------------------------------------
# the dumped tables, as the oracle reads them

class Tables:
    def __init__(self, tb):
        tc = tb["trxcon"]
        self.tc = tc
        self.desc = tb["desc"]["desc"]
        self.chan_max = tb["desc"]["consts"]["L1SCHED_CHAN_MAX"]
        self.lname = {v: n[len("L1SCHED_"):] for n, v in tc["lchans"]}
        self.pval = {n[len("GSM_PCHAN_"):]: v for n, v in tc["pchans"]}
        self.pname = {v: n for n, v in self.pval.items()}
        self.idle = {n: v for v, n in self.lname.items()}.get("IDLE")
        self.none = self.pval.get("NONE")

    def rows(self, lay):
        """the rows fn % period can address, None for a row outside the table"""
        t = self.tc["tables"].get(lay["frames"]) if lay["frames"] else None
        if t is None:
            return None
        return [tuple(t[i]) if i < len(t) else None for i in range(lay["period"])]

    def first_layout(self, cfg, tn):
        """layouts[] entry a correct lookup returns for (cfg, tn): the first valid one"""
        for i, l in enumerate(self.tc["layouts"]):
            if l["config"] == cfg and (l["slotmask"] >> tn) & 1:
                return i, l
        return None, None

    def by_header(self, hdr, tn):
        """layouts[] entry by the header values the real timeslot shows (config, period, slotmask, mask)"""
        for i, l in enumerate(self.tc["layouts"]):
            if [l["config"], l["period"], l["slotmask"], l["lchan_mask"]] == hdr:
                return i, l
        return None, None

    def has_rx(self, ch):
        return ch < len(self.desc) and bool(self.desc[ch]["rx"])

    def has_tx(self, ch):
        return ch < len(self.desc) and bool(self.desc[ch]["tx"])


# ----------------------------------------------------------------------------
# parsing the harness answers

def parse_ts(txt):
    """`~` | `<layout>/<lchans>` -> None | {"layout": [cfg, period, slotmask, mask] | None, "lchans": None | [..]}"""
    if txt == "~":
        return None
    lay, lch = txt.split("/")
    d = {"layout": None if lay == "-" else [int(x) for x in lay.split(".")], "lchans": None}
    if lch == "?":
        return d
    d["lchans"] = []
    if lch != "-":
        for t in lch.split(","):
            ty, ac, last, npr, nl = t.split(":")
            d["lchans"].append({"type": int(ty), "active": int(ac), "last": int(last), "num_proc": int(npr), "num_lost": int(nl)})
    return d


def parse_evs(txt):
    if txt == "-":
        return []
    out = []
    for t in txt.split(","):
        out.append((t[0],) + tuple(int(x) for x in t[1:].split(".")))
    return out


def parse_burst(txt):
    """`rc;evs;B<bid>` -> (rc, events, bid)"""
    rc, evs, b = txt.split(";")
    return rc, parse_evs(evs), int(b[1:])


def split_ops(ans):
    """answer line -> (list of op outputs, crash text or None, ops completed)"""
    if ans.startswith("crash:"):
        kind, k = ans[len("crash:"):].split("@")
        return [], kind, int(k)
    return ans.split("|"), None, None


# ----------------------------------------------------------------------------
# request generators; every request comes with a meta dict the oracle interprets

def act_all(tn, mask, chan_max):
    return ["act,%d,%d" % (tn, c) for c in range(chan_max) if (mask >> c) & 1]


def cfg_list(T):
    vals = [v for _, v in T.tc["pchans"]]
    return list(range(0, max(vals) + 3)) + [200]


def gen_configure(T):
    """every (combination value, timeslot): configure, dump, activate everything, dump; and the same on a
    timeslot that was configured before (reconfiguration path)"""
    reqs = []
    for c in cfg_list(T):
        for tn in range(8):
            i, lay = T.first_layout(c, tn)
            acts = act_all(tn, lay["lchan_mask"], T.chan_max) if lay else []
            reqs.append(("ts.seq cfg,%d,%d %s dump,%d" % (tn, c, " ".join(acts), tn),
                         {"kind": "configure", "config": c, "tn": tn, "nact": len(acts)}))
    return reqs


def gen_cycle(T, pairs, span):
    """rx / tx / probe lookups for every frame number of the cycle, all channels active"""
    reqs = []
    for c, tn in pairs:
        i, lay = T.first_layout(c, tn)
        if lay is None or c == T.none:
            continue
        acts = act_all(tn, lay["lchan_mask"], T.chan_max)
        for fn0 in range(0, CYCLE, span):
            n = min(span, CYCLE - fn0)
            reqs.append(("ts.seq cfg,%d,%d %s rxn,%d,%d,%d txn,%d,%d,%d" % (tn, c, " ".join(acts), tn, fn0, n, tn, fn0, n),
                         {"kind": "cycle", "config": c, "tn": tn, "fn0": fn0, "n": n, "nact": len(acts)}))
    return reqs


def gen_edges(T, rng, pairs):
    reqs = []
    for c, tn in pairs:
        i, lay = T.first_layout(c, tn)
        if lay is None or c == T.none:
            continue
        acts = " ".join(act_all(tn, lay["lchan_mask"], T.chan_max))
        for fn0, n in ((H - 120, 240), (2 ** 32 - 130, 130), (rng.randrange(0, 2 ** 32 - 300), 200)):
            reqs.append(("ts.seq cfg,%d,%d %s rxn,%d,%d,%d txn,%d,%d,%d" % (tn, c, acts, tn, fn0, n, tn, fn0, n),
                         {"kind": "cycle", "config": c, "tn": tn, "fn0": fn0, "n": n, "nact": len(acts.split()) if acts else 0}))
        pr = " ".join("probe,%d,%d" % (tn, f) for f in range(0, lay["period"] + 3))
        reqs.append(("ts.seq cfg,%d,%d probe,%d,0 %s %s" % (tn, c, tn, acts, pr),
                     {"kind": "probe", "config": c, "tn": tn, "nact": len(acts.split()) if acts else 0, "n": lay["period"] + 3}))
    return reqs


def chan_frames(rows, ch):
    return [f for f, r in enumerate(rows) if r is not None and r[0] == ch]


def gen_loss_api(T, rng, pairs, per_chan, pack=24):
    """lost-frame compensation through the API only (reachable states): a burst of channel c at fn1, the
    next burst of c at fn2; elapsed = 1 .. a little more than 104, also across the hyperframe wrap"""
    reqs = []
    for c, tn in pairs:
        i, lay = T.first_layout(c, tn)
        if lay is None or c == T.none:
            continue
        rows = T.rows(lay)
        if rows is None or not lay["period"]:
            continue
        P = lay["period"]
        chans = sorted({r[0] for r in rows if r is not None and T.has_rx(r[0]) and (lay["lchan_mask"] >> r[0]) & 1})
        for ch in chans:
            fr = chan_frames(rows, ch)
            cases = []
            allpairs = [(a, b) for a in fr for b in fr]
            rng.shuffle(allpairs)
            for a, b in allpairs[:per_chan]:
                base = rng.choice([0, P, 1000 * 26 * 51 // P * P, H - 2 * P, H - P])
                k = rng.choice([0, 0, 0, 1, 1, 2])
                fn1 = (base + a) % H
                el = (b - a) % P + k * P
                fn2 = (fn1 + el) % H
                cases.append((fn1, fn2))
            # the largest compensated loss and the first refused one, explicitly
            for a in fr[:3]:
                for b in fr:
                    for k in (0, 1, 2):
                        el = (b - a) % P + k * P
                        if P - 3 <= el <= P + 3 or 100 <= el <= 106:
                            cases.append((a + 5 * P, (a + 5 * P + el) % H))
            for j in range(0, len(cases), pack):
                ops = []
                for fn1, fn2 in cases[j:j + pack]:
                    ops += ["deact,%d,%d" % (tn, ch), "act,%d,%d" % (tn, ch), "rx,%d,%d" % (tn, fn1), "rx,%d,%d" % (tn, fn2),
                            "dump,%d" % tn]
                reqs.append(("ts.seq cfg,%d,%d act,%d,%d %s" % (tn, c, tn, ch, " ".join(ops)),
                             {"kind": "loss", "config": c, "tn": tn, "chan": ch, "cases": cases[j:j + pack]}))
    return reqs


def gen_loss_inject(T, rng, pairs, per_chan, pack=40):
    """subst_frame_loss for arbitrary (last_proc, num_proc, fn) by writing lchan->tdma (correspondence only)"""
    reqs = []
    edge_fn = [0, 1, H // 2 - 1, H // 2, H // 2 + 1, H - 1, H, H + 1, 2 ** 31 - 1, 2 ** 31, 2 ** 32 - 1]
    for c, tn in pairs:
        i, lay = T.first_layout(c, tn)
        if lay is None or c == T.none:
            continue
        rows = T.rows(lay)
        if rows is None or not lay["period"]:
            continue
        P = lay["period"]
        chans = sorted({r[0] for r in rows if r is not None and T.has_rx(r[0]) and (lay["lchan_mask"] >> r[0]) & 1})
        for ch in chans:
            fr = chan_frames(rows, ch)
            ops = []
            for _ in range(per_chan):
                b = rng.choice(fr)
                mode = rng.randrange(6)
                base = rng.choice([0, 7 * P, H - P, H - 3 * P])
                fn2 = (base + b) % H
                if mode == 0:
                    last = (fn2 - rng.randrange(0, P + 4)) % H
                elif mode == 1:
                    last = (fn2 - rng.randrange(0, 3 * P)) % H
                elif mode == 2:
                    last = (fn2 + rng.randrange(1, 300)) % H          # the burst is older than the last processed one
                elif mode == 3:
                    last = rng.choice(edge_fn)
                elif mode == 4:
                    last = (fn2 - rng.choice([H // 2 - 1, H // 2, H // 2 + 1, P, P + 1, 1, 0])) % H
                else:
                    last = rng.randrange(H)
                npr = rng.choice([1, 1, 1, 0, 2, 2 ** 64 - 1, 2 ** 64 - 2, rng.randrange(1, 1000)])
                if mode == 3 and rng.random() < 0.3:
                    fn2 = rng.choice(edge_fn)
                ops += ["setl,%d,%d,%d,%d" % (tn, ch, last, npr), "rx,%d,%d" % (tn, fn2), "dump,%d" % tn]
            for j in range(0, len(ops), 3 * pack):
                reqs.append(("ts.seq cfg,%d,%d act,%d,%d %s" % (tn, c, tn, ch, " ".join(ops[j:j + 3 * pack])),
                             {"kind": "inject"}))
    return reqs


def gen_histories(T, rng, count, length):
    """random histories over a few timeslots, invalid combinations and crash-prone orders included"""
    cfgs = cfg_list(T)
    valid = sorted({l["config"] for l in T.tc["layouts"] if l["config"] != T.none})
    reqs = []
    for _ in range(count):
        tns = rng.sample(range(8), rng.choice([1, 2, 3]))
        ops = []
        safe = rng.random() < 0.7           # mostly histories that stay inside defined behaviour
        for _ in range(rng.randrange(3, length)):
            tn = rng.choice(tns)
            r = rng.random()
            if r < 0.18:
                c = rng.choice(valid) if (safe or rng.random() < 0.6) else rng.choice(cfgs)
                ops.append("cfg,%d,%d" % (tn, c))
            elif r < 0.23:
                ops.append("del,%d" % tn)
            elif r < 0.27:
                ops.append("rts,%d" % tn)
            elif r < 0.29:
                ops.append("rst")
            elif r < 0.42:
                ops.append("%s,%d,%d" % (rng.choice(["act", "act", "deact"]), tn, rng.randrange(T.chan_max + 2)))
            elif r < 0.75:
                fn = rng.choice([rng.randrange(H), rng.randrange(300), H - 1 - rng.randrange(50)])
                if rng.random() < 0.5 and ops:
                    ops.append("rxn,%d,%d,%d" % (tn, fn, rng.randrange(0, 30)))
                else:
                    ops.append("rx,%d,%d" % (tn, fn))
            elif r < 0.88:
                ops.append("tx,%d,%d" % (tn, rng.randrange(H)))
            elif r < 0.94:
                ops.append("probe,%d,%d" % (tn, rng.randrange(H)))
            else:
                ops.append("dump,%d" % tn)
        ops.append("dump,%d" % tns[0])
        reqs.append(("ts.seq " + " ".join(ops), {"kind": "history"}))
    # fixed ones: out-of-range timeslot, NONE configured (N15), failed first configuration then delete
    for line in ("ts.seq cfg,8,1", "ts.seq rx,9,0", "ts.seq cfg,0,%d rx,0,5" % T.none, "ts.seq cfg,0,%d tx,0,5" % T.none,
                 "ts.seq cfg,0,%d probe,0,5" % T.none, "ts.seq cfg,0,200 dump,0 rx,0,1 tx,0,1 del,0",
                 "ts.seq cfg,0,200 dump,0 cfg,0,1", "ts.seq cfg,0,200 rts,0", "ts.seq cfg,0,200 rst",
                 "ts.seq cfg,0,200 act,0,3", "ts.seq cfg,0,1 cfg,0,200 dump,0 del,0 dump,0 rst", "ts.seq",
                 "ts.seq rst del,3 rts,3 act,3,1 deact,3,1 rx,3,7 tx,3,7 probe,3,7 dump,3"):
        reqs.append((line, {"kind": "history"}))
    return reqs


def pick_pairs(T, rng, every):
    """(combination, timeslot) pairs: all of them, or one timeslot per layouts[] entry"""
    allp = [(l["config"], tn) for l in T.tc["layouts"] for tn in range(8)
            if (l["slotmask"] >> tn) & 1 and T.first_layout(l["config"], tn)[1] is l]
    if every:
        return sorted(set(allp))
    out = []
    for l in T.tc["layouts"]:
        cand = [p for p in allp if T.first_layout(*p)[1] is l]
        if cand:
            out.append(rng.choice(cand))
    return out


def requests(run, T):
    rng = run.rng
    reqs = []
    reqs += gen_configure(T)
    reqs += gen_cycle(T, pick_pairs(T, rng, run.thorough), 2652)
    one = pick_pairs(T, rng, False)
    reqs += gen_edges(T, rng, one)
    reqs += gen_loss_api(T, rng, one, run.scale(60, 400))
    reqs += gen_loss_inject(T, rng, one, run.scale(40, 300))
    reqs += gen_histories(T, rng, run.scale(150, 1500), 40)
    return reqs


def real(run, tb):
    """(requests with meta, real answers), cached per run"""
    if getattr(run, "c11_sched_real", None) is None:
        T = Tables(tb)
        reqs = requests(run, T)
        out = vf.run_lines([build(run)], [r for r, _ in reqs])
        run.c11_sched_real = (T, reqs, out)
    return run.c11_sched_real


def correspond(run, corr, tb):
    T, reqs, impl = real(run, tb)
    lines = [r for r, _ in reqs]
    model = vf.run_driver(lines)
    corr.compare(lines, impl, model, in_domain=lambda r: in_domain(T, r), model_ub=lambda b: b.startswith("crash:"))
    for (r, m), a in zip(reqs, impl):
        corr.count(r, "ts.seq %s%s" % (m["kind"], " crash:" + a.split(":")[1].split("@")[0] if a.startswith("crash:") else ""))
    pick = [k for k, (r, m) in enumerate(reqs) if m["kind"] in ("loss", "configure")][5:]
    for k in pick[:1] + pick[-1:]:
        corr.samples.append({"request": lines[k][:300], "impl": impl[k][:300], "model": model[k][:300]})


# ----------------------------------------------------------------------------
# domain of the property: timeslots 0..7, the combinations layouts[] has, logical channels of the enum,
# frame numbers below the hyperframe

def in_domain(T, req):
    toks = req.split()
    if not toks or toks[0] != "ts.seq":
        return False
    # the combinations that implement a logical channel: layouts[] entries with frames (the entry of GSM_PCHAN_NONE has a
    # period of 0 and no frame: configuring "nothing" is not a lookup the property speaks about)
    cfgs = {l["config"] for l in T.tc["layouts"] if l["period"] > 0}
    for op in toks[1:]:
        p = op.split(",")
        try:
            a = [int(x) for x in p[1:]]
        except ValueError:
            return False
        if p[0] == "rst":
            continue
        if not a or a[0] > 7:
            return False
        if p[0] == "cfg" and (len(a) != 2 or a[1] not in cfgs):
            return False
        if p[0] in ("act", "deact") and (len(a) != 2 or a[1] >= T.chan_max):
            return False
        if p[0] in ("rx", "tx", "probe") and (len(a) != 2 or a[1] >= H):
            return False
        if p[0] in ("rxn", "txn") and (len(a) != 3 or a[1] + a[2] > H):
            return False
        if p[0] == "setl" and (len(a) != 4 or a[2] >= H):
            return False
    return True


# ----------------------------------------------------------------------------
# the property oracle on the real answers (independent of the Lean model)

def fn_after(a, b):
    """b - a in the cyclic order of frame numbers (0 .. H-1)"""
    return (b - a) % H


def acts_of(T, lay, tn):
    return act_all(tn, lay["lchan_mask"], T.chan_max)


def judge(T, req, m, ans):
    """witnesses (dicts) of the property failing on one request of kind configure / cycle / probe / loss;
    every witness carries a minimal request that shows it again (`replay`)"""
    wit = []
    kind = m["kind"]
    if kind in ("history", "inject"):
        return wit

    def cfgname(c):
        return T.pname.get(c, c)

    def chname(c):
        return T.lname.get(c, c)

    ops, crash, done = split_ops(ans)
    c, tn = m["config"], m["tn"]
    li, lay = T.first_layout(c, tn)
    if lay is None or c == T.none or tn > 7:
        return wit                     # nothing is demanded of combinations that have no layout
    rows = T.rows(lay)
    P = lay["period"]
    acts = acts_of(T, lay, tn)
    base = {"config": cfgname(c), "tn": tn, "layout_index": li, "layout_table": lay["frames"]}
    rp_cfg = {"request": "ts.seq cfg,%d,%d dump,%d" % (tn, c, tn), "meta": {"kind": "configure", "config": c, "tn": tn, "nact": 0}}

    def rp_fn(fn):
        return {"request": "ts.seq cfg,%d,%d %s rxn,%d,%d,1 txn,%d,%d,1" % (tn, c, " ".join(acts), tn, fn, tn, fn),
                "meta": {"kind": "cycle", "config": c, "tn": tn, "fn0": fn, "n": 1, "nact": len(acts)}}

    if crash is not None and crash != "out-of-table":
        # period 0 / NULL table of a real layout; other crashes are not what this property speaks about
        if crash in ("period-zero", "null") and kind in ("cycle", "probe", "loss") and done >= 1 + m.get("nact", 0):
            wit.append(dict(base, kind="consumer-lookup", site=kind, what="crash:%s in op %d" % (crash, done),
                            replay={"request": req, "meta": m}))
        return wit
    if kind == "configure":
        if crash:
            return wit
        rc, evs, st = ops[0].split(";")
        ts = parse_ts(st)
        if rc != "0" or ts is None or ts["layout"] is None or ts["lchans"] is None:
            wit.append(dict(base, kind="chan-state", what="l1sched_configure_ts returned %s for a combination and timeslot "
                            "that has a layout" % rc, channel=None, frame=None, replay=rp_cfg))
            return wit
        hi, hl = T.by_header(ts["layout"], tn)
        if hl is None or hl["config"] != c or not (hl["slotmask"] >> tn) & 1:
            return wit                 # a wrong layout is reported by the layout-lookup oracle
        states = {l["type"] for l in ts["lchans"]}
        seen = set()
        for f, r in enumerate(T.rows(hl) or []):
            if r is None:
                continue
            for d, ch in (("DL", r[0]), ("UL", r[2])):
                if ch != T.idle and ch not in states and (d, ch) not in seen:
                    seen.add((d, ch))
                    wit.append(dict(base, kind="chan-state", layout_index=hi, layout_table=hl["frames"], dir=d, frame=f,
                                    channel=chname(ch), channel_value=ch, lchan_mask=hl["lchan_mask"],
                                    states=sorted(states), replay=rp_cfg,
                                    what="frame uses a channel that got no channel state from l1sched_configure_ts"))
        return wit
    if rows is None or not P:
        return wit
    if kind == "cycle":
        k0 = 1 + m["nact"]
        if crash:
            site = "rx" if done == k0 else ("tx" if done == k0 + 1 else "configure")
            wit.append(dict(base, kind="consumer-lookup", site=site, fn=m["fn0"], n=m["n"], locate=(m["n"] > 1),
                            what="a frame lookup left the table (for a frame number in fn .. fn+n-1)",
                            replay={"request": req, "meta": m}))
            return wit
        for site, txt in (("rx", ops[k0]), ("tx", ops[k0 + 1])):
            col = 0 if site == "rx" else 2
            for k, t in enumerate(txt.split("+") if txt != "-" else []):
                fn = m["fn0"] + k
                if fn >= H:
                    break                  # outside the frame numbers the property speaks about
                rc, evs, bid = parse_burst(t)
                r = rows[fn % P]
                if r is None:
                    wit.append(dict(base, kind="consumer-lookup", site=site, fn=fn, frame_mod_period=fn % P,
                                    what="fn % period is not a row of the table", replay=rp_fn(fn)))
                    break
                exp_ev = []
                has = T.has_rx(r[0]) if site == "rx" else T.has_tx(r[2])
                if has and (lay["lchan_mask"] >> r[col]) & 1:
                    exp_ev = [("R" if site == "rx" else "T", r[col], tn, fn, r[col + 1])]
                got = [e for e in evs if e[3] == fn]     # the burst itself (substitutions have other fns)
                if bid != r[col + 1] or got != exp_ev:
                    wit.append(dict(base, kind="consumer-lookup", site=site, fn=fn, frame_mod_period=fn % P,
                                    layout_row="%s.%d/%s.%d" % (chname(r[0]), r[1], chname(r[2]), r[3]),
                                    observed={"bid": bid, "handler_calls": got, "rc": rc},
                                    what="the frame used is not frames[fn % period]", replay=rp_fn(fn)))
                    break
        return wit
    if kind == "probe":
        if crash:
            wit.append(dict(base, kind="consumer-lookup", site="probe", what="a frame lookup left the table",
                            replay={"request": req, "meta": m}))
        return wit
    if kind == "loss":
        ch = m["chan"]

        def rp_loss(fn1, fn2):
            return {"request": "ts.seq cfg,%d,%d act,%d,%d deact,%d,%d act,%d,%d rx,%d,%d rx,%d,%d dump,%d"
                               % (tn, c, tn, ch, tn, ch, tn, ch, tn, fn1, tn, fn2, tn),
                    "meta": {"kind": "loss", "config": c, "tn": tn, "chan": ch, "cases": [[fn1, fn2]]}}

        if crash:
            j = (done - 2) // 5 if done >= 2 else 0
            fn1, fn2 = m["cases"][min(j, len(m["cases"]) - 1)]
            wit.append(dict(base, kind="subst", channel=chname(ch), channel_value=ch, last_proc=fn1, fn=fn2,
                            elapsed=fn_after(fn1, fn2), period=P, replay=rp_loss(fn1, fn2),
                            what="a frame lookup of subst_frame_loss left the table"))
            return wit
        for j, (fn1, fn2) in enumerate(m["cases"]):
            o = ops[2 + 5 * j: 2 + 5 * j + 5]
            rc2, evs2, bid2 = parse_burst(o[3])
            el = fn_after(fn1, fn2)
            # the burst itself is the last call (when it is delivered); everything before it is a substitution
            subs = list(evs2)
            if subs and subs[-1] == ("R", ch, tn, fn2, bid2):
                subs.pop()
            exp = []
            for i in range(1, el if el < H // 2 else 0):
                f = (fn1 + i) % H
                r = rows[f % P]
                if r is not None and r[0] == ch:
                    exp.append(("R", ch, tn, f, r[1]))
            bad = None
            if any(e not in exp for e in subs) or len(set(subs)) != len(subs):
                bad = "substituted a frame the layout does not give to the channel in the lost interval, or with another burst id"
            elif 1 <= el <= P and subs != exp:
                bad = "did not substitute exactly the lost frames of the channel"
            if bad:
                wit.append(dict(base, kind="subst", channel=chname(ch), channel_value=ch, last_proc=fn1, fn=fn2, elapsed=el,
                                period=P, substituted=[[e[3], e[4]] for e in subs][:12],
                                expected=[[e[3], e[4]] for e in exp][:12], what=bad, replay=rp_loss(fn1, fn2)))
                break
    return wit


def locate(run, T, w):
    """a crash somewhere in a range of frame numbers: find the first frame number that shows it alone"""
    m = w["replay"]["meta"]
    c, tn = m["config"], m["tn"]
    li, lay = T.first_layout(c, tn)
    acts = acts_of(T, lay, tn)
    reqs = []
    for fn in range(m["fn0"], m["fn0"] + m["n"]):
        reqs.append(("ts.seq cfg,%d,%d %s rxn,%d,%d,1 txn,%d,%d,1" % (tn, c, " ".join(acts), tn, fn, tn, fn),
                     {"kind": "cycle", "config": c, "tn": tn, "fn0": fn, "n": 1, "nact": len(acts)}))
    out = vf.run_lines([build(run)], [r for r, _ in reqs])
    for (r, mm), a in zip(reqs, out):
        ww = judge(T, r, mm, a)
        if ww:
            return ww[0]
    return w


def oracle(run, tb):
    T, reqs, out = real(run, tb)
    wit = []
    for (req, m), ans in zip(reqs, out):
        for w in judge(T, req, m, ans):
            if w.pop("locate", False) and len([x for x in wit if x.get("kind") == "consumer-lookup"]) < 3:
                w = locate(run, T, w)
                w.pop("locate", None)
            wit.append(w)
    return wit


def replay_witness(run, tb, w):
    """re-run the minimal request of a recorded witness against the current tree; the witnesses it shows now"""
    T = Tables(tb)
    rp = w.get("replay") or {}
    if "request" not in rp:
        return None
    m = rp["meta"]
    if "cases" in m:
        m = dict(m, cases=[tuple(x) for x in m["cases"]])
    ans = vf.run_lines([build(run)], [rp["request"]])[0]
    return judge(T, rp["request"], m, ans)
