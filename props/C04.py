# C04 — TRXD octets follow the protocol layout; Python and trxcon (C) agree
import json, os
from lib import vf
from lib import trxd as T
from gen import trxd_consts
from props import trxcon_part
from props import C01 as c01
from props import msg_reuse_part as reuse

ID = "C04"
LEVEL = "proof"
LEAN_MODULES = ["OsmoVerif.Props.C04", "OsmoVerif.Props.C04Py", "OsmoVerif.Props.Trxcon"]
DRIVER_MODULES = ["Trxd", "TrxconIf"]
LEAN_MODEL_MODULES = c01.LEAN_MODEL_MODULES + ["OsmoVerif.Spec.TrxdLayoutRead", "OsmoVerif.Lemmas.TrxdLayout"] + trxcon_part.LEAN_MODEL_MODULES
ASSUMPTIONS = c01.ASSUMPTIONS + trxcon_part.ASSUMPTIONS + [
    "Spec/TrxdLayout.lean (the octet layout) is written from the protocol description, independently of data_msg.py and trx_if.c; the Python codec and trxcon are each proved equal to it, the cross statements (Props/C04.lean) are compositions",
    "trxcon emits version 0 only, so version-1 agreement is Python <-> layout",
]
MANIFEST = {
    "text": "Lean theorems: gen_eq_layout_tx/rx (octets of every valid message = the protocol layout, v0 and v1, legacy on/off), parse_inv_layout_tx/rx (every accepted datagram is interpreted per the layout), trxcon_decodes_layout / trxcon_emits_layout (the C model of trx_data_rx_cb / trx_if_handle_phyif_burst_req against the same layout), and the compositions trxcon_decodes_py (every valid v0 Rx message of the toolkit is indicated by trxcon with the same FN, TN, RSSI, ToA256, soft bits) and py_parses_trxcon (every burst trxcon emits is parsed by the toolkit to the values given). Ties: Python codec vs model (lattice + mutated octets), real trx_if.c vs model under ASan/UBSan. Oracles: real encoder output vs a literal layout written in the check, parser output vs a literal reader, and an end-to-end cross run real Python octets -> real C and real C octets -> real Python",
    "note": "trusted: Lean kernel (+propext, Classical.choice, Quot.sound), translators gen/trxd_consts.py and gen/trxcon.py, harnesses (trxd_harness.py, trxcon harness with shim_trxif environment), literal layout in lib/trxd.py; trxcon decodes -RSSI faithfully for octets 0..128 (protocol range 47..120)",
    "technique": "Lean 4 proofs of three models against one arithmetic layout spec + composition; differential correspondence per implementation; cross-implementation run on the real code",
    "design_ref": "DESIGN.md section 5 C04",
}
H = 2715648


def gen(run):
    run.trxd_consts = trxd_consts.generate(run)
    trxcon_part.gen(run)


def correspond(run, corr):
    c01.correspond(run, corr)
    trxcon_part.correspond(run, corr, parts=("rxd", "txd"))


def layout_oracle(run, corr, deep):
    """real gen_msg octets == literal layout; real parser output == literal reading of the octets"""
    found = 0
    msgs = c01.messages(run, deep)[:: (1 if deep else 2)]
    reqs = ["trxd.%s.gen %d %s" % (k, l, m.line()) for k, m, l in msgs]
    out = vf.run_lines(T.HARNESS, reqs)
    n = 0
    for (k, m, l), a in zip(msgs, out):
        if not c01.in_quantifier(k, m):
            continue
        want = T.layout_tx(m, l) if k == "tx" else T.layout_rx(m, l)
        n += 1
        if not a.startswith("ok ") or T.dec_octets(a[3:]) != bytes(want):
            found += run.report_witness({"kind": "trxd-layout-gen", "class": k, "legacy": l, "message": m.line(),
                                         "impl": a[:400], "layout_demands": bytes(want).hex()[:400]})
            if found >= 2:
                break
    corr.distribution["oracle: encoder outputs compared with the literal layout"] = n
    # ... and the datagram that leaves through DATAInterface.send_msg() is exactly these octets (nothing added on the way)
    sub = [(k, m, l) for k, m, l in msgs if c01.in_quantifier(k, m)][:: 5]
    sa = vf.run_lines(T.HARNESS, ["trxd.%s.send %d %s" % (k, l, m.line()) for k, m, l in sub])
    for (k, m, l), a in zip(sub, sa):
        want = T.layout_tx(m, l) if k == "tx" else T.layout_rx(m, l)
        t = a.split()
        if not (len(t) == 3 and t[0] == "ok" and t[1] == "1" and T.dec_octets(t[2]) == bytes(want)):
            found += run.report_witness({"kind": "trxd-layout-sent", "class": k, "legacy": l, "message": m.line(),
                                         "impl": a[:400], "layout_demands": "1 datagram: " + bytes(want).hex()[:400]})
            break
    corr.distribution["oracle: sent datagrams compared with the literal layout"] = len(sub)
    return found


def cross_oracle(run, corr, deep):
    """end to end on the real code: Python octets -> trxcon, trxcon octets -> Python"""
    exe = trxcon_part.build(run)
    found = 0
    rng = run.rng
    n = run.scale(400, 6000) * (3 if deep else 1)
    # toolkit -> trxcon (version 0 only: trxcon speaks v0)
    msgs = []
    for _ in range(n):
        m = T.rand_valid_rx(rng, ver=0)
        m.burst = bytes(0x81 if b == 0x80 else b for b in T.soft_burst(rng, len(m.burst)))   # octets of array('b'); -128 is outside the domain
        msgs.append((m, rng.randrange(2)))
    # "every message the toolkit accepts": sweep each numeric field far beyond its protocol range too - whatever the real
    # validate()/gen_msg() lets through must arrive in trxcon with the value it was sent with
    base = T.rand_valid_rx(rng, ver=0)
    base.burst = bytes(0x81 if b == 0x80 else b for b in T.soft_burst(rng, 148))
    for v in list(range(-300, 61)):
        msgs.append((base.copy(rssi=v), 0))
    for v in sorted(set(list(range(-33100, 33101, 331)) + [-32769, -32768, -32767, 32766, 32767, 32768, -1, 0, 1])):
        msgs.append((base.copy(toa=v), 0))
    for v in (0, 1, H - 1, H, H + 1, 2 ** 32 - 1):
        msgs.append((base.copy(fn=v), 0))
    for v in range(-1, 10):
        msgs.append((base.copy(tn=v), 0))
    # what the toolkit SENDS: the datagram DATAInterface.send_msg() hands to its socket (through the real UDPLink.send)
    enc = vf.run_lines(T.HARNESS, ["trxd.rx.send %d %s" % (l, m.line()) for m, l in msgs])
    reqs, keep = [], []
    for (m, l), a in zip(msgs, enc):
        t = a.split()
        if len(t) == 3 and t[0] == "ok" and t[1] == "1":
            reqs.append("tc.rxd %s 0" % T.dec_octets(t[2]).hex())
            keep.append((m, l))
    out = vf.run_lines([exe], reqs)
    for (m, l), r, a in zip(keep, reqs, out):
        want = "0 | ind %d %d %d %d %d %s | rts %d %d" % (m.tn, m.fn, m.rssi, m.toa, len(m.burst),
                                                         bytes(m.burst).hex(), m.fn % H, m.tn)
        if a != want:
            found += run.report_witness({"kind": "cross-py-to-trxcon", "message": m.line(), "legacy": l, "octets": r.split()[1][:120],
                                         "trxcon": a[:300], "expected": want[:300]})
            break
    corr.distribution["oracle: toolkit datagrams decoded by the real trxcon"] = len(reqs)
    # trxcon -> toolkit
    cases = [(rng.randrange(8), rng.choice([0, 1, H - 1, rng.randrange(H)]), rng.randrange(256),
              [rng.randrange(2) for _ in range(rng.choice([148, 148, 444]))]) for _ in range(n)]
    out = vf.run_lines([exe], ["tc.txd %d %d %d %d %s" % (tn, fn, pwr, len(bits), bytes(bits).hex()) for tn, fn, pwr, bits in cases])
    preqs = []
    for a in out:
        hx = a.split(" | ")[1] if " | " in a else "-"
        preqs.append("trxd.tx.parse " + T.enc_octets(bytes.fromhex(hx) if hx != "-" else b""))
    pout = vf.run_lines(T.HARNESS, preqs)
    for (tn, fn, pwr, bits), a, p in zip(cases, out, pout):
        got = T.parse_tx_answer(p)
        ok = got is not None and (got.ver, got.fn, got.tn, got.pwr, list(got.burst or [])) == (0, fn, tn, pwr, bits)
        if not ok:
            found += run.report_witness({"kind": "cross-trxcon-to-py", "request": {"tn": tn, "fn": fn, "pwr": pwr, "nbits": len(bits)},
                                         "trxcon_octets": a[:200], "python_parsed": p[:300]})
            break
    corr.distribution["oracle: trxcon datagrams parsed by the real toolkit"] = len(cases)
    return found


def reused_parser_oracle(run, corr, deep):
    """the real parser reads exactly what the octets carry also when the decoder object decoded another message before
    (trxcon's and fake_trx's receive paths keep parsing datagram after datagram): every field the header version transports,
    and no burst where the octets carry none"""
    msgs = c01.messages(run, deep)
    pool = {"tx": [(m, l) for k, m, l in msgs if k == "tx" and c01.in_quantifier(k, m)],
            "rx": [(m, l) for k, m, l in msgs if k == "rx" and c01.in_quantifier(k, m)]}
    reqs, meta = [], []
    for k in ("tx", "rx"):
        if len(pool[k]) < 2:
            continue
        nob = [x for x in pool[k] if x[0].burst is None] or pool[k]
        for _ in range(run.scale(800, 10000)):
            m1, l1 = run.rng.choice(pool[k])
            m2, l2 = run.rng.choice(nob if run.rng.random() < 0.5 else pool[k])
            reqs.append("trxd.%s.rt2 %d %s %d %s" % (k, l1, m1.line(), l2, m2.line()))
            meta.append((k, m1, l1, m2, l2))
    out = vf.run_lines(T.HARNESS, reqs)
    found = 0
    for (k, m1, l1, m2, l2), a in zip(meta, out):
        why = c01.judge_reused(k, m2, a)
        if why:
            w = m2.asdict()
            w.update({"kind": "trxd-parse-reused-decoder", "class": k, "line": m2.line(), "legacy": l2, "first_line": m1.line(), "first_legacy": l1,
                      "what": "the parser, re-used after another datagram, does not read what the octets carry: " + why, "decoded": a[:400]})
            found += run.report_witness(w)
            break
    corr.distribution["oracle: datagrams parsed by a re-used decoder object and compared with the literal reading"] = len(reqs)
    return found


def search(run, corr, deep):
    found = layout_oracle(run, corr, deep)
    found += reused_parser_oracle(run, corr, deep)
    # the encoder on a message object that was encoded before: the octets are the layout of the message as it is NOW
    rf = reuse.run(run, corr, [x for x in c01.messages(run, deep) if c01.in_quantifier(x[0], x[1])][:: 3], True, "C04")
    if rf:
        found += run.report_witness(reuse.witness(rf[0], len(rf)))
    found += trxcon_part.oracle(run, corr, deep, parts=("rxd", "txd"))
    found += cross_oracle(run, corr, deep)
    return found


def replay(run, path):
    rp = json.load(open(path))
    bad = 0
    for v in rp.get("violations", []):
        w = v.get("witness") or {}
        kind = str(w.get("kind", ""))
        if kind.startswith("trxcon-"):
            still, text = trxcon_part.replay(run, w)
            print(text)
            bad += bool(still)
        elif kind == "trxd-layout-gen":
            a = vf.run_lines(T.HARNESS, ["trxd.%s.gen %d %s" % (w["class"], w["legacy"], w["message"])])[0]
            print("replay: %s -> %s\n  layout demands %s" % (w["message"][:200], a[:300], w["layout_demands"][:300]))
            bad += (not a.startswith("ok ")) or T.dec_octets(a[3:]).hex()[:400] != w["layout_demands"]
        elif kind == "message-object-reused":
            still, text = reuse.replay(w)
            print(text)
            bad += still
        elif kind == "trxd-parse-reused-decoder":
            k = w["class"]
            a = vf.run_lines(T.HARNESS, ["trxd.%s.rt2 %d %s %d %s" % (k, w["first_legacy"], w["first_line"], w["legacy"], w["line"])])[0]
            mm = (T.parse_tx_answer if k == "tx" else T.parse_rx_answer)("ok " + w["line"])
            why = c01.judge_reused(k, mm, a)
            print("replay: %s parsed after %s -> %s : %s" % (w["line"][:120], w["first_line"][:80], a[:160], why or "property holds"))
            bad += why is not None
        elif kind == "trxd-layout-sent":
            a = vf.run_lines(T.HARNESS, ["trxd.%s.send %d %s" % (w["class"], w["legacy"], w["message"])])[0]
            print("replay: send_msg(%s) -> %s\n  layout demands %s" % (w["message"][:160], a[:300], w["layout_demands"][:300]))
            t = a.split()
            bad += not (len(t) == 3 and t[1] == "1" and "1 datagram: " + T.dec_octets(t[2]).hex()[:400] == w["layout_demands"])
        elif kind == "cross-py-to-trxcon":
            exe = trxcon_part.build(run)
            enc = vf.run_lines(T.HARNESS, ["trxd.rx.send %d %s" % (w["legacy"], w["message"])])[0]
            et = enc.split()
            a = vf.run_lines([exe], ["tc.rxd %s 0" % T.dec_octets(et[2]).hex()])[0] if (len(et) == 3 and et[1] == "1") else enc
            print("replay: toolkit message %s\n  trxcon: %s\n  expected: %s" % (w["message"][:200], a[:300], w["expected"]))
            bad += a[:300] != w["expected"]
        elif kind == "cross-trxcon-to-py":
            print("replay: recorded trxcon octets %s parsed by the toolkit as %s" % (w["trxcon_octets"], w["python_parsed"]))
            bad += 1
        else:
            print("replay: no concrete input recorded: %s" % json.dumps(v.get("broken"))[:500])
    if bad:
        print("VIOLATION property=C04 replay=%s" % path)
    return 1 if bad else 0
